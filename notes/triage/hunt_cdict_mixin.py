import sys
from spyne import Application, rpc, ServiceBase, Integer, ComplexModel
from spyne.protocol.soap import Soap11
from spyne.interface.wsdl import Wsdl11
from lxml import etree
class Helper(object):
    def describe(self): return 'x'
class Last(ComplexModel, Helper):
    __namespace__='tns'
    i = Integer
class First(Helper, ComplexModel):
    __namespace__='tns'
    j = Integer
class S(ServiceBase):
    @rpc(Last, First, _returns=Integer)
    def f(ctx, a, b): return 1
app = Application([S], 'tns', in_protocol=Soap11(), out_protocol=Soap11())
w = Wsdl11(app.interface); w.build_interface_document('http://x/')
doc = etree.fromstring(w.get_interface_document())
names=[e.get('name') for e in doc.iter('{http://www.w3.org/2001/XMLSchema}complexType')]
print(names)
bad=[n for n in ('Last','First') if n not in names]
print('missing:', bad); sys.exit(1 if bad else 0)
