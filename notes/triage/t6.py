from common import call
import msgpack
from spyne import Application, rpc, Service, Unicode, Integer, ComplexModel
from spyne.protocol.msgpack import MessagePackRpc, MessagePackDocument
from spyne.protocol.json import JsonDocument
class P(ComplexModel):
    a = Integer; b = Unicode
class S(Service):
    @rpc(Integer, _returns=P, _body_style='out_bare')
    def f(ctx, i): return P(a=i, b='x')
    @rpc(Integer, _returns=Unicode, _body_style='out_bare')
    def g(ctx, i): return 'v%d' % i
def mk(i,o): return Application([S], 'tns', in_protocol=i, out_protocol=o)
for m in ('f','g'):
    r = call(mk(MessagePackRpc(), MessagePackRpc()), msgpack.packb([0, 0, m, [5]]), ctype='application/x-msgpack')
    print("msgpackrpc", m, r.get('exc') or (r['calls'][0][0], [msgpack.unpackb(b) for b in r['body']]))
    r = call(mk(JsonDocument(), JsonDocument()), ('{"%s": {"i": 5}}' % m).encode(), ctype='application/json')
    print("json", m, r.get('exc') or (r['calls'][0][0], r['body']))
