import json
from io import BytesIO
from spyne import Application, rpc, ServiceBase, Unicode, Array
from spyne.protocol.xml import XmlDocument
from spyne.protocol.json import JsonDocument
from spyne.server.wsgi import WsgiApplication
got=[]
class S(ServiceBase):
    @rpc(Array(Unicode(max_occurs=2)), _returns=Unicode)
    def m(ctx, names): got.append(names); return 'ok'
def call(w, body, ctype):
    env={'REQUEST_METHOD':'POST','PATH_INFO':'/','QUERY_STRING':'','SERVER_NAME':'x','SERVER_PORT':'80','wsgi.input':BytesIO(body),'CONTENT_LENGTH':str(len(body)),'wsgi.url_scheme':'http','CONTENT_TYPE':ctype}
    st=[]
    out=b''.join(w(env, lambda s,h,e=None: st.append(s))); return st[0]
for val in ('soft','lxml'):
    w=WsgiApplication(Application([S],'tns',in_protocol=XmlDocument(validator=val),out_protocol=XmlDocument()))
    print('xml',val,call(w,b'<m xmlns="tns"><names><string>a</string><string>b</string><string>c</string></names></m>','text/xml'))
w=WsgiApplication(Application([S],'tns',in_protocol=JsonDocument(validator='soft'),out_protocol=JsonDocument()))
print('json soft',call(w,json.dumps({'m':{'names':['a','b','c']}}).encode(),'application/json'))
