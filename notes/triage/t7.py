from common import call
from spyne import Application, rpc, Service, Unicode
from spyne.protocol.xml import XmlDocument
class S(Service):
    @rpc(Unicode, _returns=Unicode, _body_style='out_bare')
    def echo(ctx, s): return s
app = Application([S], 'tns', in_protocol=XmlDocument(), out_protocol=XmlDocument())
trace=[]
for ev in ['method_context_created','method_call','method_return_object','method_exception_object','method_return_document','method_exception_document','method_return_string','method_exception_string','method_context_closed']:
    app.event_manager.add_listener(ev, (lambda e: (lambda ctx: trace.append(e)))(ev))
r = call(app, b'<echo xmlns="tns"><s>hi</s></echo>')
print(r['calls'][0][0], trace)
