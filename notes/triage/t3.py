from common import call
from spyne import Application, rpc, Service, Unicode, Integer, ComplexModel, Array, AnyXml, Date, DateTime, Time, ByteArray, Uuid, Decimal, Double, Boolean
from spyne.protocol.xml import XmlDocument
from spyne.protocol.soap import Soap11
from spyne.protocol.json import JsonDocument
from spyne.protocol.http import HttpRpc
from lxml import etree
got = []
class S(Service):
    @rpc(AnyXml, DateTime, Time, ByteArray, Uuid, Decimal, Double, Integer, _returns=Unicode)
    def f(ctx, x, dt, t, b, u, dec, dbl, i):
        got.append((x, dt, t, b, u, dec, dbl, i)); return 'ok'
def mk(inp, outp): return Application([S], 'tns', in_protocol=inp, out_protocol=outp)
xxe = '<!DOCTYPE a [<!ENTITY e SYSTEM "file:///tmp/triage/canary.txt">]><a>&e;</a>'
import json
r = call(mk(JsonDocument(), JsonDocument()), json.dumps({"f": {"x": xxe}}).encode(), ctype='application/json')
print("json anyxml xxe:", r.get('exc') or r['calls'][0][0], [etree.tostring(g[0]) if g[0] is not None else None for g in got[-1:]])
got.clear()
def x(name, val, prot=XmlDocument):
    r = call(mk(prot(), prot()), ('<f xmlns="tns"><%s>%s</%s></f>' % (name, val, name)).encode())
    print(name, val, '->', r.get('exc') or r['calls'][0][0], got[-1:] and 'CALLED' or '')
    got.clear()
x('dt', '2020-13-01T00:00:00'); x('dt', '2020-01-01T25:00:00'); x('dt','2020-01-01T00:00:00+99:00'); x('dt', 'garbage')
x('t', '25:00:00'); x('t', 'xx')
x('b', '!!!!'); x('b', 'abc')
x('u', 'zzz'); x('dec', 'abc'); x('dbl', 'abc'); x('i', 'abc'); x('i', '')
for v in ['[1]', '{"a":1}', '"x"', '1.5', 'true', 'null']:
    for k in ['dt','i','b','u','dec','x']:
        r = call(mk(JsonDocument(validator='soft'), JsonDocument()), ('{"f": {"%s": %s}}' % (k, v)).encode(), ctype='application/json')
        res = r.get('exc') or r['calls'][0][0]
        if 'exc' in r or res.startswith('5'): print("json soft", k, v, '->', res)
        got.clear()
