import sys, msgpack, traceback
from io import BytesIO
from spyne import Application, rpc, ServiceBase, Integer, Unicode, ComplexModel, Duration
from spyne.protocol.msgpack import MessagePackRpc
from spyne.protocol.xml import XmlDocument
from spyne.protocol.soap import Soap11
from spyne.server.wsgi import WsgiApplication
class C(ComplexModel):
    __namespace__='tns'
    d = Duration
    s = Unicode
class S(ServiceBase):
    @rpc(C, _returns=Unicode)
    def m(ctx, c): return 'ok'
def call(w, body, ctype):
    env={'REQUEST_METHOD':'POST','PATH_INFO':'/','QUERY_STRING':'','SERVER_NAME':'x','SERVER_PORT':'80','wsgi.input':BytesIO(body),'CONTENT_LENGTH':str(len(body)),'wsgi.url_scheme':'http','CONTENT_TYPE':ctype}
    st=[]
    try:
        out=b''.join(w(env, lambda s,h,e=None: st.append(s)))
        return st, out[:150]
    except BaseException as e:
        return 'ESCAPED', type(e).__name__, str(e)[:100]
app = Application([S], 'tns', in_protocol=MessagePackRpc(), out_protocol=MessagePackRpc())
w = WsgiApplication(app)
for req in ([[1,2],0,'m',[]], [(),0,'m',[]], [0,0,'m',None]):
    print('mprpc', req, call(w, msgpack.packb(req), 'application/x-msgpack'))
for val in ('soft', 'lxml', None):
    app = Application([S], 'tns', in_protocol=XmlDocument(validator=val), out_protocol=XmlDocument())
    w = WsgiApplication(app)
    for d in ('PT1x5S', '-P999999999DT1S', 'P'+'9'*5000+'D'):
        body=('<m xmlns="tns"><c><d>%s</d></c></m>' % d).encode()
        print('xml', val, d[:20], call(w, body, 'text/xml'))
    body=b'<!DOCTYPE m SYSTEM "x.dtd"><m xmlns="tns"><c><s>&foo;</s></c></m>'
    print('xml', val, 'extdtd', call(w, body, 'text/xml'))
    body=b'<m xmlns="tns"><c><s>&lt;/string&gt;&lt;a&gt;</s><zz/></c></m>'
    print('xml', val, 'tagtext', call(w, body, 'text/xml'))
