import logging; logging.disable(logging.CRITICAL)
import warnings; warnings.simplefilter('ignore')
import threading
from spyne import Application, rpc, Service, Unicode, ComplexModel
from spyne.protocol.xml import XmlDocument
class A(ComplexModel):
    __namespace__='ns.a'; x=Unicode
class B(ComplexModel):
    __namespace__='ns.b'; x=Unicode
class S(Service):
    @rpc(A, B, _returns=Unicode)
    def f(ctx, a, b): return ''
app = Application([S], 'tns', in_protocol=XmlDocument(), out_protocol=XmlDocument(polymorphic=True))
itf = app.interface
print("prefmap before:", {k:v for k,v in itf.prefmap.items() if k.startswith('ns.')})
# schedule control only: make both threads finish the `pref in self.nsmap` test before either writes
bar = threading.Barrier(2, timeout=5)
class SyncDict(dict):
    def __contains__(self, k):
        r = dict.__contains__(self, k)
        if k == 's0':
            try: bar.wait()
            except threading.BrokenBarrierError: pass
        return r
itf.nsmap = SyncDict(itf.nsmap)
res={}
def w(ns): res[ns]=itf.get_namespace_prefix(ns)
t1=threading.Thread(target=w, args=('ns.a',)); t2=threading.Thread(target=w, args=('ns.b',))
t1.start(); t2.start(); t1.join(); t2.join()
print("allocated:", res, " nsmap['s0'] =", itf.nsmap.get('s0'))
