import logging; logging.disable(logging.CRITICAL)
import warnings; warnings.simplefilter('ignore')
import hashlib
from spyne import Application, rpc, Service, Unicode, ComplexModel
from spyne.protocol.soap import Soap11
from spyne.server.wsgi import WsgiApplication
class A(ComplexModel):
    __namespace__ = 'ns.a'; x = Unicode
class B(ComplexModel):
    __namespace__ = 'ns.b'; x = Unicode
class C(ComplexModel):
    __namespace__ = 'ns.c'; x = Unicode
class D(ComplexModel):
    __namespace__ = 'ns.d'; x = Unicode
class S(Service):
    @rpc(A, B, C, D, _returns=Unicode)
    def f(ctx, a, b, c, d): return ''
app = Application([S], 'tns', in_protocol=Soap11(), out_protocol=Soap11())
w = WsgiApplication(app)
w.doc.wsdl11.build_interface_document('http://x/')
doc = w.doc.wsdl11.get_interface_document()
print(hashlib.md5(doc).hexdigest())
