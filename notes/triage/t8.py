from common import call
from spyne import Application, rpc, Service, Unicode
from spyne.protocol.soap import Soap11
got=[]
class S(Service):
    @rpc(Unicode, _returns=Unicode)
    def echo(ctx, s):
        got.append(s); return s
app = Application([S], 'tns', in_protocol=Soap11(), out_protocol=Soap11())
env_xml = ('<!DOCTYPE e [<!ENTITY ent "EXPANDED-ENTITY-TEXT">]>'
 '<e:Envelope xmlns:e="http://schemas.xmlsoap.org/soap/envelope/"><e:Body><echo xmlns="tns"><s>&ent;</s></echo></e:Body></e:Envelope>')
# plain request: safe parser
r = call(app, env_xml.encode(), ctype='text/xml; charset=utf-8')
print("plain:", r.get('exc') or r['calls'][0][0], got); got.clear()
# multipart/related with one attachment (forces _join_attachment)
b='BOUND'
body=('--%s\r\nContent-Type: text/xml; charset=utf-8\r\nContent-ID: <root>\r\n\r\n%s\r\n'
      '--%s\r\nContent-Type: application/octet-stream\r\nContent-Transfer-Encoding: base64\r\nContent-ID: <att1>\r\n\r\nQUJD\r\n--%s--\r\n') % (b, env_xml, b, b)
r = call(app, body.encode(), ctype='multipart/related; boundary=%s; start="<root>"; charset=utf-8' % b)
print("multipart:", r.get('exc') or r['calls'][0][0], got, (r.get('body') or [b''])[0][:300])
