import msgpack, sys
from spyne import Application, rpc, ServiceBase, Integer
from spyne.protocol.msgpack import MessagePackRpc
from spyne.server.wsgi import WsgiApplication
from io import BytesIO
class S(ServiceBase):
    @rpc(Integer, _returns=Integer)
    def f(ctx, i): return i
app = Application([S], 'tns', in_protocol=MessagePackRpc(), out_protocol=MessagePackRpc())
w = WsgiApplication(app)
bad=0
for req in ([1,0,'f',[1]], [2,0,'f',[1]], [0,0,'f',[1]], [1,0,'f']):
    env={'REQUEST_METHOD':'POST','PATH_INFO':'/','QUERY_STRING':'','SERVER_NAME':'x','SERVER_PORT':'80','wsgi.input':BytesIO(msgpack.packb(req)),'CONTENT_LENGTH':str(len(msgpack.packb(req))),'wsgi.url_scheme':'http','CONTENT_TYPE':'application/x-msgpack'}
    st=[]
    try:
        body=b''.join(w(env, lambda s,h,e=None: st.append(s)))
        print(req, st, msgpack.unpackb(body))
    except BaseException as e:
        print(req, 'ESCAPED', type(e).__name__, e); bad=1
sys.exit(bad)
