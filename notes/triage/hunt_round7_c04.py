import json, msgpack, sys
from io import BytesIO
from decimal import Decimal
from spyne import Application, rpc, ServiceBase, Unicode, Integer, ComplexModel, Array, ByteArray, Date, DateTime
from spyne.model.complex import XmlAttribute
from spyne.protocol.json import JsonDocument
from spyne.protocol.msgpack import MessagePackDocument
from spyne.protocol.xml import XmlDocument
from spyne.server.wsgi import WsgiApplication
got=[]
class Item(ComplexModel):
    __namespace__='tns'
    code = XmlAttribute(Unicode)
    n = Integer
class S(ServiceBase):
    @rpc(Item, _returns=Unicode)
    def a(ctx, item): got.append(('a', item.code)); return 'ok'
    @rpc(ByteArray, _returns=Unicode)
    def b(ctx, data): got.append(('b', data)); return 'ok'
    @rpc(Array(Decimal), Array(DateTime), Array(Integer), Array(Date), _returns=Unicode)
    def c(ctx, decs, dts, ints, dates): got.append(('c', decs, dts)); return 'ok'
    @rpc(Date, _returns=Unicode)
    def d(ctx, when): got.append(('d', when)); return 'ok'
def call(w, body, ctype):
    env={'REQUEST_METHOD':'POST','PATH_INFO':'/','QUERY_STRING':'','SERVER_NAME':'x','SERVER_PORT':'80','wsgi.input':BytesIO(body),'CONTENT_LENGTH':str(len(body)),'wsgi.url_scheme':'http','CONTENT_TYPE':ctype}
    st=[]
    try:
        out=b''.join(w(env, lambda s,h,e=None: st.append(s))); return st[0], out[:120]
    except BaseException as e:
        return 'ESCAPED', type(e).__name__, str(e)[:80]
w=WsgiApplication(Application([S],'tns',in_protocol=JsonDocument(validator='soft'),out_protocol=JsonDocument()))
print('1 json attr int  ', call(w, json.dumps({'a': {'item': {'code': 5, 'n': 1}}}).encode(), 'application/json'), got); got.clear()
print('1 json attr list ', call(w, json.dumps({'a': {'item': {'code': [1,2], 'n': 1}}}).encode(), 'application/json'), got); got.clear()
print('4 json date 100% ', call(w, json.dumps({'d': {'when': '100%'}}).encode(), 'application/json'), got); got.clear()
print('4 json date %s   ', call(w, json.dumps({'d': {'when': '%s%s'}}).encode(), 'application/json'), got); got.clear()
w=WsgiApplication(Application([S],'tns',in_protocol=MessagePackDocument(validator='soft'),out_protocol=MessagePackDocument()))
print('2 msgpack str in ByteArray', call(w, msgpack.packb({'b': {'data': 'abc'}}), 'application/x-msgpack'), got); got.clear()
w=WsgiApplication(Application([S],'tns',in_protocol=XmlDocument(validator='soft'),out_protocol=XmlDocument()))
body=b'<t:c xmlns:t="tns" xmlns:xsi="http://www.w3.org/2001/XMLSchema-instance"><t:decs xsi:type="t:integerArray"><t:integer>1</t:integer></t:decs><t:dts xsi:type="t:dateArray"><t:date>2020-01-02</t:date></t:dts></t:c>'
print('3 xml retag arrays', call(w, body, 'text/xml'), got); got.clear()
