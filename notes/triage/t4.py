import logging; logging.disable(logging.CRITICAL)
import warnings; warnings.simplefilter('ignore')
from spyne.protocol import ProtocolBase
from spyne import AnyXml
from lxml import etree
xxe = '<!DOCTYPE a [<!ENTITY e SYSTEM "file:///tmp/triage/canary.txt">]><a>&e;</a>'
try:
    r = ProtocolBase().from_unicode(AnyXml, xxe); print(etree.tostring(r))
except Exception as e: print(repr(e))
print(etree.tostring(etree.fromstring(xxe)))
print(etree.LXML_VERSION, etree.LIBXML_VERSION)
