import msgpack, json
from io import BytesIO
from spyne import Application, rpc, ServiceBase, Unicode, Integer, ComplexModel
from spyne.protocol.msgpack import MessagePackDocument
from spyne.protocol.json import JsonDocument
from spyne.server.wsgi import WsgiApplication
from spyne.server.null import NullServer
got=[]
class S(ServiceBase):
    @rpc(Unicode(max_len=3), Integer(default_factory=lambda: 5), _returns=Unicode)
    def m(ctx, s, n): got.append((s, n)); return 'ok'
def call(w, body, ctype):
    env={'REQUEST_METHOD':'POST','PATH_INFO':'/','QUERY_STRING':'','SERVER_NAME':'x','SERVER_PORT':'80','wsgi.input':BytesIO(body),'CONTENT_LENGTH':str(len(body)),'wsgi.url_scheme':'http','CONTENT_TYPE':ctype}
    st=[]
    out=b''.join(w(env, lambda s,h,e=None: st.append(s))); return st[0]
w=WsgiApplication(Application([S],'tns',in_protocol=MessagePackDocument(validator='soft'),out_protocol=MessagePackDocument()))
print('msgpack str  ', call(w, msgpack.packb({'m': {'s': 'abcdef'}}), 'application/x-msgpack'), got); got.clear()
print('msgpack bin  ', call(w, msgpack.packb({'m': {'s': b'abcdef'}}), 'application/x-msgpack'), got); got.clear()
w=WsgiApplication(Application([S],'tns',in_protocol=JsonDocument(validator='soft'),out_protocol=JsonDocument()))
print('json omitted n', call(w, json.dumps({'m': {'s': 'ab'}}).encode(), 'application/json'), got); got.clear()
app=Application([S],'tns',in_protocol=JsonDocument(),out_protocol=JsonDocument())
ns=NullServer(app, ostr=False)
ns.service.m('ab'); print('null omitted n', got)
