import logging; logging.disable(logging.CRITICAL)
from spyne import Application, rpc, Service, Unicode, Integer, ComplexModel, Array, Mandatory, Duration, Decimal, DateTime, Boolean, UnsignedByte, Int, Byte
from spyne.protocol.xml import XmlDocument
from spyne.protocol.soap import Soap11
from spyne.protocol.json import JsonDocument
from spyne.protocol.http import HttpRpc
from spyne.server.wsgi import WsgiApplication
from spyne.server.null import NullServer
from spyne.protocol import ProtocolBase
from io import BytesIO
import datetime, decimal

def call(app, body, method='POST', ctype='text/xml', chunked=True, qs='', path='/'):
    w = WsgiApplication(app, chunked=chunked)
    out = {}
    def sr(status, headers, exc_info=None):
        out.setdefault('calls', []).append((status, headers))
    env = {'REQUEST_METHOD': method, 'PATH_INFO': path, 'QUERY_STRING': qs, 'CONTENT_TYPE': ctype,
           'CONTENT_LENGTH': str(len(body)), 'wsgi.input': BytesIO(body), 'SERVER_NAME':'x','SERVER_PORT':'80','wsgi.url_scheme':'http'}
    try:
        ret = w(env, sr)
        chunks = list(ret)
        out['body'] = chunks
    except Exception as e:
        out['exc'] = repr(e)
    return out

class S(Service):
    @rpc(Unicode, _returns=Unicode, _body_style='out_bare')
    def echo(ctx, s):
        return s
    @rpc(Unicode, _returns=Unicode)
    def echo2(ctx, s):
        return s

# 1. XmlDocument out_bare
app = Application([S], 'tns', in_protocol=XmlDocument(), out_protocol=XmlDocument())
print("XML out_bare:", call(app, b'<echo xmlns="tns"><s>hi</s></echo>'))
# 2. chunked False
app = Application([S], 'tns', in_protocol=XmlDocument(), out_protocol=XmlDocument())
print("chunked False:", call(app, b'<echo2 xmlns="tns"><s>hi</s></echo2>', chunked=False))
# 3. wsdl 404 body type
from spyne.interface import InterfaceDocumentsBase
print("duration:", ProtocolBase().to_unicode(Duration, datetime.timedelta(microseconds=5)))
try:
    print(ProtocolBase().from_unicode(Duration, 'garbage'))
except Exception as e: print("duration garbage:", repr(e))
print("decimal:", ProtocolBase().to_unicode(Decimal, decimal.Decimal('2.8E+10')))
print("dt:", ProtocolBase().from_unicode(DateTime, '2020-01-01T00:00:00-04:49'))
print("UnsignedByte 255:", UnsignedByte.validate_native(UnsignedByte, 255))
print("Byte -128 str:", Byte.validate_string(Byte, '-128'), Byte.Attributes.max_str_len)
try: print(ProtocolBase().from_unicode(Int, '-2147483648'))
except Exception as e: print("Int min:", repr(e))
A = Array(Unicode)
(k,v), = A._type_info.items(); print("before", v.Attributes.min_occurs)
M = Mandatory(A)
(k,v), = A._type_info.items(); print("after", v.Attributes.min_occurs)
print("bool garbage:", ProtocolBase().from_unicode(Boolean, 'maybe'))
