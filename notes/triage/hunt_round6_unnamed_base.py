import sys
from spyne import Application, rpc, ServiceBase, Unicode
from spyne.protocol.soap import Soap11
from spyne.interface.wsdl import Wsdl11
from lxml import etree
Named = Unicode(max_len=10)(max_len=5, type_name='Named')
class S(ServiceBase):
    @rpc(Named, _returns=Unicode)
    def f(ctx, a): return a
app = Application([S], 'tns', in_protocol=Soap11(), out_protocol=Soap11())
w = Wsdl11(app.interface); w.build_interface_document('http://x/')
txt = w.get_interface_document().decode()
i = txt.find('name="Named"'); print(txt[i-40:i+260])
sys.exit(1 if 'Empty' in txt else 0)
