from common import call
from spyne import Application, rpc, Service, Unicode, Integer, ComplexModel, Array, AnyXml, Date, XmlAttribute
from spyne.protocol.xml import XmlDocument
from spyne.protocol.soap import Soap11
from spyne.protocol.json import JsonDocument
from spyne.protocol.yaml import YamlDocument
from spyne.protocol.http import HttpRpc
got = []
class Other(ComplexModel):
    __namespace__ = 'tns'
    x = Unicode
class C(ComplexModel):
    __namespace__ = 'tns'
    a = XmlAttribute(Integer(le=5))
    i = Integer(max_occurs=2)
class S(Service):
    @rpc(Integer, Date, C, AnyXml, Other, _returns=Unicode)
    def f(ctx, i, d, c, x, o):
        got.append((i, d, c, x, o)); return 'ok'
def mk(inp, outp): return Application([S], 'tns', in_protocol=inp, out_protocol=outp)
open('/tmp/triage/canary.txt','w').write('CANARY-SECRET')
# xsi:type retag
r = call(mk(XmlDocument(validator='soft'), XmlDocument()), b'<f xmlns="tns" xmlns:xsi="http://www.w3.org/2001/XMLSchema-instance" xmlns:xs="http://www.w3.org/2001/XMLSchema"><i xsi:type="Other"><x>boo</x></i></f>')
print("retag:", r.get('calls',[['?']])[0][0], got[-1:] )
got.clear()
r = call(mk(XmlDocument(validator='soft'), XmlDocument()), b'<f xmlns="tns" xmlns:xsi="http://www.w3.org/2001/XMLSchema-instance"><i xsi:nil="false">5</i></f>')
print("nil=false:", got[-1:][0][0] if got else r)
got.clear()
r = call(mk(XmlDocument(validator='soft'), XmlDocument()), b'<f xmlns="tns"><c a="99"><i>1</i></c></f>')
print("attr le=5 a=99 soft:", (got[-1][2].a if got else r))
got.clear()
r = call(mk(JsonDocument(validator='soft'), JsonDocument()), b'{"f": {"c": {"i": [1,2,3]}}}', ctype='application/json')
print("json max_occurs=2 with 3:", (got[-1][2].i if got else r['calls'][0][0]))
got.clear()
# yaml scanner error
r = call(mk(YamlDocument(), YamlDocument()), b'f: {i: [1, 2', ctype='text/yaml')
print("yaml bad:", r.get('exc') or r['calls'][0][0])
r = call(mk(YamlDocument(), YamlDocument()), b'f: "\x00', ctype='text/yaml')
print("yaml bad2:", r.get('exc') or r['calls'][0][0])
r = call(mk(YamlDocument(), YamlDocument()), b'\xff\xfe\xff', ctype='text/yaml')
print("yaml bad3:", r.get('exc') or r['calls'][0][0])
# soap empty body
r = call(mk(Soap11(), Soap11()), b'<e:Envelope xmlns:e="http://schemas.xmlsoap.org/soap/envelope/"><e:Body/></e:Envelope>')
print("soap empty body:", r.get('exc') or r['calls'][0][0])
r = call(mk(Soap11(), Soap11()), b'')
print("soap empty string:", r.get('exc') or r['calls'][0][0])
# month 13
r = call(mk(XmlDocument(), XmlDocument()), b'<f xmlns="tns"><d>2020-13-01</d></f>')
print("month13:", r.get('exc') or r['calls'][0][0])
# AnyXml via HttpRpc: XXE
xxe = '<!DOCTYPE a [<!ENTITY e SYSTEM "file:///tmp/triage/canary.txt">]><a>&e;</a>'
from urllib.parse import quote
r = call(mk(HttpRpc(), JsonDocument()), b'', method='GET', path='/f', qs='x='+quote(xxe))
from lxml import etree
print("httprpc anyxml xxe:", r.get('exc') or r['calls'][0][0], [etree.tostring(g[3]) for g in got[-1:]])
got.clear()
# wsdl 404 & bytes
from spyne.interface import InterfaceDocumentsBase
class NoWsdl(InterfaceDocumentsBase):
    def __init__(self, interface): super().__init__(interface, wsdl11=None)
app = Application([S], 'tns', in_protocol=XmlDocument(), out_protocol=XmlDocument(), documents_container=NoWsdl)
r = call(app, b'', method='GET', qs='wsdl')
print("wsdl 404:", r)
