import logging; logging.disable(logging.CRITICAL)
import warnings; warnings.simplefilter('ignore')
from io import BytesIO
from spyne.server.wsgi import WsgiApplication
def call(app, body, method='POST', ctype='text/xml', chunked=True, qs='', path='/'):
    w = WsgiApplication(app, chunked=chunked)
    out = {}
    def sr(status, headers, exc_info=None):
        out.setdefault('calls', []).append((status, headers))
    env = {'REQUEST_METHOD': method, 'PATH_INFO': path, 'QUERY_STRING': qs, 'CONTENT_TYPE': ctype,
           'CONTENT_LENGTH': str(len(body)), 'wsgi.input': BytesIO(body), 'SERVER_NAME':'x','SERVER_PORT':'80','wsgi.url_scheme':'http'}
    try:
        ret = w(env, sr)
        out['body'] = list(ret)
    except Exception as e:
        out['exc'] = repr(e)
    return out
