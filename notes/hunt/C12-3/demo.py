"""C12 / 3 -- the first ?wsdl fetch racing with an RPC call whose response
carries an xsi:type: both callers get bytes that NO sequential processing
order produces.

Namespace prefixes (s0, s1, ...) are not fixed at start-up: they are handed
out by Interface.get_namespace_prefix() on first use -- by the WSDL/schema
builder (Wsdl11.build_interface_document -> XmlSchema.build_schema_nodes) and
by the XML serializer of a polymorphic response (XmlDocument.gen_members_parent
-> cls.get_type_name_ns()).  The allocation itself is locked, but the ORDER of
allocations is decided by the interleaving, so when an RPC response is
serialized in the middle of the WSDL build, the numbering -- and with it the
bytes of the WSDL kept forever in WsgiApplication._wsdl, and of the RPC
response -- differs from both "WSDL first" and "RPC first".

The schedule is forced at line granularity with sys.settrace: the ?wsdl request
is held inside build_schema_nodes() between two add(cls) calls, after 'ns.base'
got its prefix and before 'ns.sub' got one; the RPC is
processed completely by another thread, then the build goes on.
"""

import sys, threading, logging, linecache, difflib
from io import BytesIO

logging.disable(logging.CRITICAL)

import spyne
from spyne import Application, rpc, ServiceBase, Integer, Unicode, ComplexModel
from spyne.protocol.soap import Soap11
from spyne.server.wsgi import WsgiApplication

print("spyne from", spyne.__file__)


def build():
    class Base(ComplexModel):
        __namespace__ = 'ns.base'
        i = Integer

    class Sub(Base):
        __namespace__ = 'ns.sub'
        s = Unicode

    class Other(ComplexModel):
        __namespace__ = 'ns.other'
        o = Integer

    class Svc(ServiceBase):
        @rpc(Integer, _returns=Base)
        def poly(ctx, n):
            return Sub(i=n, s=u'x')

        @rpc(Sub, Other, _returns=Integer)   # Sub and Other are published
        def reg(ctx, a, b):
            return 1

    app = Application([Svc], 'tns', in_protocol=Soap11(validator='soft'),
                                       out_protocol=Soap11(polymorphic=True))
    return WsgiApplication(app)


POLY = (b'<e:Envelope xmlns:e="http://schemas.xmlsoap.org/soap/envelope/" '
        b'xmlns:t="tns"><e:Body><t:poly><t:n>5</t:n></t:poly></e:Body>'
        b'</e:Envelope>')


def call(wsgi, body):
    if body == 'WSDL':
        env = {'REQUEST_METHOD': 'GET', 'QUERY_STRING': 'wsdl'}
        body = b''
    else:
        env = {'REQUEST_METHOD': 'POST', 'QUERY_STRING': '',
               'CONTENT_TYPE': 'text/xml; charset=utf-8',
               'CONTENT_LENGTH': str(len(body))}
    env.update({'PATH_INFO': '/', 'SERVER_NAME': 'localhost',
                'SERVER_PORT': '80', 'wsgi.url_scheme': 'http',
                'wsgi.input': BytesIO(body)})
    status = []
    ret = wsgi(env, lambda s, h, e=None: status.append(s))
    out = b''.join(ret)
    if hasattr(ret, 'close'):
        ret.close()
    return status[0], out


def forced(wsgi):
    held, go = threading.Event(), threading.Event()
    res = {}
    hits = [0]

    def tracer(frame, event, arg):
        co = frame.f_code
        if co.co_name == 'build_schema_nodes' and \
                     co.co_filename.endswith('interface/xml_schema/_base.py'):
            def local(frame, event, arg):
                if event == 'line' and not held.is_set():
                    src = linecache.getline(co.co_filename, frame.f_lineno)
                    if 'self.add(cls, tags)' in src:
                        prefmap = frame.f_locals['self'].interface.prefmap
                        # some, but not all, prefixes were handed out
                        if 'ns.base' in prefmap and not 'ns.sub' in prefmap:
                            hits[0] += 1
                            held.set()
                            go.wait(10)
                return local
            return local
        return None

    def t_wsdl():
        sys.settrace(tracer)
        try:
            res['wsdl'] = call(wsgi, 'WSDL')
        finally:
            sys.settrace(None)
            held.set()

    def t_rpc():
        held.wait(10)
        res['rpc'] = call(wsgi, POLY)
        go.set()

    ts = [threading.Thread(target=t_wsdl), threading.Thread(target=t_rpc)]
    [t.start() for t in ts]
    [t.join(30) for t in ts]
    return res['wsdl'], res['rpc']


# the two sequential histories of {?wsdl, poly}
w = build(); wsdl_first = (call(w, 'WSDL'), call(w, POLY))
w = build(); r = call(w, POLY); rpc_first = (call(w, 'WSDL'), r)
# and a sequential build is reproducible:
w = build(); assert call(w, 'WSDL') == wsdl_first[0]

got_wsdl, got_rpc = forced(build())


def tail(b):
    return b[b.index(b'<soap11env:Body>'):].decode()

print("\npoly, ?wsdl processed first :", tail(wsdl_first[1][1]))
print("poly, poly processed first  :", tail(rpc_first[1][1]))
print("poly, raced                 :", tail(got_rpc[1]))

seq_wsdls = [wsdl_first[0], rpc_first[0]]
seq_rpcs = [wsdl_first[1], rpc_first[1]]

bad = 0
if got_wsdl not in seq_wsdls:
    bad += 1
    print("\nVIOLATION: the raced WSDL (%d bytes, status %s) equals neither "
          "sequential build; differences to the 'wsdl first' one:"
                                          % (len(got_wsdl[1]), got_wsdl[0]))
    a = wsdl_first[0][1].decode().replace('><', '>\n<').splitlines()
    b = got_wsdl[1].decode().replace('><', '>\n<').splitlines()
    for l in list(difflib.unified_diff(a, b, 'sequential', 'raced',
                                                    lineterm='', n=0))[:14]:
        print("   ", l[:150])

if got_rpc not in seq_rpcs:
    bad += 1
    print("\nVIOLATION: the raced poly response equals neither sequential "
          "response")

if bad:
    print("\nFAIL: %d caller(s) got bytes no sequential order produces" % bad)
    sys.exit(1)

print("\nOK: both callers got what some sequential order produces")
