"""C18 / 4: a bare method whose single argument is an Array.  Over the wire the
function receives a plain python list; through NullServer it receives an
``Array`` *instance* that wraps a doubly nested list, so the result differs."""
import json
import logging
import sys
from io import BytesIO

logging.disable(logging.CRITICAL)

import spyne
print("spyne from", spyne.__file__)

from lxml import etree
from spyne import Application, Service, srpc, Integer, Unicode, Array
from spyne.protocol.xml import XmlDocument
from spyne.protocol.soap import Soap11
from spyne.protocol.json import JsonDocument
from spyne.server.null import NullServer
from spyne.server.wsgi import WsgiApplication

received = []


class S(Service):
    @srpc(Array(Integer), _returns=Integer, _body_style='bare')
    def total(numbers):
        received.append(numbers)
        return sum(numbers)

    # control: the same signature in the default wrapped style
    @srpc(Array(Integer), _returns=Integer)
    def total_wrapped(numbers):
        received.append(numbers)
        return sum(numbers)


def wsgi_call(app, body, ctype):
    env = {'REQUEST_METHOD': 'POST', 'PATH_INFO': '/', 'QUERY_STRING': '',
           'SERVER_NAME': 'localhost', 'SERVER_PORT': '80',
           'wsgi.url_scheme': 'http', 'CONTENT_TYPE': ctype,
           'CONTENT_LENGTH': str(len(body)), 'wsgi.input': BytesIO(body)}
    st = {}

    def start_response(status, headers, exc_info=None):
        st['status'] = status

    ret = b''.join(WsgiApplication(app)(env, start_response))
    assert st['status'].startswith('200'), (st, ret)
    return ret


def xml_int(doc):
    return int(''.join(etree.fromstring(doc).itertext()))


def json_int(doc):
    v = json.loads(doc)
    while isinstance(v, dict):
        v, = v.values()
    return v


ITEMS = '<integer>1</integer><integer>2</integer><integer>3</integer>'
SOAP = '<e:Envelope xmlns:e="http://schemas.xmlsoap.org/soap/envelope/">' \
       '<e:Body>%s</e:Body></e:Envelope>'
WIRE = [
    (XmlDocument, 'text/xml', xml_int, {
        'total': '<total xmlns="tns">%s</total>' % ITEMS,
        'total_wrapped': '<total_wrapped xmlns="tns"><numbers>%s</numbers>'
                                                   '</total_wrapped>' % ITEMS}),
    (Soap11, 'text/xml', xml_int, {
        'total': SOAP % ('<total xmlns="tns">%s</total>' % ITEMS),
        'total_wrapped': SOAP % ('<total_wrapped xmlns="tns"><numbers>%s'
                                       '</numbers></total_wrapped>' % ITEMS)}),
    (JsonDocument, 'application/json', json_int, {
        'total': '{"total": [1, 2, 3]}',
        'total_wrapped': '{"total_wrapped": {"numbers": [1, 2, 3]}}'}),
]

failures = 0
for prot, ctype, decode, bodies in WIRE:
    app = Application([S], 'tns', in_protocol=prot(), out_protocol=prot())
    null = NullServer(app)
    print("== %s" % prot.__name__)
    for method in ('total_wrapped', 'total'):
        del received[:]
        wire = decode(wsgi_call(app, bodies[method].encode(), ctype))
        wire_arg, = received
        print("  %s([1, 2, 3])" % method)
        print("     wire      : function received %r -> client decodes %r"
                                                            % (wire_arg, wire))
        del received[:]
        try:
            direct = null.service[method]([1, 2, 3])
        except Exception as e:
            direct = e
        null_arg, = received
        ok = direct == wire and null_arg == wire_arg
        print("     NullServer: function received %r%s -> returns %r %s" % (
            null_arg,
            "" if isinstance(null_arg, list) else
                " (a %s.%s instance with .integer=%r)" % (
                    type(null_arg).__module__, type(null_arg).__name__,
                                          getattr(null_arg, 'integer', None)),
            direct, "" if ok else "  <-- MISMATCH"))
        if not ok:
            failures += 1

print()
if failures:
    print("VIOLATION: %d NullServer calls of the bare Array method returned a "
          "different result than the wire call" % failures)
    sys.exit(1)

print("OK: NullServer and the wire agree")
