# --- shared driver (inlined into every demo) ---
import io, sys, logging, warnings
warnings.simplefilter('ignore')
logging.disable(logging.CRITICAL)
import spyne
print("spyne from:", spyne.__file__)

class CountingInput(object):
    def __init__(self, data):
        self._b = io.BytesIO(data)
        self.bytes_read = 0
    def read(self, n=-1):
        d = self._b.read(n)
        self.bytes_read += len(d)
        return d

def make_environ(method='POST', path='/', qs='', body=b'', content_length='auto',
                                                     content_type='text/xml; charset=utf-8'):
    inp = CountingInput(body)
    env = {
        'REQUEST_METHOD': method, 'PATH_INFO': path, 'QUERY_STRING': qs,
        'SCRIPT_NAME': '', 'SERVER_NAME': 'localhost', 'SERVER_PORT': '80',
        'SERVER_PROTOCOL': 'HTTP/1.1', 'CONTENT_TYPE': content_type,
        'wsgi.url_scheme': 'http', 'wsgi.version': (1, 0), 'wsgi.input': inp,
        'wsgi.errors': sys.stderr, 'wsgi.multithread': False,
        'wsgi.multiprocess': False, 'wsgi.run_once': False,
    }
    if content_length == 'auto':
        env['CONTENT_LENGTH'] = str(len(body))
    elif content_length is not None:
        env['CONTENT_LENGTH'] = content_length
    return env, inp

def drive(wsgi_app, env):
    """Plays the role of a WSGI server for one request and records what the
    application did."""
    events = []
    calls = []
    def start_response(status, headers, exc_info=None):
        calls.append((status, headers))
        events.append('start_response')
        return lambda data: None
    def on_closed(ctx):
        events.append('context_closed')
    wsgi_app.app.event_manager.add_listener('method_context_closed', on_closed)

    escaped = None
    chunks = []
    try:
        it = wsgi_app(env, start_response)
        try:
            for c in it:
                events.append('chunk')
                chunks.append(c)
        finally:
            if hasattr(it, 'close'):
                it.close()
    except BaseException as e:
        escaped = e
    finally:
        wsgi_app.app.event_manager.del_listener('method_context_closed', on_closed)

    print("    start_response calls :", calls)
    print("    body                 :", b''.join(c for c in chunks if isinstance(c, bytes))[:300])
    print("    exception escaped    :", repr(escaped))
    print("    event order          :", events)
    return dict(calls=calls, chunks=chunks, escaped=escaped, events=events)

def pep3333_problems(res):
    probs = []
    if res['escaped'] is not None:
        probs.append("the WSGI callable/iterator raised %r instead of answering" % (res['escaped'],))
    if len(res['calls']) != 1:
        probs.append("start_response was called %d times (expected exactly 1)" % len(res['calls']))
    if res['events'].count('context_closed') != 1:
        probs.append("request context closed %d times (expected exactly 1)"
                                                 % res['events'].count('context_closed'))
    if res['events'] and res['events'][0] != 'start_response':
        probs.append("first event is %r, not start_response" % res['events'][0])
    for c in res['chunks']:
        if not isinstance(c, bytes):
            probs.append("non-bytes body chunk %r" % (c,))
    for status, headers in res['calls']:
        for k, v in headers:
            if type(k) is not str or type(v) is not str:
                probs.append("non-str header %r: %r" % (k, v))
            if k.lower() == 'content-length' and int(v) != sum(len(c) for c in res['chunks']):
                probs.append("Content-Length %s != %d body bytes" % (v, sum(len(c) for c in res['chunks'])))
    return probs
# --- end of shared driver ---

# C13 violation 3: with Soap12(validator='lxml') every request that fails XML
# Schema validation makes the WSGI callable raise TypeError while it serialises
# the Client.SchemaValidationError fault (Soap12.schema_validation_error_to_parent
# hands the bytes faultstring to lxml's ElementMaker).  WsgiApplication.handle_error
# does not guard get_out_string(), so start_response is never called and the
# request context is never closed.  The same request against Soap11 is answered
# with a proper fault.

from spyne import Application, rpc, ServiceBase, Unicode, Integer
from spyne.protocol.soap import Soap11, Soap12
from spyne.server.wsgi import WsgiApplication

user_calls = []

class EchoService(ServiceBase):
    @rpc(Unicode, Integer, _returns=Unicode)
    def echo(ctx, s, n):
        user_calls.append((s, n))
        return s

NS = {Soap11: 'http://schemas.xmlsoap.org/soap/envelope/',
      Soap12: 'http://www.w3.org/2003/05/soap-envelope'}
CT = {Soap11: 'text/xml; charset=utf-8', Soap12: 'application/soap+xml; charset=utf-8'}

def envelope(prot, n):
    return ('<e:Envelope xmlns:e="%s" xmlns:tns="tns"><e:Body><tns:echo><tns:s>a</tns:s>'
            '<tns:n>%s</tns:n></tns:echo></e:Body></e:Envelope>' % (NS[prot], n)).encode()

failures = []
for prot in (Soap11, Soap12):
    wsgi_app = WsgiApplication(Application([EchoService], 'tns',
                            in_protocol=prot(validator='lxml'), out_protocol=prot()))

    for n, what in (('5', 'valid request (control)'),
                    ('five', 'xs:integer member holds "five": schema validation error')):
        del user_calls[:]
        print("\n== %s(validator='lxml'), %s ==" % (prot.__name__, what))
        env, inp = make_environ(body=envelope(prot, n), content_type=CT[prot])
        res = drive(wsgi_app, env)
        print("    user code calls      :", user_calls)
        p = pep3333_problems(res)
        body = b''.join(c for c in res['chunks'] if isinstance(c, bytes))
        if n == '5':
            if p or not res['calls'][0][0].startswith('200'):
                failures.append((prot.__name__, 'control', p))
            continue
        if not p and b'SchemaValidationError' not in body:
            p.append("no SchemaValidationError fault in the response body")
        if user_calls:
            p.append("user code was invoked")
        for x in p:
            print("    VIOLATION:", x)
        if p:
            failures.append((prot.__name__, what, p))

print()
if failures:
    print("FAIL: C13 violated (validation error: start_response exactly once, "
          "context closed exactly once):")
    for f in failures:
        print("  ", f)
    sys.exit(1)
print("OK")
