"""C16 / 4: spyne.util.xml.get_object_as_xml_polymorphic() -- the helper that
wraps XmlDocument(polymorphic=True) -- emits xsi:type values whose prefix is
not declared anywhere in the document.

It finishes with a plain etree.cleanup_namespaces(), which cannot see prefixes
that are only used inside attribute *values*. When the substituted instance has
no child element in its own namespace (all members None, or only XML
attributes set) the xmlns declaration of the marker's prefix is stripped:

    <tns:Holder xmlns:tns="ns.holder" xmlns:xsi="..."><tns:one xsi:type="s0:Mid"/></tns:Holder>

's0' is unbound, so the marker does not resolve and
get_xml_as_object_polymorphic() rejects the helper's own output. (The server
pipeline of XmlDocument uses _cleanup_namespaces(), which keeps such prefixes.)
"""
from __future__ import print_function

import sys
import logging
logging.basicConfig(level=logging.CRITICAL)

from lxml import etree

import spyne
assert spyne.__file__.startswith('/tmp/wth/C16/'), spyne.__file__

from spyne import ComplexModel, Integer, Unicode, Array, XmlAttribute
from spyne.util.xml import get_object_as_xml_polymorphic, \
    get_xml_as_object_polymorphic

NS_XSI = 'http://www.w3.org/2001/XMLSchema-instance'


class Base(ComplexModel):
    __namespace__ = 'ns.base'
    a = Integer
    tag = XmlAttribute(Unicode)


class Mid(Base):
    __namespace__ = 'ns.base'
    c = Integer


class Leaf(Mid):
    __namespace__ = 'ns.base'
    d = Unicode


class Holder(ComplexModel):
    __namespace__ = 'ns.holder'
    one = Base
    many = Array(Base)


def describe(o):
    if o is None:
        return None
    if isinstance(o, list):
        return [describe(e) for e in o]
    if isinstance(o, ComplexModel):
        cls = o.__class__
        return cls.__name__, [(k, describe(getattr(o, k, None)))
                                       for k in cls.get_flat_type_info(cls)]
    return o


def unresolved_markers(root):
    retval = []
    for elt in root.iter():
        marker = elt.get('{%s}type' % NS_XSI)
        if marker is None:
            continue
        prefix = marker.split(':', 1)[0] if ':' in marker else None
        if elt.nsmap.get(prefix) is None:
            retval.append((elt.tag, marker, dict(elt.nsmap)))
    return retval


CASES = [
    ("subclass instance with element members (reference)",
        Holder(one=Mid(a=1, c=2))),
    ("subclass instance whose members are all None",
        Holder(one=Mid())),
    ("subclass instance with only its XML attribute set",
        Holder(one=Leaf(tag='t'))),
    ("mixed array, one item without element members",
        Holder(many=[Leaf(tag='x'), Base(tag='y')])),
]

failures = 0
for title, inst in CASES:
    elt = get_object_as_xml_polymorphic(inst, Holder)
    doc = etree.tostring(elt)
    print(title)
    print("    document  :", doc.decode('utf8'))

    # what a receiver sees: the transmitted bytes, parsed again
    parsed = etree.fromstring(doc)
    dangling = unresolved_markers(parsed)
    for tag, marker, nsmap in dangling:
        print("    UNRESOLVED: xsi:type=%r on <%s>; prefixes in scope: %r" %
                                                  (marker, tag, sorted(nsmap)))

    want = describe(inst)
    try:
        back = describe(get_xml_as_object_polymorphic(parsed, Holder))
        print("    read back :", back)
        ok = (back == want) and not dangling
    except Exception as e:
        print("    read back : raised %r" % (e,))
        ok = False

    print("    =>", "ok" if ok else "VIOLATION")
    if not ok:
        failures += 1
    print()

if failures:
    print("%d documents carry a type marker that does not resolve" % failures)
    sys.exit(1)
print("ok")
