"""C06 / 4 -- over XmlDocument, a bare method that returns a primitive answers
with a root element called <retval>, which the published schema does not
declare.

For  @rpc(Integer, _returns=Integer, _body_style='bare') def twice(...)  the
schema publishes the global elements
    <xs:element name="twice"         type="xs:integer"/>
    <xs:element name="twiceResponse" type="xs:integer"/>
Soap11/Soap12 answer <tns:twiceResponse>10</tns:twiceResponse> (valid).
XmlDocument accepts <tns:twice>5</tns:twice> but answers
<ns0:retval xmlns:ns0="tns">10</ns0:retval>: "No matching global declaration
available for the validation root".  (For AnyXml/AnyDict results the missing
name even makes the serialiser raise TypeError -> Server fault.)
"""

import sys
import logging
import warnings
logging.disable(logging.CRITICAL)
warnings.simplefilter('ignore')

from io import BytesIO
from lxml import etree

import spyne
print("spyne from:", spyne.__file__)

from spyne import Application, Service, rpc
from spyne.model import Integer, Unicode, Boolean, Enum, AnyDict, ComplexModel
from spyne.protocol.soap import Soap11
from spyne.protocol.xml import XmlDocument
from spyne.server.wsgi import WsgiApplication
from spyne.interface.xml_schema import XmlSchema

NS = 'urn:c06:bare'

Colour = Enum('red', 'green', type_name='Colour')


class Box(ComplexModel):
    __namespace__ = NS
    w = Integer


class Svc(Service):
    @rpc(Integer, _returns=Integer, _body_style='bare')
    def twice(ctx, i):
        return 2 * i

    @rpc(Unicode, _returns=Unicode(max_len=10), _body_style='bare')
    def upper(ctx, s):
        return s.upper()

    @rpc(Integer, _returns=Boolean, _body_style='bare')
    def positive(ctx, i):
        return i > 0

    @rpc(Unicode, _returns=Colour, _body_style='bare')
    def colour(ctx, s):
        return 'green'

    @rpc(Unicode, _returns=AnyDict, _body_style='bare')
    def info(ctx, s):
        return {'k': [s]}

    # control: a complex bare result is named correctly
    @rpc(Integer, _returns=Box, _body_style='bare')
    def box(ctx, i):
        return Box(w=i)


def call(app, body):
    env = {
        'REQUEST_METHOD': 'POST', 'PATH_INFO': '/', 'QUERY_STRING': '',
        'CONTENT_TYPE': 'text/xml; charset=utf-8',
        'CONTENT_LENGTH': str(len(body)), 'SERVER_NAME': 'localhost',
        'SERVER_PORT': '80', 'wsgi.url_scheme': 'http',
        'wsgi.input': BytesIO(body), 'wsgi.errors': sys.stderr,
        'SERVER_PROTOCOL': 'HTTP/1.1',
    }
    st = []
    out = b''.join(WsgiApplication(app)(env, lambda s, h, e=None: st.append(s)))
    return st[0], out


SOAP = '<e:Envelope xmlns:e="http://schemas.xmlsoap.org/soap/envelope/">' \
       '<e:Body>%s</e:Body></e:Envelope>'

apps = {
    'XmlDocument': Application([Svc], NS, name='BareXml',
         in_protocol=XmlDocument(validator='lxml'), out_protocol=XmlDocument()),
    'Soap11': Application([Svc], NS, name='BareSoap',
                   in_protocol=Soap11(validator='lxml'), out_protocol=Soap11()),
}

xs = XmlSchema(apps['XmlDocument'].interface)
xs.build_validation_schema()
schema = xs.validation_schema

xs.build_interface_document()
print("--- global elements published:")
for e in xs.get_interface_document()['tns']:
    if e.tag.endswith('}element'):
        print("    <xs:element name=%r type=%r/>" % (e.get('name'), e.get('type')))

REQUESTS = [('twice', '5'), ('upper', 'abc'), ('positive', '3'),
                           ('colour', 'x'), ('info', 'v'), ('box', '4')]

failures = []
for pname in ('Soap11', 'XmlDocument'):
    print("--- out_protocol = %s" % pname)
    for meth, arg in REQUESTS:
        req = '<t:%s xmlns:t="%s">%s</t:%s>' % (meth, NS, arg, meth)
        if not schema.validate(etree.fromstring(req)):
            print("    (request itself is invalid?!)", schema.error_log.last_error)
        body = req if pname == 'XmlDocument' else SOAP % req
        status, out = call(apps[pname], body.encode())
        doc = etree.fromstring(out)
        payload = doc if pname == 'XmlDocument' else doc[0][0]
        ok = status.startswith('200') and schema.validate(payload)
        print("  %-9s %-22s -> %s %s" % (meth,
               '<%s>%s</%s>' % (meth, arg, meth), status,
               etree.tostring(payload).decode()[:110]))
        print("            valid against the published schema: %s%s" % (ok,
                '' if ok else '   [%s]' % (schema.error_log.last_error
                      if status.startswith('200') else 'server fault')))
        if not ok:
            failures.append("%s/%s" % (pname, meth))

print()
if failures:
    print("VIOLATION: responses not valid against Spyne's own schema:",
                                                         ", ".join(failures))
    sys.exit(1)

print("OK")
