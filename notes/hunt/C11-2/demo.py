"""C11 / 2: two methods registered under the very same HttpPattern are accepted
when the application/transport is built, and which of them runs is decided by
the iteration order of a set() of pattern objects -- it changes with the order
of the service list / from run to run.

Run: cd /tmp/wth/C11 && PYTHONPATH=/tmp/wth/C11 /venv/bin/python /tmp/hunt/C11/2/demo.py
"""
import sys
import itertools
import logging
logging.disable(logging.CRITICAL)
from io import BytesIO

import spyne
from spyne import Application, Service, rpc, Unicode
from spyne.protocol.http import HttpRpc, HttpPattern
from spyne.protocol.json import JsonDocument
from spyne.server.wsgi import WsgiApplication

print("spyne from", spyne.__file__)

calls = []


def make_services():
    """Three services; each claims GET /things for a different function."""

    class Alpha(Service):
        @rpc(_returns=Unicode, _patterns=[HttpPattern('/things', verb='GET')])
        def alpha(ctx):
            calls.append('alpha')
            return 'alpha'

    class Beta(Service):
        @rpc(_returns=Unicode, _patterns=[HttpPattern('/things', verb='GET')])
        def beta(ctx):
            calls.append('beta')
            return 'beta'

    class Gamma(Service):
        @rpc(_returns=Unicode, _patterns=[HttpPattern('/things', verb='GET')])
        def gamma(ctx):
            calls.append('gamma')
            return 'gamma'

    return [Alpha, Beta, Gamma]


def get(wsgi, path):
    env = {'REQUEST_METHOD': 'GET', 'PATH_INFO': path, 'QUERY_STRING': '',
           'SERVER_NAME': 'localhost', 'SERVER_PORT': '80',
           'wsgi.input': BytesIO(b''), 'wsgi.url_scheme': 'http',
           'CONTENT_LENGTH': '0'}
    seen = {}

    def start_response(status, headers, exc_info=None):
        seen['status'] = status

    del calls[:]
    body = b''.join(wsgi(env, start_response))
    return seen['status'], body, list(calls)


accepted = 0
winners = {}
keep = []  # keep the apps alive so that object ids are not recycled
for perm in itertools.permutations(range(3)):
    services = make_services()
    ordered = [services[i] for i in perm]
    names = [s.__name__ for s in ordered]
    try:
        app = Application(ordered, 'urn:c11:dup', name='App%d%d%d' % perm,
                          in_protocol=HttpRpc(), out_protocol=JsonDocument())
        wsgi = WsgiApplication(app)
    except Exception as e:
        print("services=%-28r rejected at construction: %s: %s"
              % (names, type(e).__name__, str(e).strip()[:80]))
        continue

    keep.append((app, wsgi))
    accepted += 1
    status, body, ran = get(wsgi, '/things')
    winners[tuple(names)] = tuple(ran)
    print("services=%-28r ACCEPTED; GET /things -> %s ran=%r" % (names, status, ran))

if accepted:
    print("\nVIOLATION: %d application(s) in which three different functions "
          "answer to GET /things were built without an error." % accepted)
    if len(set(winners.values())) > 1:
        print("Moreover the function that runs differs between permutations "
              "of the service list: %r" % sorted(set(winners.values())))
    else:
        print("(In this run every permutation happened to pick %r; the choice "
              "comes from set() iteration order of HttpPattern objects.)"
              % (sorted(set(winners.values())),))
    sys.exit(1)

print("\nall ambiguous applications were rejected at construction")
sys.exit(0)
