# -*- coding: utf-8 -*-
"""C09 / 3 -- under SOAP 1.1 and SOAP 1.2, when an exception comes out of user
code while the response is being serialised (a generator method raising after
its first ``yield``), the error path re-runs get_out_string() with
ctx.out_error set -- but Soap11.serialize() had already stored the half-built
envelope in ctx.out_document, and ServerBase.get_out_string_pull() only
serialises when ctx.out_document is None. The client therefore receives
HTTP 500 with an EMPTY <Envelope/>: no Body, no Fault, no 'Server' /
'Internal Error'.

Run: cd /tmp/wth/C09 && PYTHONPATH=/tmp/wth/C09 /venv/bin/python /tmp/hunt/C09/3/demo.py
"""
from __future__ import print_function

import logging
import sys
import warnings
from io import BytesIO

warnings.simplefilter('ignore')
logging.disable(logging.CRITICAL)

from lxml import etree

import spyne
from spyne import Application, Service, srpc, Unicode, Iterable
from spyne.protocol.soap import Soap11, Soap12
from spyne.server.wsgi import WsgiApplication

print("spyne loaded from", spyne.__file__)

SECRET = "s3cr3t-TOKEN-77aa01"


class Svc(Service):
    @srpc(Unicode, _returns=Iterable(Unicode))
    def rows(kind):
        yield u'ROW-1'
        if kind == 'exc':
            raise RuntimeError(SECRET)
        yield u'ROW-2'


def call(prot_cls, kind):
    app = Application([Svc], 'tns', in_protocol=prot_cls(),
                                                      out_protocol=prot_cls())
    ns_env = prot_cls.ns_soap_env
    request = (u'<e:Envelope xmlns:e="%s" xmlns:t="tns"><e:Body>'
               u'<t:rows><t:kind>%s</t:kind></t:rows>'
               u'</e:Body></e:Envelope>' % (ns_env, kind)).encode('utf8')

    seen = {}

    def start_response(status, headers, exc_info=None):
        seen['status'] = status

    env = {
        'REQUEST_METHOD': 'POST', 'PATH_INFO': '/', 'QUERY_STRING': '',
        'CONTENT_TYPE': 'text/xml; charset=utf-8',
        'CONTENT_LENGTH': str(len(request)), 'wsgi.input': BytesIO(request),
        'SERVER_NAME': 'localhost', 'SERVER_PORT': '80',
        'wsgi.url_scheme': 'http',
    }
    body = b''.join(WsgiApplication(app)(env, start_response))
    return seen['status'], body


def text_of(elt):
    return u''.join(elt.itertext()) if elt is not None else None


failures = []
for prot_cls in (Soap11, Soap12):
    name = prot_cls.__name__
    ns_env = prot_cls.ns_soap_env

    status, body = call(prot_cls, 'ok')
    assert status.startswith('200') and b'ROW-2' in body, (status, body)

    status, body = call(prot_cls, 'exc')
    root = etree.fromstring(body)
    envelope_children = [c.tag for c in root]
    fault = root.find('{%s}Body/{%s}Fault' % (ns_env, ns_env))
    print("%s: method raised RuntimeError after the first yield" % name)
    print("    status            :", status)
    print("    envelope children :", envelope_children)
    print("    Fault element     :", fault)
    print("    body (tail)       :", body[-120:])

    if SECRET.encode() in body or b'RuntimeError' in body:
        failures.append("%s: exception text/type leaked" % name)

    if fault is None:
        failures.append("%s: HTTP %s with an empty envelope (children: %r): "
                "the client receives no fault at all instead of 'Server' / "
                "'Internal Error'" % (name, status, envelope_children))
        continue

    if prot_cls is Soap11:
        code = text_of(fault.find('faultcode'))
        string = text_of(fault.find('faultstring'))
        code_ok = code.split(':')[-1] == 'Server'
    else:
        code = text_of(fault.find('{%s}Code/{%s}Value' % (ns_env, ns_env)))
        string = text_of(fault.find('{%s}Reason/{%s}Text' % (ns_env, ns_env)))
        code_ok = code.split(':')[-1] == 'Receiver' and \
               fault.find('{%s}Code/{%s}Subcode' % (ns_env, ns_env)) is None

    if not (status.startswith('500') and code_ok
                                               and string == 'Internal Error'):
        failures.append("%s: expected the generic fault, got %r %r %r"
                                               % (name, status, code, string))

print()
if failures:
    print("PROPERTY C09 VIOLATED:")
    for f in failures:
        print("  -", f)
    sys.exit(1)

print("OK: the generic 'Server' / 'Internal Error' fault was delivered")
