"""C07 / 2 -- custom message names that carry a namespace.

`_in_message_name='{ns}Name'` / `_out_message_name='{ns}Name'` is how the rpc
decorator lets a method put its request/response *elements* into a namespace
other than the application's.  The <wsdl:message> elements are still children
of <wsdl:definitions targetNamespace=tns>, i.e. their QName is {tns}Name, but
Wsdl11.add_port_type() writes the portType's input/output @message with the
prefix of the *element's* namespace, so the reference points at a message that
does not exist.
"""
import io
import sys
import logging

logging.disable(logging.CRITICAL)

import spyne
from lxml import etree
from spyne import Application, ServiceBase, rpc, Unicode, Integer
from spyne.protocol.soap import Soap11
from spyne.server.wsgi import WsgiApplication

print("spyne from:", spyne.__file__)

WSDL = '{http://schemas.xmlsoap.org/wsdl/}'


class CrmService(ServiceBase):
    @rpc(Unicode, _returns=Integer,
         _in_message_name='{urn:crm:messages}FindCustomer',
         _out_message_name='{urn:crm:messages}FindCustomerReply')
    def find_customer(ctx, name):
        return len(name)

    @rpc(Unicode, _returns=Unicode)      # control: default names
    def ping(ctx, s):
        return s


app = Application([CrmService], 'urn:crm', name='Crm',
                  in_protocol=Soap11(), out_protocol=Soap11())
wsgi_app = WsgiApplication(app)


def call(method, body=b'', qs='', soap_action=None):
    env = {
        'REQUEST_METHOD': method, 'PATH_INFO': '/', 'QUERY_STRING': qs,
        'SERVER_NAME': 'localhost', 'SERVER_PORT': '80',
        'wsgi.url_scheme': 'http', 'wsgi.input': io.BytesIO(body),
        'CONTENT_LENGTH': str(len(body)),
        'CONTENT_TYPE': 'text/xml; charset=utf-8',
        'wsgi.errors': sys.stderr,
    }
    if soap_action is not None:
        env['HTTP_SOAPACTION'] = '"%s"' % soap_action
    status = []
    out = b''.join(wsgi_app(env, lambda s, h, e=None: status.append(s)))
    return status[0], out


status, doc = call('GET', qs='wsdl')
assert status.startswith('200'), (status, doc)
root = etree.fromstring(doc)
tns = root.get('targetNamespace')

problems = []

messages = set(m.get('name') for m in root.findall(WSDL + 'message'))
print("wsdl:message elements defined in targetNamespace %r: %s"
                                                    % (tns, sorted(messages)))

for pt in root.findall(WSDL + 'portType'):
    for op in pt.findall(WSDL + 'operation'):
        for io_elt in op:
            if io_elt.tag not in (WSDL + 'input', WSDL + 'output',
                                                               WSDL + 'fault'):
                continue
            ref = io_elt.get('message')
            prefix, _, local = ref.rpartition(':')
            ref_ns = io_elt.nsmap.get(prefix or None)
            ok = (ref_ns == tns and local in messages)
            print("  operation %-14s %-7s message=%-22r -> {%s}%s  %s" % (
                op.get('name'), etree.QName(io_elt).localname, ref, ref_ns,
                local, "resolves" if ok else "DOES NOT RESOLVE"))
            if not ok:
                problems.append("portType %r operation %r: %s message %r is "
                    "{%s}%s, but messages live in {%s}" % (pt.get('name'),
                    op.get('name'), etree.QName(io_elt).localname, ref, ref_ns,
                    local, tns))

# what a foreign toolkit makes of the document (optional)
try:
    import zeep, tempfile, os
    path = os.path.join(tempfile.mkdtemp(), 'crm.wsdl')
    with open(path, 'wb') as f:
        f.write(doc)
    client = zeep.Client(path)
    ops = set()
    for service in client.wsdl.services.values():
        for port in service.ports.values():
            ops.update(port.binding._operations)
    print("operations a zeep client generated from the WSDL offers:",
                                                                   sorted(ops))
    if 'find_customer' not in ops:
        problems.append("zeep client has no operation 'find_customer' (it "
                        "drops operations whose messages cannot be resolved)")
except ImportError:
    print("(zeep not installed, skipping the foreign client check)")
except Exception as e:
    problems.append("zeep rejects the document: %r" % (e,))

print()
if problems:
    print("VIOLATION:")
    for p in problems:
        print("  -", p)
    sys.exit(1)

print("OK: every portType message reference resolves")
