"""C05 / 2: DictDocument._check_freq_dict replaces the occurrence bounds of an
Array member by those of the array's *item* type, but compares them with the
number of times the array *key* was seen.

 * a mandatory array (Array(Unicode, min_occurs=1)) that is missing from the
   request is accepted by JSON, YAML, MessagePack and HttpRpc (XML/SOAP reject);
 * an array whose items declare min_occurs=2/max_occurs=3 is rejected by JSON,
   YAML and MessagePack even with 2 or 3 items, and with max_occurs=2 on the
   items, 3 items are accepted.

Run: cd /tmp/wth/C05 && PYTHONPATH=/tmp/wth/C05 /venv/bin/python /tmp/hunt/C05/2/demo.py
"""
import io, sys, json, logging, warnings
warnings.simplefilter('ignore')
logging.disable(logging.CRITICAL)

import yaml, msgpack
from urllib.parse import urlencode

import spyne
print("spyne from", spyne.__file__)

from spyne import Application, rpc, ServiceBase, ComplexModel, Unicode, \
    Integer, Array
from spyne.server.wsgi import WsgiApplication
from spyne.protocol.xml import XmlDocument
from spyne.protocol.soap import Soap11
from spyne.protocol.json import JsonDocument
from spyne.protocol.yaml import YamlDocument
from spyne.protocol.msgpack import MessagePackDocument
from spyne.protocol.http import HttpRpc

TNS = 'tns'
CALLS = []


class Order(ComplexModel):
    __namespace__ = TNS
    _type_info = [
        ('id', Integer),
        ('tags', Array(Unicode, min_occurs=1)),      # the array is mandatory
    ]


class Svc(ServiceBase):
    @rpc(Integer, Array(Unicode, min_occurs=1), _returns=Unicode)
    def top(ctx, id, tags):                          # top-level argument
        CALLS.append(('top', id, tags))
        return 'ok'

    @rpc(Order, _returns=Unicode)
    def nested(ctx, order):                          # nested field
        CALLS.append(('nested', order))
        return 'ok'

    @rpc(Array(Unicode(min_occurs=2, max_occurs=3)), _returns=Unicode)
    def items23(ctx, names):                         # 2..3 items
        CALLS.append(('items23', names))
        return 'ok'

    @rpc(Array(Unicode(max_occurs=2)), _returns=Unicode)
    def items02(ctx, names):                         # 0..2 items
        CALLS.append(('items02', names))
        return 'ok'


PROTOCOLS = {
    'XmlDocument': lambda: XmlDocument(validator='soft'),
    'Soap11': lambda: Soap11(validator='soft'),
    'JsonDocument': lambda: JsonDocument(validator='soft'),
    'YamlDocument': lambda: YamlDocument(validator='soft'),
    'MessagePackDocument': lambda: MessagePackDocument(validator='soft'),
    'HttpRpc': lambda: HttpRpc(validator='soft'),
}
DICT_FAMILY = ('JsonDocument', 'YamlDocument', 'MessagePackDocument', 'HttpRpc')
APPS = {k: WsgiApplication(Application([Svc], TNS, name='App', in_protocol=v(),
                            out_protocol=JsonDocument())) for k, v in PROTOCOLS.items()}


def wsgi(app, body=b'', ctype='', method='POST', qs='', path='/'):
    env = {'REQUEST_METHOD': method, 'PATH_INFO': path, 'QUERY_STRING': qs,
           'SERVER_NAME': 'localhost', 'SERVER_PORT': '80', 'SCRIPT_NAME': '',
           'wsgi.url_scheme': 'http', 'CONTENT_TYPE': ctype,
           'CONTENT_LENGTH': str(len(body)), 'wsgi.input': io.BytesIO(body),
           'wsgi.errors': sys.stderr}
    st = []
    ret = b''.join(app(env, lambda s, h, e=None: st.append(s)))
    return st[0], ret


def send(pname, method, xml_body, doc, query):
    app = APPS[pname]
    if pname in ('XmlDocument', 'Soap11'):
        body = ('<ns:%s xmlns:ns="tns">%s</ns:%s>' % (method, xml_body, method)
                                                                      ).encode()
        if pname == 'Soap11':
            body = (b'<e:Envelope xmlns:e="http://schemas.xmlsoap.org/soap/'
                    b'envelope/"><e:Body>' + body + b'</e:Body></e:Envelope>')
        return wsgi(app, body, 'text/xml; charset=utf-8')
    doc = {method: doc}
    if pname == 'JsonDocument':
        return wsgi(app, json.dumps(doc).encode(), 'application/json')
    if pname == 'YamlDocument':
        return wsgi(app, yaml.safe_dump(doc).encode(), 'text/yaml')
    if pname == 'MessagePackDocument':
        return wsgi(app, msgpack.packb(doc), 'application/x-msgpack')
    if pname == 'HttpRpc':
        return wsgi(app, method='GET', qs=urlencode(query), path='/' + method)


def verdict(pname, *req):
    del CALLS[:]
    status, body = send(pname, *req)
    if CALLS:
        return 'ACCEPTED', 'function ran: %r' % (CALLS[0],)
    return 'REJECTED', '%s %s' % (status, body.decode('utf8', 'replace')[:100])


violations = 0

def case(title, expected, protocols, *req):
    global violations
    print("\n%s -> expected %s" % (title, expected))
    for pname in protocols:
        got, detail = verdict(pname, *req)
        bad = got != expected
        violations += bad
        print("  %-20s %-8s %s%s" % (pname, got, detail,
                                              '   <-- VIOLATION' if bad else ''))


# --- A. the mandatory array is missing altogether ----------------------------
case("A1. top(id=1) without the mandatory 'tags' array (top-level argument)",
     'REJECTED', PROTOCOLS,
     'top', '<ns:id>1</ns:id>', {'id': 1}, [('id', '1')])

case("A2. nested(order=Order(id=1)) without the mandatory 'tags' array (nested field)",
     'REJECTED', PROTOCOLS,
     'nested', '<ns:order><ns:id>1</ns:id></ns:order>', {'order': {'id': 1}},
                                                            [('order.id', '1')])

case("A3. control: top(id=1, tags=['a'])", 'ACCEPTED', PROTOCOLS,
     'top', '<ns:id>1</ns:id><ns:tags><ns:string>a</ns:string></ns:tags>',
                          {'id': 1, 'tags': ['a']}, [('id', '1'), ('tags', 'a')])

# --- B. occurrence bounds of the items ---------------------------------------
# (XmlDocument/Soap11 are left out of part B: they do not count array items at
# all, which is a different defect in XmlDocument.array_from_element.)
for n in range(0, 5):
    names = ['n%d' % i for i in range(n)]
    xml = '<ns:names>%s</ns:names>' % ''.join('<ns:string>%s</ns:string>' % s
                                                                for s in names)
    q = [('names', s) for s in names]
    if n >= 1:  # n == 0 cannot be told from "array absent" over HttpRpc
        case("B1. items23(names=%r): items declare min_occurs=2, max_occurs=3"
             % names, 'ACCEPTED' if 2 <= n <= 3 else 'REJECTED', DICT_FAMILY,
             'items23', xml, {'names': names}, q)

for n in range(1, 4):
    names = ['n%d' % i for i in range(n)]
    q = [('names', s) for s in names]
    case("B2. items02(names=%r): items declare max_occurs=2" % names,
         'ACCEPTED' if n <= 2 else 'REJECTED', DICT_FAMILY,
         'items02', '', {'names': names}, q)

print()
if violations:
    print("FAIL: %d wrong verdicts" % violations)
    sys.exit(1)
print("OK: occurrence constraints of Array members are enforced consistently")
