"""C16 / 2: XmlDocument(polymorphic=True) names the message element of a bare
method after the runtime subclass instead of after the message.

    @rpc(Base, _body_style='bare', _returns=Base)
    def get(ctx, b): return Mid(...)

The response element of this method is <tns:getResponse> (that is what the
schema declares, what polymorphic=False emits, and what Soap11 emits together
with xsi:type). XmlDocument with polymorphic=True emits <tns:Mid xsi:type=...>:
the subclass name replaces the message name. In the other direction a Mid sent
to the bare method is written as <tns:Mid>, which the server cannot dispatch.
"""
from __future__ import print_function

import sys
import logging
logging.basicConfig(level=logging.CRITICAL)

from lxml import etree

import spyne
assert spyne.__file__.startswith('/tmp/wth/C16/'), spyne.__file__

from spyne import Application, Service, rpc, ComplexModel, Integer, MethodContext
from spyne.server import ServerBase
from spyne.protocol.xml import XmlDocument
from spyne.protocol.soap import Soap11

NS_XSI = 'http://www.w3.org/2001/XMLSchema-instance'


class Base(ComplexModel):
    __namespace__ = 'ns.base'
    a = Integer


class Mid(Base):
    __namespace__ = 'ns.base'
    c = Integer


received = []


class BareService(Service):
    @rpc(Base, _body_style='bare', _returns=Base)
    def get(ctx, b):
        received.append(b)
        return Mid(a=1, c=2)


def call(app, request):
    server = ServerBase(app)
    ctx = MethodContext(server, MethodContext.SERVER)
    ctx.in_string = [request]
    ctx, = server.generate_contexts(ctx)
    if ctx.in_error is None:
        server.get_in_object(ctx)
    if ctx.in_error is None:
        server.get_out_object(ctx)
    server.get_out_string(ctx)
    return b''.join(ctx.out_string)


def client_request(app, inst):
    """What spyne itself sends for get(inst): out_protocol.serialize(REQUEST)"""
    from spyne.client import RemoteProcedureBase
    rp = RemoteProcedureBase(None, app, 'get')
    ctx, = rp.contexts
    rp.get_out_object(ctx, (inst,), {})
    rp.get_out_string(ctx)
    return b''.join(ctx.out_string)


REQUEST = (b'<t:get xmlns:t="tns" xmlns:b="ns.base"><b:a>5</b:a></t:get>')
SOAP_REQUEST = (b'<e:Envelope xmlns:e="http://schemas.xmlsoap.org/soap/envelope/">'
                b'<e:Body>' + REQUEST + b'</e:Body></e:Envelope>')

failures = 0

# reference points -----------------------------------------------------------
app = Application([BareService], 'tns', name='A', in_protocol=XmlDocument(),
                                out_protocol=XmlDocument(polymorphic=False))
resp = call(app, REQUEST)
print("XmlDocument polymorphic=False response:\n   ", resp.split(b'\n', 1)[-1])

app = Application([BareService], 'tns', name='A', in_protocol=Soap11(),
                                     out_protocol=Soap11(polymorphic=True))
resp = call(app, SOAP_REQUEST)
body = etree.fromstring(resp)[0][0]
print("Soap11 polymorphic=True response body element:", body.tag,
                                  "xsi:type =", body.get('{%s}type' % NS_XSI))
print()

# the case --------------------------------------------------------------------
app = Application([BareService], 'tns', name='A',
                                in_protocol=XmlDocument(polymorphic=True),
                                out_protocol=XmlDocument(polymorphic=True))
resp = call(app, REQUEST)
root = etree.fromstring(resp)
print("XmlDocument polymorphic=True response:\n   ", resp.split(b'\n', 1)[-1])
print("    root element :", root.tag, " (expected {tns}getResponse)")
print("    xsi:type     :", root.get('{%s}type' % NS_XSI))
if root.tag != '{tns}getResponse':
    failures += 1
    print("    => VIOLATION: the message element is named after the subclass")

# the response does not even match the schema the same application publishes
app.interface.docs.xml_schema.build_validation_schema()
schema = app.interface.docs.xml_schema.validation_schema
valid = schema.validate(root)
print("    valid against the application's own schema:", valid)
if not valid:
    print("       ", schema.error_log.last_error)
print()

# request direction: what spyne sends when a Mid goes to the bare method
for inst in (Base(a=5), Mid(a=5, c=6)):
    del received[:]
    req = client_request(app, inst)
    resp = call(app, req)
    rroot = etree.fromstring(req)
    print("request written for get(%s):" % inst.__class__.__name__)
    print("   ", req.split(b'\n', 1)[-1])
    got = received[0] if received else None
    print("    service received:", None if got is None else
                     (got.__class__.__name__, got.a, getattr(got, 'c', None)))
    if got is None:
        print("    server said     :", resp.split(b'\n', 1)[-1][:200])
    if got is None or got.__class__ is not inst.__class__:
        failures += 1
        print("    => VIOLATION: request root is %s, the method is {tns}get" %
                                                                    rroot.tag)
    print()

if failures:
    print("%d violations" % failures)
    sys.exit(1)
print("ok")
