"""C07 / 3 -- two arrays of the same element type with different member names.

Array(Unicode) and Array(Unicode, member_name='tag') are both named
"stringArray".  Interface.has_class() treats any two Array customisations that
answer to the same name as the same class, so only ONE <xs:complexType
name="stringArray"> is published -- while the server keeps serialising each
array with its own member name.  One of the two replies therefore does not
match the schema the WSDL gives to the client.
"""
import io
import sys
import logging

logging.disable(logging.CRITICAL)

import spyne
from lxml import etree
from spyne import Application, ServiceBase, rpc, Unicode, Integer, Array
from spyne.protocol.soap import Soap11
from spyne.server.wsgi import WsgiApplication

print("spyne from:", spyne.__file__)

XS = '{http://www.w3.org/2001/XMLSchema}'
SOAP_ENV = '{http://schemas.xmlsoap.org/soap/envelope/}'


class TagService(ServiceBase):
    @rpc(Integer, _returns=Array(Unicode))
    def get_names(ctx, n):
        return ['name%d' % i for i in range(n)]

    @rpc(Integer, _returns=Array(Unicode, member_name='tag'))
    def get_tags(ctx, n):
        return ['tag%d' % i for i in range(n)]


try:
    app = Application([TagService], 'urn:tags', name='Tags',
                      in_protocol=Soap11(), out_protocol=Soap11())
except ValueError as e:
    # refusing the ambiguous pair outright would be fine, too: no WSDL is
    # published that misdescribes the service.
    print("the application is rejected:", e)
    print("OK: conflicting array definitions are not silently merged")
    sys.exit(0)

wsgi_app = WsgiApplication(app)


def call(method, body=b'', qs='', soap_action=None):
    env = {
        'REQUEST_METHOD': method, 'PATH_INFO': '/', 'QUERY_STRING': qs,
        'SERVER_NAME': 'localhost', 'SERVER_PORT': '80',
        'wsgi.url_scheme': 'http', 'wsgi.input': io.BytesIO(body),
        'CONTENT_LENGTH': str(len(body)),
        'CONTENT_TYPE': 'text/xml; charset=utf-8',
        'wsgi.errors': sys.stderr,
    }
    if soap_action is not None:
        env['HTTP_SOAPACTION'] = '"%s"' % soap_action
    status = []
    out = b''.join(wsgi_app(env, lambda s, h, e=None: status.append(s)))
    return status[0], out


status, doc = call('GET', qs='wsdl')
assert status.startswith('200'), (status, doc)
root = etree.fromstring(doc)

print("array types published in the WSDL:")
for ct in root.iter(XS + 'complexType'):
    if ct.get('name').endswith('Array'):
        print("    complexType %r with member element(s) %r" % (ct.get('name'),
                           [e.get('name') for e in ct.iter(XS + 'element')]))
print("elements that use them:", [(e.get('name'), e.get('type'))
      for e in root.iter(XS + 'element') if e.get('name').endswith('Result')])

# the only schema of this application, compiled by libxml2
schema_elt, = root.iter(XS + 'schema')
schema = etree.XMLSchema(etree.fromstring(etree.tostring(schema_elt)))

problems = []
expected = {'get_names': ['name0', 'name1'], 'get_tags': ['tag0', 'tag1']}

for op in ('get_names', 'get_tags'):
    req = ('<e:Envelope xmlns:e="http://schemas.xmlsoap.org/soap/envelope/">'
           '<e:Body><t:%s xmlns:t="urn:tags"><t:n>2</t:n></t:%s></e:Body>'
           '</e:Envelope>' % (op, op)).encode()
    status, out = call('POST', req, soap_action=op)
    print("%s -> %s %s" % (op, status, out.decode().split('Body>')[1][:-11]))
    body_entry = etree.fromstring(out).find(SOAP_ENV + 'Body')[0]
    if schema.validate(body_entry):
        print("   reply is valid against the schema in the WSDL")
    else:
        err = schema.error_log.last_error.message
        print("   reply is NOT valid against the schema in the WSDL:", err)
        problems.append("%s: reply does not match the published schema: %s"
                                                                   % (op, err))

# a foreign client generated from the WSDL (optional)
try:
    import zeep, tempfile, os

    class _Reply(object):
        def __init__(self, status, content):
            self.status_code = int(status.split()[0])
            self.content = content
            self.headers = {'Content-Type': 'text/xml; charset=utf-8'}
            self.encoding = 'utf-8'

    path = os.path.join(tempfile.mkdtemp(), 'tags.wsdl')
    with open(path, 'wb') as f:
        f.write(doc)
    client = zeep.Client(path)
    binding = client.service._binding
    for op in ('get_names', 'get_tags'):
        msg = etree.tostring(client.create_message(client.service, op, 2))
        status, out = call('POST', msg, soap_action=op)
        try:
            val = binding.process_reply(client, binding.get(op),
                                                          _Reply(status, out))
            print("zeep %s(2) -> %r" % (op, val))
            if list(val or ()) != expected[op]:
                problems.append("zeep decoded %s(2) to %r, the service "
                                "returned %r" % (op, val, expected[op]))
        except Exception as e:
            print("zeep %s(2) -> cannot decode the reply: %r" % (op, e))
            problems.append("zeep cannot decode the reply of %s: %r" % (op, e))

except ImportError:
    print("(zeep not installed, skipping the foreign client check)")

print()
if problems:
    print("VIOLATION:")
    for p in problems:
        print("  -", p)
    sys.exit(1)

print("OK: both replies match the published schema")
