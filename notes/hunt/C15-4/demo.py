"""C15 / 4: Mandatory() of a Unicode type unconditionally forces min_len=1.
It thereby LOOSENS a parent that already asked for more (min_len=3 -> 1) and
overrides an explicit request (Mandatory(Unicode, min_len=5) -> 1): the
derivative accepts values its original rejects.
"""

import re
import sys
import logging
logging.disable(logging.CRITICAL)

import spyne
print("spyne from", spyne.__file__)

from spyne import Application, rpc, ServiceBase
from spyne.model.complex import Mandatory
from spyne.model.primitive import Unicode
from spyne.protocol.http import HttpRpc
from spyne.protocol.json import JsonDocument
from spyne.protocol.soap import Soap11
from spyne.interface.wsdl import Wsdl11
from spyne.server.wsgi import WsgiApplication

failures = []

Code = Unicode(min_len=3, max_len=8)
MCode = Mandatory(Code)                      # asks for: present and not null
M5 = Mandatory(Unicode, min_len=5)           # asks for: mandatory + min_len=5

print("Code.min_len                         =", Code.Attributes.min_len)
print("Mandatory(Code).min_len              =", MCode.Attributes.min_len,
      "(max_len kept: %r, min_occurs=%r, nillable=%r)" % (
        MCode.Attributes.max_len, MCode.Attributes.min_occurs,
        MCode.Attributes.nillable))
print("Mandatory(Unicode, min_len=5).min_len =", M5.Attributes.min_len)

if MCode.Attributes.min_len != 3:
    failures.append("Mandatory(Unicode(min_len=3, max_len=8)) has min_len=%r"
                                               % (MCode.Attributes.min_len,))
if M5.Attributes.min_len != 5:
    failures.append("Mandatory(Unicode, min_len=5) has min_len=%r"
                                                  % (M5.Attributes.min_len,))


class Svc(ServiceBase):
    @rpc(Code, _returns=Unicode)
    def plain(ctx, a):
        return 'accepted %r' % (a,)

    @rpc(MCode, _returns=Unicode)
    def mandatory(ctx, a):
        return 'accepted %r' % (a,)

    @rpc(M5, _returns=Unicode)
    def m5(ctx, a):
        return 'accepted %r' % (a,)


app = Application([Svc], 'tns', in_protocol=HttpRpc(validator='soft'),
                                out_protocol=JsonDocument())
wsgi = WsgiApplication(app)


def call(method, value):
    status = []
    env = {
        'REQUEST_METHOD': 'GET', 'PATH_INFO': '/' + method,
        'QUERY_STRING': 'a=' + value, 'SERVER_NAME': 'localhost',
        'SERVER_PORT': '80', 'wsgi.url_scheme': 'http',
        'wsgi.input': None, 'SCRIPT_NAME': '',
    }
    body = b''.join(wsgi(env, lambda s, h: status.append(s)))
    return status[0], body.decode('utf8')


r_plain = call('plain', 'ab')
r_mand = call('mandatory', 'ab')
r_m5 = call('m5', 'ab')
print("GET /plain?a=ab     ->", r_plain[0], r_plain[1][:80])
print("GET /mandatory?a=ab ->", r_mand[0], r_mand[1][:80])
print("GET /m5?a=ab        ->", r_m5[0], r_m5[1][:80])

if r_plain[0] != r_mand[0]:
    failures.append("'ab' is %s for Unicode(min_len=3, max_len=8) but %s for "
                    "Mandatory() of that very type" % (r_plain[0], r_mand[0]))
if not r_m5[0].startswith('400'):
    failures.append("'ab' is %s for Mandatory(Unicode, min_len=5)" % r_m5[0])

# and the contract that is published
app2 = Application([Svc], 'tns', in_protocol=Soap11(), out_protocol=Soap11())
w = Wsdl11(app2.interface)
w.build_interface_document('http://localhost/')
doc = w.get_interface_document().decode('utf8')
for st in re.findall(r'<xs:simpleType name="[^"]*">.*?</xs:simpleType>', doc,
                                                                         re.S):
    print("   ", st)

print()
if failures:
    print("PROPERTY C15 VIOLATED:")
    for f in failures:
        print("  *", f)
    sys.exit(1)

print("ok")
