"""C11 / 3: a SOAP request whose body entry is named {soap-envelope-ns}Fault
(an unregistered name, qualified with a namespace other than the target
namespace) does not yield a not-found client fault: routing dereferences a
method name that was never set and an AttributeError escapes the WSGI callable.

Run: cd /tmp/wth/C11 && PYTHONPATH=/tmp/wth/C11 /venv/bin/python /tmp/hunt/C11/3/demo.py
"""
import sys
import logging
logging.disable(logging.CRITICAL)
from io import BytesIO

import spyne
from spyne import Application, Service, rpc, Unicode
from spyne.protocol.soap import Soap11, Soap12
from spyne.server.wsgi import WsgiApplication

print("spyne from", spyne.__file__)

TNS = 'urn:c11:fault'
calls = []


class SomeService(Service):
    @rpc(Unicode, _returns=Unicode)
    def foo(ctx, a):
        calls.append('foo')
        return 'foo'

    # adversarially similar: a registered method called Fault in the tns
    @rpc(Unicode, _returns=Unicode)
    def Fault(ctx, a):
        calls.append('Fault')
        return 'Fault'


def post(wsgi, body, content_type):
    env = {'REQUEST_METHOD': 'POST', 'PATH_INFO': '/', 'QUERY_STRING': '',
           'SERVER_NAME': 'localhost', 'SERVER_PORT': '80',
           'wsgi.input': BytesIO(body), 'wsgi.url_scheme': 'http',
           'CONTENT_LENGTH': str(len(body)), 'CONTENT_TYPE': content_type}
    seen = {}

    def start_response(status, headers, exc_info=None):
        seen['status'] = status

    del calls[:]
    try:
        out = b''.join(wsgi(env, start_response))
    except Exception as e:
        return 'EXCEPTION ESCAPED', repr(e).encode(), list(calls)
    return seen.get('status'), out, list(calls)


configs = [
    (Soap11, 'http://schemas.xmlsoap.org/soap/envelope/', 'text/xml'),
    (Soap12, 'http://www.w3.org/2003/05/soap-envelope', 'application/soap+xml'),
]

bad = 0
for prot, env_ns, ctype in configs:
    for validator in (None, 'soft'):
        app = Application([SomeService], TNS,
                          name='%s_%s' % (prot.__name__, validator),
                          in_protocol=prot(validator=validator),
                          out_protocol=prot())
        wsgi = WsgiApplication(app)

        envelope = ('<e:Envelope xmlns:e="%s" xmlns:t="%s"><e:Body>%%s</e:Body>'
                    '</e:Envelope>' % (env_ns, TNS))

        requests = [
            # registered names: must run exactly that function
            ('{tns}foo', '<t:foo><t:a>x</t:a></t:foo>', ['foo']),
            ('{tns}Fault', '<t:Fault><t:a>x</t:a></t:Fault>', ['Fault']),
            # unregistered names in other namespaces: nothing runs, client fault
            ('{other}Fault', '<o:Fault xmlns:o="urn:other"><o:a>x</o:a></o:Fault>', []),
            ('{soapenv}Body', '<e:Body><t:foo><t:a>x</t:a></t:foo></e:Body>', []),
            ('{soapenv}Fault', '<e:Fault><faultcode>e:Client</faultcode>'
                               '<faultstring>boo</faultstring></e:Fault>', []),
        ]

        for label, entry, expected in requests:
            status, out, ran = post(wsgi, (envelope % entry).encode(), ctype)
            if expected:
                ok = ran == expected and status == '200 OK'
            else:
                is_client_fault = (b'Client' in out or b'Sender' in out) \
                                                      and b'Fault' in out
                ok = ran == [] and status != 'EXCEPTION ESCAPED' \
                                                            and is_client_fault
            print("%-4s %s validator=%-5r body entry %-15s -> %s ran=%r %s"
                  % ('ok' if ok else 'BAD', prot.__name__, validator, label,
                     status, ran, out[:110] if not ok or not expected else b''))
            if not ok:
                bad += 1

if bad:
    print("\nVIOLATION: %d request(s) naming an unregistered method did not get "
          "a not-found client fault (the lookup crashed instead)." % bad)
    sys.exit(1)

print("\nevery unregistered name produced a client fault and ran nothing")
sys.exit(0)
