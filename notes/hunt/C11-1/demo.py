"""C11 / 1: an HttpPattern address is compiled as a raw regular expression, so
URL paths that are NOT the registered address run the method, and an address
containing other metacharacters cannot be reached under its own name.

Run: cd /tmp/wth/C11 && PYTHONPATH=/tmp/wth/C11 /venv/bin/python /tmp/hunt/C11/1/demo.py
"""
import sys
import logging
logging.disable(logging.CRITICAL)
from io import BytesIO

import spyne
from spyne import Application, Service, rpc, Unicode
from spyne.protocol.http import HttpRpc, HttpPattern
from spyne.protocol.json import JsonDocument
from spyne.server.wsgi import WsgiApplication

print("spyne from", spyne.__file__)

calls = []


class VersionedService(Service):
    @rpc(_returns=Unicode, _patterns=[HttpPattern('/api/v1.0/items', verb='GET')])
    def list_items(ctx):
        calls.append('list_items')
        return 'list_items'

    @rpc(_returns=Unicode, _patterns=[HttpPattern('/api/c++/tools', verb='GET')])
    def list_tools(ctx):
        calls.append('list_tools')
        return 'list_tools'


app = Application([VersionedService], 'urn:c11:regex',
                  in_protocol=HttpRpc(), out_protocol=JsonDocument())
wsgi = WsgiApplication(app)


def get(path):
    env = {'REQUEST_METHOD': 'GET', 'PATH_INFO': path, 'QUERY_STRING': '',
           'SERVER_NAME': 'localhost', 'SERVER_PORT': '80',
           'wsgi.input': BytesIO(b''), 'wsgi.url_scheme': 'http',
           'CONTENT_LENGTH': '0'}
    seen = {}

    def start_response(status, headers, exc_info=None):
        seen['status'] = status

    del calls[:]
    body = b''.join(wsgi(env, start_response))
    return seen['status'], body, list(calls)


# (path, functions that must run; when none: a not-found fault is expected)
cases = [
    ('/api/v1.0/items', ['list_items']),   # the registered address
    ('/api/v1X0/items', []),               # '.' replaced by another character
    ('/api/v1_0/items', []),               # '.' replaced by '_'
    ('/api/v100/items', []),
    ('/api/c++/tools', ['list_tools']),    # the registered address, literally
    ('/api/c/tools', []),                  # never registered
    ('/api/ccc/tools', []),                # never registered
]

bad = 0
for path, expected in cases:
    status, body, ran = get(path)
    not_found = b'ResourceNotFound' in body
    ok = (ran == expected) and (bool(expected) or not_found)
    print("%-4s GET %-20s -> %-14s ran=%-16r body=%s"
          % ('ok' if ok else 'BAD', path, status, ran, body[:70]))
    if not ok:
        bad += 1

if bad:
    print("\nVIOLATION: %d URL path(s) were routed by treating the registered "
          "address as a regular expression: unregistered near-miss names ran a "
          "user function and/or a registered address was not found." % bad)
    sys.exit(1)

print("\nall paths routed by exact address")
sys.exit(0)
