# --- shared driver (inlined into every demo) ---
import io, sys, logging, warnings
warnings.simplefilter('ignore')
logging.disable(logging.CRITICAL)
import spyne
print("spyne from:", spyne.__file__)

class CountingInput(object):
    def __init__(self, data):
        self._b = io.BytesIO(data)
        self.bytes_read = 0
    def read(self, n=-1):
        d = self._b.read(n)
        self.bytes_read += len(d)
        return d

def make_environ(method='POST', path='/', qs='', body=b'', content_length='auto',
                                                     content_type='text/xml; charset=utf-8'):
    inp = CountingInput(body)
    env = {
        'REQUEST_METHOD': method, 'PATH_INFO': path, 'QUERY_STRING': qs,
        'SCRIPT_NAME': '', 'SERVER_NAME': 'localhost', 'SERVER_PORT': '80',
        'SERVER_PROTOCOL': 'HTTP/1.1', 'CONTENT_TYPE': content_type,
        'wsgi.url_scheme': 'http', 'wsgi.version': (1, 0), 'wsgi.input': inp,
        'wsgi.errors': sys.stderr, 'wsgi.multithread': False,
        'wsgi.multiprocess': False, 'wsgi.run_once': False,
    }
    if content_length == 'auto':
        env['CONTENT_LENGTH'] = str(len(body))
    elif content_length is not None:
        env['CONTENT_LENGTH'] = content_length
    return env, inp

def drive(wsgi_app, env):
    """Plays the role of a WSGI server for one request and records what the
    application did."""
    events = []
    calls = []
    def start_response(status, headers, exc_info=None):
        calls.append((status, headers))
        events.append('start_response')
        return lambda data: None
    def on_closed(ctx):
        events.append('context_closed')
    wsgi_app.app.event_manager.add_listener('method_context_closed', on_closed)

    escaped = None
    chunks = []
    try:
        it = wsgi_app(env, start_response)
        try:
            for c in it:
                events.append('chunk')
                chunks.append(c)
        finally:
            if hasattr(it, 'close'):
                it.close()
    except BaseException as e:
        escaped = e
    finally:
        wsgi_app.app.event_manager.del_listener('method_context_closed', on_closed)

    print("    start_response calls :", calls)
    print("    body                 :", b''.join(c for c in chunks if isinstance(c, bytes))[:300])
    print("    exception escaped    :", repr(escaped))
    print("    event order          :", events)
    return dict(calls=calls, chunks=chunks, escaped=escaped, events=events)

def pep3333_problems(res):
    probs = []
    if res['escaped'] is not None:
        probs.append("the WSGI callable/iterator raised %r instead of answering" % (res['escaped'],))
    if len(res['calls']) != 1:
        probs.append("start_response was called %d times (expected exactly 1)" % len(res['calls']))
    if res['events'].count('context_closed') != 1:
        probs.append("request context closed %d times (expected exactly 1)"
                                                 % res['events'].count('context_closed'))
    if res['events'] and res['events'][0] != 'start_response':
        probs.append("first event is %r, not start_response" % res['events'][0])
    for c in res['chunks']:
        if not isinstance(c, bytes):
            probs.append("non-bytes body chunk %r" % (c,))
    for status, headers in res['calls']:
        for k, v in headers:
            if type(k) is not str or type(v) is not str:
                probs.append("non-str header %r: %r" % (k, v))
            if k.lower() == 'content-length' and int(v) != sum(len(c) for c in res['chunks']):
                probs.append("Content-Length %s != %d body bytes" % (v, sum(len(c) for c in res['chunks'])))
    return probs
# --- end of shared driver ---

# C13 violation 2: a CONTENT_LENGTH value that is not a decimal integer
# ("abc", "1e3", "12, 12", "0x10") makes int() raise ValueError inside the
# bounded body reader.  The reader is a generator that is consumed by the in
# protocol's create_in_document(), and ServerBase.generate_contexts() only
# catches Fault -- so the ValueError escapes from the WSGI callable:
# start_response is never called and the request context is never closed.

from spyne import Application, rpc, ServiceBase, Unicode
from spyne.protocol.soap import Soap11
from spyne.protocol.json import JsonDocument
from spyne.server.wsgi import WsgiApplication

user_calls = []

class EchoService(ServiceBase):
    @rpc(Unicode, _returns=Unicode)
    def echo(ctx, s):
        user_calls.append(s)
        return s

SOAP_BODY = ('<soap11env:Envelope xmlns:soap11env="http://schemas.xmlsoap.org/soap/envelope/" '
        'xmlns:tns="tns"><soap11env:Body><tns:echo><tns:s>hello</tns:s></tns:echo>'
        '</soap11env:Body></soap11env:Envelope>').encode()
JSON_BODY = b'{"echo": {"s": "hello"}}'

failures = []
for name, prot, body, ctype in (('Soap11', Soap11, SOAP_BODY, 'text/xml; charset=utf-8'),
                                ('JsonDocument', JsonDocument, JSON_BODY, 'application/json')):
    wsgi_app = WsgiApplication(Application([EchoService], 'tns',
                                        in_protocol=prot(), out_protocol=prot()))

    for cl in ('auto', 'abc', '1e3', '12, 12', '0x10'):
        del user_calls[:]
        print("\n== %s, CONTENT_LENGTH=%r ==" % (name, str(len(body)) if cl == 'auto' else cl))
        env, inp = make_environ(body=body, content_length=cl, content_type=ctype)
        res = drive(wsgi_app, env)
        print("    bytes read from input:", inp.bytes_read, " user code calls:", user_calls)
        p = pep3333_problems(res)
        if cl == 'auto':
            if p or not res['calls'][0][0].startswith('200'):
                failures.append((name, "control", p))
            continue
        if not p and res['calls'][0][0].startswith('200') and inp.bytes_read > len(body):
            p.append("read past the body")
        for x in p:
            print("    VIOLATION:", x)
        if p:
            failures.append((name, cl, p))

print()
if failures:
    print("FAIL: C13 violated (for all CONTENT_LENGTH values: start_response exactly "
          "once, context closed exactly once):")
    for f in failures:
        print("  ", f)
    sys.exit(1)
print("OK")
