"""C17 / 2: an internal entity chain referenced at a child position of a
request element (between the members of the message / of a complex value /
of an array, or as the first thing in the soap Body) is not rejected as a
client fault.  resolve_entities=False leaves lxml ``_Entity`` nodes in the
tree, and the deserializers treat them as elements: ``c.tag.split()``,
``element.get(...).strip()`` and ``name.startswith()`` raise AttributeError,
which is not a Fault, so it escapes ServerBase.get_in_object() and
WsgiApplication.__call__() altogether.

Exits non-zero when a request makes the server raise a non-Fault exception or
answer with a Server fault.  Exits 0 when every request is answered with a
Client.* fault or is processed without the replacement text showing up.
"""

import logging
import re
import sys
import traceback
from io import BytesIO

logging.disable(logging.CRITICAL)

import spyne
from spyne import Application, rpc, ServiceBase, Unicode, ComplexModel, Array
from spyne.protocol.xml import XmlDocument
from spyne.protocol.soap import Soap11, Soap12
from spyne.server import ServerBase
from spyne.server.wsgi import WsgiApplication
from spyne.context import MethodContext

print("spyne from", spyne.__file__)

CAPTURED = []


class Item(ComplexModel):
    __namespace__ = 'tns'
    name = Unicode


class Svc(ServiceBase):
    @rpc(Unicode, Item, Array(Unicode), _returns=Unicode)
    def put(ctx, s, item, tags):
        CAPTURED.append((s, item and item.name, tags))
        return "stored"


def via_wsgi(app, body):
    env = {
        'REQUEST_METHOD': 'POST', 'PATH_INFO': '/', 'QUERY_STRING': '',
        'SERVER_NAME': 'localhost', 'SERVER_PORT': '80',
        'wsgi.url_scheme': 'http',
        'CONTENT_TYPE': 'text/xml; charset=utf-8',
        'CONTENT_LENGTH': str(len(body)), 'wsgi.input': BytesIO(body),
    }
    status = []
    out = b''.join(WsgiApplication(app)(env,
                                    lambda s, h, e=None: status.append(s)))
    return out


def via_server_base(app, body):
    server = ServerBase(app)
    initial_ctx = MethodContext(server, MethodContext.SERVER)
    initial_ctx.in_string = [body]
    ctx, = server.generate_contexts(initial_ctx)
    if ctx.in_error is None:
        server.get_in_object(ctx)
    if ctx.in_error is None:
        server.get_out_object(ctx)
    server.get_out_string(ctx)
    return b''.join(ctx.out_string)


def chain(depth, fan):
    """lol0 = "ha"; lol<n> = fan x &lol<n-1>;  (small enough to stay well
    under libxml2's amplification limit, so that the parser accepts it.)"""
    d = b'<!DOCTYPE r [<!ENTITY lol0 "ha">'
    for i in range(1, depth + 1):
        d += b'<!ENTITY lol%d "%s">' % (i, (b'&lol%d;' % (i - 1)) * fan)
    return d + b']>', b'&lol%d;' % depth


SOAP11 = b'http://schemas.xmlsoap.org/soap/envelope/'
SOAP12 = b'http://www.w3.org/2003/05/soap-envelope'


def envelope(ns):
    def wrap(doctype, inner):
        return (b'<?xml version="1.0"?>' + doctype +
                b'<e:Envelope xmlns:e="' + ns + b'" xmlns:t="tns"><e:Body>' +
                inner + b'</e:Body></e:Envelope>')
    return wrap


def bare(doctype, inner):
    return (b'<?xml version="1.0"?>' + doctype +
                       inner.replace(b'<t:put>', b'<t:put xmlns:t="tns">', 1))


def positions(ref):
    yield ("between the members of the request message",
        b'<t:put><t:s>a</t:s>' + ref + b'<t:item><t:name>n</t:name></t:item>'
        b'</t:put>')
    yield ("inside a complex value, next to its members",
        b'<t:put><t:item>' + ref + b'<t:name>n</t:name></t:item></t:put>')
    yield ("between the items of an array",
        b'<t:put><t:tags><t:string>x</t:string>' + ref +
        b'<t:string>y</t:string></t:tags></t:put>')


def classify(out):
    m = re.search(br'<faultcode>([^<]*)</faultcode>', out) or \
        re.search(br'Code>\s*<[^>]*Value>([^<]*)<', out)
    if m is None:
        return 'response'
    code = m.group(1).decode()
    return 'client-fault' if 'Client' in code or 'Sender' in code \
                                                    else 'fault:' + code


bad = 0
for depth, fan in ((1, 1), (6, 4)):
    doctype, ref = chain(depth, fan)
    for proto, wrap in ((XmlDocument, bare), (Soap11, envelope(SOAP11)),
                                                  (Soap12, envelope(SOAP12))):
        app = Application([Svc], 'tns', in_protocol=proto(),
                                                          out_protocol=proto())
        cases = list(positions(ref))
        if proto is not XmlDocument:
            cases.append(("first node of the soap Body",
                ref + b'<t:put><t:s>a</t:s></t:put>'))

        for where, inner in cases:
            for tname, transport in (('wsgi', via_wsgi),
                                              ('ServerBase', via_server_base)):
                del CAPTURED[:]
                try:
                    kind = classify(transport(app, wrap(doctype, inner)))
                    detail = ''
                except Exception as e:
                    kind = 'UNHANDLED'
                    tb = [f for f in traceback.extract_tb(sys.exc_info()[2])
                                        if '/spyne/' in f.filename][-1]
                    detail = ' %s: %s (%s:%d %s)' % (type(e).__name__, e,
                           tb.filename.split('/spyne/')[-1], tb.lineno, tb.name)

                ok = kind in ('client-fault', 'response')
                if not ok:
                    bad += 1
                print("chain depth=%d fan=%d %-11s %-10s %s\n    -> %s%s%s" % (
                    depth, fan, proto.__name__, tname, where, kind, detail,
                                                  '' if ok else '  VIOLATION'))

print()
if bad:
    print("FAIL: %d request(s) with an entity chain were not rejected as a "
          "client fault: a non-Fault exception escaped the server" % bad)
    sys.exit(1)

print("OK")
