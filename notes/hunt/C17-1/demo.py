"""C17 / 1: entities declared in the internal DTD subset -- internal general
entities AND internal parameter entities -- are expanded inside attribute
values, and their replacement text reaches user code and the response, with
the default (resolve_entities=False, load_dtd=False) parser settings.

Exits non-zero when replacement text of an entity is observed in user code or
in the response bytes; exits 0 when every request is either rejected with a
Client fault or handled without the replacement text appearing anywhere.
"""

import logging
import re
import sys
from io import BytesIO

logging.disable(logging.CRITICAL)

import spyne
from spyne import Application, rpc, ServiceBase, Unicode, Integer, \
    ComplexModel, XmlAttribute
from spyne.protocol.xml import XmlDocument
from spyne.protocol.soap import Soap11, Soap12
from spyne.server.wsgi import WsgiApplication

print("spyne from", spyne.__file__)

CAPTURED = []


class Item(ComplexModel):
    __namespace__ = 'tns'

    label = XmlAttribute(Unicode)
    qty = XmlAttribute(Integer)
    name = Unicode


class Svc(ServiceBase):
    @rpc(Item, _returns=Unicode)
    def put(ctx, item):
        CAPTURED.append((item.label, item.qty, item.name))
        return "stored"


def post(app, body):
    env = {
        'REQUEST_METHOD': 'POST', 'PATH_INFO': '/', 'QUERY_STRING': '',
        'SERVER_NAME': 'localhost', 'SERVER_PORT': '80',
        'wsgi.url_scheme': 'http',
        'CONTENT_TYPE': 'text/xml; charset=utf-8',
        'CONTENT_LENGTH': str(len(body)), 'wsgi.input': BytesIO(body),
    }
    status = []
    out = b''.join(WsgiApplication(app)(env, lambda s, h, e=None: status.append(s)))
    return status[0], out


SOAP11 = b'http://schemas.xmlsoap.org/soap/envelope/'
SOAP12 = b'http://www.w3.org/2003/05/soap-envelope'


def envelope(ns):
    def wrap(doctype, inner):
        return (b'<?xml version="1.0"?>' + doctype +
                b'<e:Envelope xmlns:e="' + ns + b'" xmlns:t="tns"><e:Body>' +
                inner + b'</e:Body></e:Envelope>')
    return wrap


def bare(doctype, inner):
    return (b'<?xml version="1.0"?>' + doctype +
                       inner.replace(b'<t:put>', b'<t:put xmlns:t="tns">', 1))


SECRET_GE = b'GENERAL-ENTITY-REPLACEMENT-TEXT'
SECRET_PE = b'PARAMETER-ENTITY-REPLACEMENT-TEXT'

ATTACKS = [
    ("internal general entity in an attribute value",
     b'<!DOCTYPE r [<!ENTITY g "' + SECRET_GE + b'">]>',
     b'<t:put><t:item label="&g;"><t:name>n</t:name></t:item></t:put>'),

    ("internal parameter entity that declares the entity used in an attribute",
     b'<!DOCTYPE r [<!ENTITY % p "<!ENTITY g \'' + SECRET_PE + b'\'>"> %p;]>',
     b'<t:put><t:item label="&g;"><t:name>n</t:name></t:item></t:put>'),

    ("entity in an Integer attribute: replacement text echoed by the fault",
     b'<!DOCTYPE r [<!ENTITY g "' + SECRET_GE + b'">]>',
     b'<t:put><t:item qty="&g;"><t:name>n</t:name></t:item></t:put>'),
]

bad = 0
for proto, wrap in ((XmlDocument, bare), (Soap11, envelope(SOAP11)),
                                                  (Soap12, envelope(SOAP12))):
    for validator in (None, 'soft'):
        app = Application([Svc], 'tns', in_protocol=proto(validator=validator),
                                                          out_protocol=proto())
        for title, doctype, inner in ATTACKS:
            del CAPTURED[:]
            status, out = post(app, wrap(doctype, inner))
            in_user = any(isinstance(v, str) and
                   (SECRET_GE.decode() in v or SECRET_PE.decode() in v)
                                           for t in CAPTURED for v in t)
            in_resp = SECRET_GE in out or SECRET_PE in out
            verdict = "ok"
            if in_user or in_resp:
                verdict = "VIOLATION"
                bad += 1
            print("%-11s validator=%-4s %s\n    status=%s user code got=%r\n"
                  "    replacement text in user code: %s, in response: %s -> %s"
                    % (proto.__name__, validator, title, status, CAPTURED,
                                                  in_user, in_resp, verdict))

print()
if bad:
    print("FAIL: %d request(s) had an entity from the request's DTD expanded "
          "and its replacement text delivered to user code / the response"
                                                                         % bad)
    sys.exit(1)

print("OK: no entity replacement text observed")
