"""C06 / 1 -- xml_choice_group members are published at the END of the
xs:sequence, but serialised in declaration order.

A class that declares a choice-group member before an ordinary member gets a
schema that says  sequence(b, choice(a, c))  while XmlDocument/Soap11 emit
<a/> before <b/>.  Spyne's own response is invalid against Spyne's own schema,
and a Spyne server running validator='lxml' rejects the very document another
Spyne peer emits for a conformant value.
"""

import sys
import copy
import logging
import warnings
logging.disable(logging.CRITICAL)
warnings.simplefilter('ignore')

from io import BytesIO
from lxml import etree

import spyne
print("spyne from:", spyne.__file__)

from spyne import Application, Service, rpc
from spyne.model import ComplexModel, Integer, Unicode
from spyne.protocol.soap import Soap11
from spyne.server.wsgi import WsgiApplication
from spyne.interface.xml_schema import XmlSchema

NS = 'urn:c06:choice'


class Payment(ComplexModel):
    __namespace__ = NS
    _type_info = [
        # exactly one of card / iban is sent ...
        ('card', Unicode(xml_choice_group='method', min_occurs=0)),
        ('iban', Unicode(xml_choice_group='method', min_occurs=0)),
        # ... followed by an ordinary member
        ('amount', Integer(min_occurs=1, nillable=False)),
    ]


class Svc(Service):
    @rpc(_returns=Payment)
    def get(ctx):
        return Payment(card='4111', amount=5)

    @rpc(Payment, _returns=Unicode)
    def put(ctx, p):
        return "card=%r amount=%r" % (p.card, p.amount)


def call(app, body):
    env = {
        'REQUEST_METHOD': 'POST', 'PATH_INFO': '/', 'QUERY_STRING': '',
        'CONTENT_TYPE': 'text/xml; charset=utf-8',
        'CONTENT_LENGTH': str(len(body)), 'SERVER_NAME': 'localhost',
        'SERVER_PORT': '80', 'wsgi.url_scheme': 'http',
        'wsgi.input': BytesIO(body), 'wsgi.errors': sys.stderr,
        'SERVER_PROTOCOL': 'HTTP/1.1',
    }
    st = []
    out = b''.join(WsgiApplication(app)(env, lambda s, h, e=None: st.append(s)))
    return st[0], out


ENV = '<e:Envelope xmlns:e="http://schemas.xmlsoap.org/soap/envelope/" ' \
      'xmlns:t="%s"><e:Body>%%s</e:Body></e:Envelope>' % NS

app = Application([Svc], NS, name='ChoiceApp',
                    in_protocol=Soap11(validator='lxml'), out_protocol=Soap11())

# 1. the schema compiles
xs = XmlSchema(app.interface)
xs.build_validation_schema()
schema = xs.validation_schema
xs.build_interface_document()
ct = [e for e in xs.get_interface_document()['tns']
                                          if e.get('name') == 'Payment'][0]
print("--- published type")
ct = copy.deepcopy(ct)
etree.cleanup_namespaces(ct)
print(etree.tostring(ct, pretty_print=True).decode())

# 2. the response Spyne emits for a conformant value
status, out = call(app, (ENV % '<t:get/>').encode())
payload = etree.fromstring(out)[0][0]
print("--- emitted response (%s)" % status)
print(etree.tostring(payload, pretty_print=True).decode())

failures = []

ok = schema.validate(payload)
print("emitted response valid against the published schema:", ok)
if not ok:
    print("   ", schema.error_log.last_error)
    failures.append("response invalid against own schema")

# 3. hand the very same <Payment> content back to Spyne as a request
result = payload[0]
req = etree.Element('{%s}put' % NS)
p = etree.SubElement(req, '{%s}p' % NS)
for child in result:
    p.append(etree.fromstring(etree.tostring(child)))
body = (ENV % etree.tostring(req).decode()).encode()
status, out = call(app, body)
print("--- feeding Spyne's own serialisation back with validator='lxml':",
                                                                        status)
print(out.decode()[:600])
if not status.startswith('200'):
    failures.append("own serialisation rejected by validator='lxml'")

if failures:
    print("\nVIOLATION:", "; ".join(failures))
    sys.exit(1)

print("\nOK")
