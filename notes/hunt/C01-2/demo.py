# -*- coding: utf-8 -*-
"""C01 / 2: Date(date_format=...) under Soap11/Soap12.

Soap11.__init__ forces ISO 8601 for *reading* Date (and for reading and writing
DateTime/Time) -- Date.Attributes.date_format is documented as "Ignored by
protocols like SOAP" -- but it forgets the *writer* for Date.  So the server
answers with a non-ISO xs:date, and the Spyne client's own request is rejected
by the Spyne server."""

import io, sys, logging, datetime
logging.basicConfig(level=logging.CRITICAL)

import spyne
print("spyne from", spyne.__file__)

from lxml import etree
from spyne import Application, srpc, Service, Date
from spyne.protocol.soap import Soap11, Soap12
from spyne.server.wsgi import WsgiApplication
from spyne.client import RemoteProcedureBase, RemoteService, ClientBase
from spyne.interface.xml_schema import XmlSchema

TNS = 'urn:t'
ENV = {Soap11: 'http://schemas.xmlsoap.org/soap/envelope/',
       Soap12: 'http://www.w3.org/2003/05/soap-envelope'}
CT = {Soap11: 'text/xml; charset=utf-8',
      Soap12: 'application/soap+xml; charset=utf-8'}

EuroDate = Date(date_format='%d/%m/%Y')

received = []


class DateService(Service):
    @srpc(EuroDate, _returns=EuroDate)
    def next_day(d):
        received.append(d)
        return d + datetime.timedelta(days=1)


def post(wsgi, body, ctype):
    env = {'REQUEST_METHOD': 'POST', 'PATH_INFO': '/', 'QUERY_STRING': '',
           'SERVER_NAME': 'x', 'SERVER_PORT': '80', 'SCRIPT_NAME': '',
           'wsgi.url_scheme': 'http', 'CONTENT_TYPE': ctype,
           'CONTENT_LENGTH': str(len(body)), 'wsgi.input': io.BytesIO(body),
           'wsgi.errors': sys.stderr}
    st = {}
    def start_response(status, headers, exc_info=None):
        st['status'] = status
    out = b''.join(wsgi(env, start_response))
    return st['status'], out


class _LoopbackProcedure(RemoteProcedureBase):
    """The Spyne client, with the HTTP hop replaced by a direct WSGI call."""
    def __call__(self, *args, **kwargs):
        ctx = self.contexts[0]
        self.get_out_object(ctx, args, kwargs)
        self.get_out_string(ctx)
        self.request = b''.join(ctx.out_string)
        status, out = post(self.url, self.request, CT[type(self.app.out_protocol)])
        ctx.in_string = [out]
        self.get_in_object(ctx)
        if ctx.in_error is not None:
            raise ctx.in_error
        return ctx.in_object


class LoopbackClient(ClientBase):
    def __init__(self, wsgi, app):
        super(LoopbackClient, self).__init__(wsgi, app)
        self.service = RemoteService(_LoopbackProcedure, wsgi, app)


failures = 0
for proto in (Soap11, Soap12):
    for validator in (None, 'soft', 'lxml'):
        app = Application([DateService], TNS,
                 in_protocol=proto(validator=validator), out_protocol=proto())
        wsgi = WsgiApplication(app)
        xs = XmlSchema(app.interface)
        xs.build_validation_schema()

        # 1. a schema-driven client sends the xs:date the WSDL asks for
        req = (u'<e:Envelope xmlns:e="%s"><e:Body><t:next_day xmlns:t="urn:t">'
               u'<t:d>2020-12-30</t:d></t:next_day></e:Body></e:Envelope>'
                                                   % ENV[proto]).encode('utf8')
        del received[:]
        status, out = post(wsgi, req, CT[proto])
        doc = etree.fromstring(out)
        res = doc.xpath('//t:next_dayResult', namespaces={'t': TNS})
        text = res[0].text if res else None
        body = doc.xpath('//t:next_dayResponse', namespaces={'t': TNS})
        valid = len(body) == 1 and xs.validation_schema.validate(body[0])
        ok = received == [datetime.date(2020, 12, 30)] and text == '2020-12-31' \
                                                                     and valid
        print("%s validator=%-5s raw ISO request: function got %r; response "
              "next_dayResult=%r; valid against published schema: %s  %s" % (
              proto.__name__, validator, received, text, valid,
                                                "ok" if ok else "VIOLATION"))
        if not valid and len(body) == 1:
            print("      schema says:", xs.validation_schema.error_log.last_error)
        failures += not ok

        # 2. the Spyne client talks to the Spyne server
        del received[:]
        client = LoopbackClient(wsgi, app)
        proc = client.service.next_day
        try:
            ret = proc(datetime.date(2020, 12, 30))
            err = None
        except Exception as e:
            ret, err = None, e
        sent = etree.fromstring(proc.request).xpath('//t:d/text()',
                                                        namespaces={'t': TNS})
        ok = received == [datetime.date(2020, 12, 30)] \
                                      and ret == datetime.date(2020, 12, 31)
        print("%s validator=%-5s spyne client : sent <d>%s</d>; function got "
              "%r; client got %r %s  %s" % (proto.__name__, validator,
                  sent[0] if sent else None, received, ret,
                  ("(%s: %s)" % (type(err).__name__, str(err)[:90])) if err else "",
                                                "ok" if ok else "VIOLATION"))
        failures += not ok

print()
if failures:
    print("%d checks failed: Date(date_format=...) is written with the custom "
          "format but read as ISO 8601" % failures)
    sys.exit(1)
print("all dates made the round trip")
