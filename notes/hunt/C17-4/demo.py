"""C17 / 4: a request with a huge number of attributes on one element -- here
namespace declarations on the root -- is not processed in bounded (linear)
time: XmlDocument.from_element() evaluates ``element.nsmap`` for every element
that carries an xsi:type attribute, and lxml rebuilds that dict from *all*
in-scope declarations on every access.  M declarations x N typed elements cost
M*N dict insertions: a 0.6 MB request (M=N=10000) keeps the worker busy for
~15 s, a 1.2 MB one (well under the 2 MB WSGI request limit) for more than a
minute, while the same bytes without xsi:type take ~0.1 s.

Exits non-zero when the attack request costs far more than the control
request of the same size and the cost grows quadratically; exits 0 otherwise.
"""

import logging
import sys
import time
from io import BytesIO

logging.disable(logging.CRITICAL)

import spyne
from spyne import Application, rpc, ServiceBase, Unicode, Integer, Array
from spyne.protocol.xml import XmlDocument
from spyne.protocol.soap import Soap11, Soap12
from spyne.server.wsgi import WsgiApplication

print("spyne from", spyne.__file__)


class Svc(ServiceBase):
    @rpc(Array(Unicode), _returns=Integer)
    def count(ctx, tags):
        return len(tags)


def post(app, body):
    env = {
        'REQUEST_METHOD': 'POST', 'PATH_INFO': '/', 'QUERY_STRING': '',
        'SERVER_NAME': 'localhost', 'SERVER_PORT': '80',
        'wsgi.url_scheme': 'http',
        'CONTENT_TYPE': 'text/xml; charset=utf-8',
        'CONTENT_LENGTH': str(len(body)), 'wsgi.input': BytesIO(body),
    }
    status = []
    t = time.time()
    out = b''.join(WsgiApplication(app)(env,
                                    lambda s, h, e=None: status.append(s)))
    return status[0], out, time.time() - t


NS_XSI = b'http://www.w3.org/2001/XMLSchema-instance'
NS_XS = b'http://www.w3.org/2001/XMLSchema'


def request(proto, m, n, attr):
    decls = b' '.join(b'xmlns:p%d="urn:x:%d"' % (i, i) for i in range(m))
    inner = (b'<t:count xmlns:t="tns" xmlns:i="' + NS_XSI + b'" xmlns:xs="'
        + NS_XS + b'" ' + decls + b'><t:tags>'
        + (b'<t:string ' + attr + b'="xs:string">a</t:string>') * n
        + b'</t:tags></t:count>')

    if proto is XmlDocument:
        return b'<?xml version="1.0"?>' + inner

    ns = (b'http://schemas.xmlsoap.org/soap/envelope/' if proto is Soap11
                             else b'http://www.w3.org/2003/05/soap-envelope')
    return (b'<?xml version="1.0"?><e:Envelope xmlns:e="' + ns + b'"><e:Body>'
                                        + inner + b'</e:Body></e:Envelope>')


bad = 0
for proto in (XmlDocument, Soap11, Soap12):
    app = Application([Svc], 'tns', in_protocol=proto(), out_protocol=proto())
    times = []
    for size in (2000, 4000):
        # control: exactly the same bytes, except that the per-item attribute
        # is i:kind (ignored) instead of i:type.
        body_c = request(proto, size, size, b'i:kind')
        body_a = request(proto, size, size, b'i:type')
        assert len(body_c) == len(body_a)

        st_c, out_c, t_c = post(app, body_c)
        st_a, out_a, t_a = post(app, body_a)
        assert b'>%d<' % size in out_c and b'>%d<' % size in out_a, \
                                                               (out_c, out_a)
        times.append((t_c, t_a))
        print("%-11s %5d xmlns declarations on the root, %5d items, "
              "%7d bytes: control %.3fs, with xsi:type %.3fs (x%.0f)" % (
                   proto.__name__, size, size, len(body_a), t_c, t_a,
                                                       t_a / max(t_c, 1e-3)))

    (c1, a1), (c2, a2) = times
    growth = a2 / max(a1, 1e-3)
    blown = a2 > 10 * c2 + 0.5 and growth > 3
    print("    doubling the request multiplies the time by %.1f "
          "(linear would be ~2) -> %s" % (growth,
                                 "VIOLATION" if blown else "ok"))
    if blown:
        bad += 1

print()
if bad:
    print("FAIL: request time is quadratic in the request size "
          "(attribute count x element count)")
    sys.exit(1)

print("OK")
