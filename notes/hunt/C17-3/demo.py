"""C17 / 3: with validator='lxml' (schema validation, the documented strict
mode of XmlDocument / Soap11 / Soap12) a request that contains an entity
reference at a *text* position is not rejected as a client fault.

resolve_entities=False leaves entity-reference nodes in the tree; libxml2's
schema validator refuses such trees with an *internal error*, which lxml
reports by raising XMLSchemaValidateError from XMLSchema.validate() instead of
returning False.  XmlDocument.__validate_lxml only handles the ``False``
return value, so the exception (not a Fault) escapes validate_body(),
ServerBase.generate_contexts() and WsgiApplication.__call__().

Exits non-zero when such a request makes the server raise a non-Fault
exception / Server fault; exits 0 when every request gets a Client.* fault.
"""

import logging
import re
import sys
import traceback
from io import BytesIO

logging.disable(logging.CRITICAL)

import spyne
from spyne import Application, rpc, ServiceBase, Unicode, AnyXml
from spyne.protocol.xml import XmlDocument
from spyne.protocol.soap import Soap11, Soap12
from spyne.server import ServerBase
from spyne.server.wsgi import WsgiApplication
from spyne.context import MethodContext

print("spyne from", spyne.__file__)

CAPTURED = []


class Svc(ServiceBase):
    @rpc(Unicode, AnyXml, _returns=Unicode)
    def put(ctx, s, x):
        CAPTURED.append((s, x))
        return "stored"


def via_wsgi(app, body):
    env = {
        'REQUEST_METHOD': 'POST', 'PATH_INFO': '/', 'QUERY_STRING': '',
        'SERVER_NAME': 'localhost', 'SERVER_PORT': '80',
        'wsgi.url_scheme': 'http',
        'CONTENT_TYPE': 'text/xml; charset=utf-8',
        'CONTENT_LENGTH': str(len(body)), 'wsgi.input': BytesIO(body),
    }
    status = []
    out = b''.join(WsgiApplication(app)(env,
                                    lambda s, h, e=None: status.append(s)))
    return out


def via_server_base(app, body):
    server = ServerBase(app)
    initial_ctx = MethodContext(server, MethodContext.SERVER)
    initial_ctx.in_string = [body]
    ctx, = server.generate_contexts(initial_ctx)
    if ctx.in_error is None:
        server.get_in_object(ctx)
    if ctx.in_error is None:
        server.get_out_object(ctx)
    server.get_out_string(ctx)
    return b''.join(ctx.out_string)


SOAP11 = b'http://schemas.xmlsoap.org/soap/envelope/'
SOAP12 = b'http://www.w3.org/2003/05/soap-envelope'


def envelope(ns):
    def wrap(doctype, inner):
        return (b'<?xml version="1.0"?>' + doctype +
                b'<e:Envelope xmlns:e="' + ns + b'" xmlns:t="tns"><e:Body>' +
                inner + b'</e:Body></e:Envelope>')
    return wrap


def bare(doctype, inner):
    return (b'<?xml version="1.0"?>' + doctype +
                       inner.replace(b'<t:put>', b'<t:put xmlns:t="tns">', 1))


def classify(out):
    m = re.search(br'<faultcode>([^<]*)</faultcode>', out) or \
        re.search(br'Code>\s*<[^>]*Value>([^<]*)<', out)
    if m is None:
        return 'response'
    code = m.group(1).decode()
    return 'client-fault' if 'Client' in code or 'Sender' in code \
                                                    else 'fault:' + code


def chain(depth, fan):
    d = b'<!DOCTYPE r [<!ENTITY lol0 "ha">'
    for i in range(1, depth + 1):
        d += b'<!ENTITY lol%d "%s">' % (i, (b'&lol%d;' % (i - 1)) * fan)
    return d + b']>', b'&lol%d;' % depth


CANARY = b'file:///etc/hostname'

ATTACKS = []
for depth, fan in ((1, 1), (6, 4)):
    doctype, ref = chain(depth, fan)
    ATTACKS.append(("internal entity chain depth=%d fan=%d in a string value"
                                                                % (depth, fan),
        doctype, b'<t:put><t:s>x' + ref + b'y</t:s></t:put>'))
ATTACKS.append(("external general entity (never loaded) in a string value",
        b'<!DOCTYPE r [<!ENTITY f SYSTEM "' + CANARY + b'">]>',
        b'<t:put><t:s>&f;</t:s></t:put>'))
ATTACKS.append(("internal entity inside an AnyXml value",
        b'<!DOCTYPE r [<!ENTITY g "v">]>',
        b'<t:put><t:x><doc>&g;</doc></t:x></t:put>'))

bad = 0
for proto, wrap in ((XmlDocument, bare), (Soap11, envelope(SOAP11)),
                                                  (Soap12, envelope(SOAP12))):
    app = Application([Svc], 'tns', in_protocol=proto(validator='lxml'),
                                                          out_protocol=proto())

    # the control: a plain invalid document is a client fault, as it should be
    try:
        control = classify(via_wsgi(app,
                                   wrap(b'', b'<t:put><t:bogus/></t:put>')))
    except Exception as e:
        # (Soap12 cannot serialize a SchemaValidationError whose text is
        # bytes -- an unrelated defect; not counted here.)
        control = 'n/a (%s while serializing the fault)' % type(e).__name__
    print("%-11s control (schema-invalid request) -> %s"
                                                  % (proto.__name__, control))

    for title, doctype, inner in ATTACKS:
        for tname, transport in (('wsgi', via_wsgi),
                                              ('ServerBase', via_server_base)):
            del CAPTURED[:]
            try:
                kind = classify(transport(app, wrap(doctype, inner)))
                detail = ''
            except Exception as e:
                kind = 'UNHANDLED'
                tb = [f for f in traceback.extract_tb(sys.exc_info()[2])
                                        if '/spyne/' in f.filename][-1]
                detail = ' %s: %s (%s:%d %s)' % (type(e).__name__, e,
                       tb.filename.split('/spyne/')[-1], tb.lineno, tb.name)

            ok = kind == 'client-fault'
            if proto is Soap12 and kind == 'UNHANDLED' and \
                                             'schema_validation_error' in detail:
                # the request *was* rejected as a SchemaValidationError; Soap12
                # failing to serialize that fault is the unrelated defect
                # mentioned above.
                ok = True
                detail += ' [unrelated, not counted]'
            if not ok:
                bad += 1
            print("%-11s %-10s %s\n    -> %s%s%s" % (proto.__name__, tname,
                       title, kind, detail, '' if ok else '  VIOLATION'))

print()
if bad:
    print("FAIL: %d request(s) were not rejected as a client fault by the "
          "schema-validating protocol: a non-Fault exception escaped" % bad)
    sys.exit(1)

print("OK")
