# -*- coding: utf-8 -*-
"""C01 / 1: a complex type whose element text is an XmlData(Unicode) member can
not carry non-ASCII text: the function receives the value, but the response can
not be built (ValueError inside lxml) and the caller gets a 500 with an empty
envelope instead of the value the function returned."""

import io, sys, logging
logging.basicConfig(level=logging.CRITICAL)

import spyne
print("spyne from", spyne.__file__)

from lxml import etree
from spyne import Application, srpc, Service, ComplexModel, Unicode, \
    XmlAttribute, XmlData
from spyne.protocol.soap import Soap11, Soap12
from spyne.protocol.xml import XmlDocument
from spyne.server.wsgi import WsgiApplication

TNS = 'urn:t'
ENV = {Soap11: 'http://schemas.xmlsoap.org/soap/envelope/',
       Soap12: 'http://www.w3.org/2003/05/soap-envelope'}
CT = {Soap11: 'text/xml; charset=utf-8',
      Soap12: 'application/soap+xml; charset=utf-8',
      XmlDocument: 'text/xml; charset=utf-8'}


class Note(ComplexModel):
    __namespace__ = TNS
    lang = XmlAttribute(Unicode)
    text = XmlData(Unicode)


received = []


class NoteService(Service):
    @srpc(Note, _returns=Note)
    def echo(n):
        received.append(n)
        return n


def post(wsgi, body, ctype):
    env = {'REQUEST_METHOD': 'POST', 'PATH_INFO': '/', 'QUERY_STRING': '',
           'SERVER_NAME': 'x', 'SERVER_PORT': '80', 'SCRIPT_NAME': '',
           'wsgi.url_scheme': 'http', 'CONTENT_TYPE': ctype,
           'CONTENT_LENGTH': str(len(body)), 'wsgi.input': io.BytesIO(body),
           'wsgi.errors': sys.stderr}
    st = {}
    def start_response(status, headers, exc_info=None):
        st['status'] = status
    out = b''.join(wsgi(env, start_response))
    return st['status'], out


failures = 0
for proto in (Soap11, Soap12, XmlDocument):
    for validator in (None, 'soft', 'lxml'):
        for text in (u'cafe', u'caf\xe9 €'):
            app = Application([NoteService], TNS,
                in_protocol=proto(validator=validator), out_protocol=proto())
            wsgi = WsgiApplication(app)

            payload = u'<t:echo xmlns:t="urn:t"><t:n lang="fr">%s</t:n></t:echo>' % text
            if proto in ENV:
                payload = u'<e:Envelope xmlns:e="%s"><e:Body>%s</e:Body>' \
                          u'</e:Envelope>' % (ENV[proto], payload)

            del received[:]
            status, out = post(wsgi, payload.encode('utf8'), CT[proto])

            got = [n.text for n in received]
            doc = etree.fromstring(out)
            res = doc.xpath('//t:echoResult', namespaces={'t': TNS})
            ret = res[0].text if res else None

            ok = status.startswith('200') and got == [text] and ret == text
            print("%-11s validator=%-5s sent text=%r -> function got %r, "
                  "HTTP %s, echoResult text=%r  %s" % (proto.__name__, validator,
                          text, got, status, ret, "ok" if ok else "VIOLATION"))
            if not ok:
                failures += 1

print()
if failures:
    print("%d configurations lose the value the function returned" % failures)
    sys.exit(1)
print("all values made the round trip")
