"""C15 / 2: customizing a Decimal/Integer type recomputes max_str_len from the
PARENT's total_digits instead of keeping the parent's max_str_len, so a
derivative that only asks for e.g. min_occurs=1 silently loses the length cap
of its parent (and gives different validation verdicts for the same input).

    Integer32.Attributes.max_str_len                  == 11
    Integer32(min_occurs=1).Attributes.max_str_len    == Infinity
    Decimal(max_str_len=10)(nillable=False)           -> Infinity
"""

import sys
import logging
logging.disable(logging.CRITICAL)

import spyne
print("spyne from", spyne.__file__)

from spyne import Application, rpc, ServiceBase
from spyne.model.primitive import Integer32, Decimal, Unicode
from spyne.protocol.http import HttpRpc
from spyne.protocol.json import JsonDocument
from spyne.server.wsgi import WsgiApplication

failures = []

# 1. attribute level ----------------------------------------------------------
I32 = Integer32
I32M = Integer32(min_occurs=1)             # only min_occurs was requested
D10 = Decimal(max_str_len=10)
D10N = D10(nillable=False)                 # only nillable was requested

print("Integer32.max_str_len               =", I32.Attributes.max_str_len)
print("Integer32(min_occurs=1).max_str_len =", I32M.Attributes.max_str_len)
print("Decimal(max_str_len=10).max_str_len =", D10.Attributes.max_str_len)
print("...(nillable=False).max_str_len     =", D10N.Attributes.max_str_len)

if I32M.Attributes.max_str_len != I32.Attributes.max_str_len:
    failures.append("Integer32(min_occurs=1) changed max_str_len %r -> %r"
             % (I32.Attributes.max_str_len, I32M.Attributes.max_str_len))
if D10N.Attributes.max_str_len != 10:
    failures.append("Decimal(max_str_len=10)(nillable=False) changed "
                    "max_str_len 10 -> %r" % (D10N.Attributes.max_str_len,))

# 2. verdicts through a served application ------------------------------------
PROBE = '0' * 20 + '7'       # 21 characters, numeric value 7


class Svc(ServiceBase):
    @rpc(I32, _returns=Unicode)
    def plain(ctx, a):
        return 'accepted %r' % (a,)

    @rpc(I32M, _returns=Unicode)
    def derived(ctx, a):
        return 'accepted %r' % (a,)

    @rpc(D10, _returns=Unicode)
    def dplain(ctx, a):
        return 'accepted %r' % (a,)

    @rpc(D10N, _returns=Unicode)
    def dderived(ctx, a):
        return 'accepted %r' % (a,)


app = Application([Svc], 'tns', in_protocol=HttpRpc(validator='soft'),
                                out_protocol=JsonDocument())
wsgi = WsgiApplication(app)


def call(method, value):
    status = []
    env = {
        'REQUEST_METHOD': 'GET', 'PATH_INFO': '/' + method,
        'QUERY_STRING': 'a=' + value, 'SERVER_NAME': 'localhost',
        'SERVER_PORT': '80', 'wsgi.url_scheme': 'http',
        'wsgi.input': None, 'SCRIPT_NAME': '',
    }
    body = b''.join(wsgi(env, lambda s, h: status.append(s)))
    return status[0], body.decode('utf8')


results = {}
for m in ('plain', 'derived', 'dplain', 'dderived'):
    results[m] = call(m, PROBE)
    print("GET /%-8s?a=%s -> %s %s" % (m, PROBE, results[m][0],
                                                        results[m][1][:90]))

if results['plain'][0] != results['derived'][0]:
    failures.append("same input %r: Integer32 answers %r, "
        "Integer32(min_occurs=1) answers %r" % (PROBE, results['plain'][0],
                                                     results['derived'][0]))
if results['dplain'][0] != results['dderived'][0]:
    failures.append("same input %r: Decimal(max_str_len=10) answers %r, its "
        "derivative with nillable=False answers %r" % (PROBE,
                             results['dplain'][0], results['dderived'][0]))

print()
if failures:
    print("PROPERTY C15 VIOLATED:")
    for f in failures:
        print("  *", f)
    sys.exit(1)

print("ok")
