"""C02 / 4: {"method": null} for a BARE method whose argument is an object or
an array calls the function with a list of Nones instead of None.

HierDictDocument.deserialize() turns a null message into
`[None] * len(body_class._type_info)`: one None per argument.  That is right for
a wrapped message (in_object is the argument list) but for a bare method
in_object IS the single argument, and body_class._type_info are the fields of
the argument's class.
"""
from __future__ import print_function

import sys, json, logging
logging.disable(logging.CRITICAL)

import msgpack, yaml

import spyne
print("spyne from", spyne.__file__)

from spyne import Application, Service, rpc, ComplexModel, Integer, Unicode, \
    Decimal, Array, MethodContext
from spyne.server import ServerBase
from spyne.protocol.json import JsonDocument
from spyne.protocol.yaml import YamlDocument
from spyne.protocol.msgpack import MessagePackDocument

SEEN = []


class C(ComplexModel):
    i = Integer
    s = Unicode
    d = Decimal


class Svc(Service):
    @rpc(C, _body_style='bare', _returns=C)
    def bare_obj(ctx, v):
        SEEN.append(v)
        return v

    @rpc(Array(Integer), _body_style='bare', _returns=Array(Integer))
    def bare_array(ctx, v):
        SEEN.append(v)
        return v

    # for comparison
    @rpc(Integer, _body_style='bare', _returns=Integer)
    def bare_int(ctx, v):
        SEEN.append(v)
        return v

    @rpc(C, _returns=C)
    def wrapped_obj(ctx, v):
        SEEN.append(v)
        return v


def call(app, in_string):
    server = ServerBase(app)
    initial_ctx = MethodContext(server, MethodContext.SERVER)
    initial_ctx.in_string = [in_string]
    ctx, = server.generate_contexts(initial_ctx)
    if ctx.in_error is None:
        server.get_in_object(ctx)
    if ctx.in_error is None:
        server.get_out_object(ctx)
    else:
        ctx.out_error = ctx.in_error
    server.get_out_string(ctx)
    return b''.join(ctx.out_string)


WIRES = [
    ('JsonDocument', JsonDocument,
        lambda d: json.dumps(d).encode('utf8'), lambda s: json.loads(s)),
    ('YamlDocument', YamlDocument,
        lambda d: yaml.safe_dump(d).encode('utf8'), lambda s: yaml.safe_load(s)),
    ('MessagePackDocument', MessagePackDocument,
        lambda d: msgpack.packb(d), lambda s: msgpack.unpackb(s)),
]

failures = 0
n = 0
for pname, pcls, dumps, loads in WIRES:
    for complex_as in (dict, list):
        for validator in (None, 'soft'):
            n += 1
            app = Application([Svc], 'tns', name='App%d' % n,
                in_protocol=pcls(validator=validator, complex_as=complex_as),
                out_protocol=pcls(complex_as=complex_as))

            print("%s(complex_as=%s, validator=%r)" % (pname,
                                              complex_as.__name__, validator))
            ok = True
            for method, doc in (('bare_int', {'bare_int': None}),
                                ('wrapped_obj', {'wrapped_obj': {'v': None}}),
                                ('bare_obj', {'bare_obj': None}),
                                ('bare_array', {'bare_array': None})):
                SEEN[:] = []
                try:
                    out = loads(call(app, dumps(doc)))
                except Exception as e:
                    out = "server raised %s: %s" % (type(e).__name__, e)

                good = len(SEEN) == 1 and SEEN[0] is None
                # (what a None result looks like is the subject of demo 1; only
                # the argument is judged here)
                print("    %-30s -> function received %-22r %s" % (
                    json.dumps(doc), SEEN[0] if len(SEEN) == 1 else SEEN,
                    "" if good else "<-- WRONG, expected None"))
                ok &= good

            if not ok:
                failures += 1

print()
if failures:
    print("VIOLATION: in %d of %d configurations a null bare message is not "
          "None inside the function" % (failures, n))
    sys.exit(1)

print("OK")
