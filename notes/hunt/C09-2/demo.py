# -*- coding: utf-8 -*-
"""C09 / 2 -- a Fault raised by a generator method after its first ``yield``
is caught by the catch-all around response serialisation in
WsgiApplication.handle_rpc and replaced by Fault('Server', 'Internal Error'):
code, message and detail are lost and the HTTP status is 500 instead of
400 / 404 / 401.

Run: cd /tmp/wth/C09 && PYTHONPATH=/tmp/wth/C09 /venv/bin/python /tmp/hunt/C09/2/demo.py
"""
from __future__ import print_function

import json
import logging
import sys
import warnings
from io import BytesIO

warnings.simplefilter('ignore')
logging.disable(logging.CRITICAL)

import spyne
from spyne import Application, Service, srpc, Fault, Unicode, Iterable
from spyne.error import ResourceNotFoundError, InvalidCredentialsError
from spyne.protocol.http import HttpRpc
from spyne.protocol.json import JsonDocument
from spyne.server.wsgi import WsgiApplication

print("spyne loaded from", spyne.__file__)

DETAIL = {'row': {'no': u'2', 'cols': [u'a', u'ü']}}


class Svc(Service):
    @srpc(Unicode, _returns=Iterable(Unicode))
    def rows(kind):
        yield u'ROW-1'
        # the problem is discovered while streaming the second row
        if kind == 'client':
            raise Fault('Client.Row.Broken', u'satır bozuk ü中', detail=DETAIL)
        if kind == 'server':
            raise Fault('Server.Storage.Offline', u'depo kapalı')
        if kind == '404':
            raise ResourceNotFoundError('row 2')
        if kind == '401':
            raise InvalidCredentialsError()
        yield u'ROW-2'


def call(kind, chunked):
    app = Application([Svc], 'tns', in_protocol=HttpRpc(),
                                                   out_protocol=JsonDocument())
    seen = {}

    def start_response(status, headers, exc_info=None):
        seen['status'] = status

    env = {
        'REQUEST_METHOD': 'GET', 'PATH_INFO': '/rows',
        'QUERY_STRING': 'kind=' + kind, 'CONTENT_TYPE': '',
        'CONTENT_LENGTH': '0', 'wsgi.input': BytesIO(b''),
        'SERVER_NAME': 'localhost', 'SERVER_PORT': '80',
        'wsgi.url_scheme': 'http',
    }
    body = b''.join(WsgiApplication(app, chunked=chunked)(env, start_response))
    return seen['status'], body


EXPECTED = {
    'client': ('400', 'Client.Row.Broken', u'satır bozuk ü中', DETAIL),
    'server': ('500', 'Server.Storage.Offline', u'depo kapalı', None),
    '404': ('404', 'Client.ResourceNotFound',
                               u"Requested resource 'row 2' not found", None),
    '401': ('401', 'Client.InvalidCredentialsError',
               u'You do not have permission to access this resource.', None),
}

failures = []
for chunked in (True, False):
    status, body = call('ok', chunked)
    assert status.startswith('200'), status
    assert json.loads(body.decode()) == ['ROW-1', 'ROW-2'], body

    for kind in ('client', 'server', '404', '401'):
        status, body = call(kind, chunked)
        doc = json.loads(body.decode())
        ex_status, ex_code, ex_string, ex_detail = EXPECTED[kind]
        print("chunked=%-5s %-6s -> %s %s" % (chunked, kind, status, body))

        ok = (status.startswith(ex_status)
              and isinstance(doc, dict)
              and doc.get('faultcode') == ex_code
              and doc.get('faultstring') == ex_string
              and doc.get('detail') == ex_detail
              and b'ROW-1' not in body)
        if not ok:
            failures.append(
                "chunked=%s: method raised %s / %r (expected HTTP %s) but the "
                "client got HTTP %s with %r" % (chunked, ex_code, ex_string,
                                                   ex_status, status, doc))

print()
if failures:
    print("PROPERTY C09 VIOLATED:")
    for f in failures:
        print("  -", f)
    sys.exit(1)

print("OK: faults raised while streaming reach the client intact")
