"""C08 / 1: Decimal values whose str() uses exponent notation are written as
'1E-7' / '1E+2', which is outside the lexical space of xs:decimal."""
from __future__ import print_function

import sys
import logging
logging.disable(logging.CRITICAL)

from decimal import Decimal as D
from io import BytesIO

from lxml import etree

import spyne
from spyne import Application, rpc, ServiceBase
from spyne.model import Decimal, Integer
from spyne.protocol.soap import Soap11
from spyne.server.wsgi import WsgiApplication

print("spyne from", spyne.__file__)

RESULTS = [D('0.0000001'), D('100').normalize(), D('2.5E+3')]


class S(ServiceBase):
    @rpc(Integer, _returns=Decimal)
    def get(ctx, i):
        return RESULTS[i]

    @rpc(Decimal, _returns=Decimal)
    def echo(ctx, v):
        return v


app = Application([S], 'tns', in_protocol=Soap11(validator='lxml'),
                                                        out_protocol=Soap11())
wsgi = WsgiApplication(app)


def call(method, arg, literal):
    body = ('<soap:Envelope xmlns:soap="http://schemas.xmlsoap.org/soap/envelope/">'
            '<soap:Body><{0} xmlns="tns"><{1}>{2}</{1}></{0}></soap:Body>'
            '</soap:Envelope>'.format(method, arg, literal)).encode('utf8')
    env = {'REQUEST_METHOD': 'POST', 'PATH_INFO': '/', 'QUERY_STRING': '',
           'CONTENT_TYPE': 'text/xml; charset=utf-8',
           'CONTENT_LENGTH': str(len(body)), 'wsgi.input': BytesIO(body),
           'SERVER_NAME': 'localhost', 'SERVER_PORT': '80',
           'wsgi.url_scheme': 'http'}
    status = []
    out = b''.join(wsgi(env, lambda s, h, e=None: status.append(s)))
    return status[0], etree.fromstring(out)


xs_decimal = etree.XMLSchema(etree.fromstring(
    '<xs:schema xmlns:xs="http://www.w3.org/2001/XMLSchema">'
    '<xs:element name="a" type="xs:decimal"/></xs:schema>'))


def is_xs_decimal(text):
    e = etree.Element('a')
    e.text = text
    return xs_decimal.validate(e)


# the schema that spyne itself advertises and validates requests with
own_schema = app.in_protocol.validation_schema

failures = 0
for i, value in enumerate(RESULTS):
    status, doc = call('get', 'i', i)
    resp = doc.find('.//{tns}getResponse')
    written = resp.find('{tns}getResult').text

    ok_type = is_xs_decimal(written)
    ok_own = own_schema.validate(resp)
    status2, doc2 = call('echo', 'v', written)
    back = doc2.find('.//{tns}echoResult')
    ok_back = status2.startswith('200') and back is not None \
                                                   and D(back.text) == value

    print("service returns %r -> response literal %r" % (value, written))
    print("   valid xs:decimal literal          :", ok_type)
    print("   response valid per spyne's own XSD:", ok_own)
    print("   spyne accepts it back             :", ok_back, "(%s)" % status2)
    if not (ok_type and ok_own and ok_back):
        failures += 1

if failures:
    print("VIOLATION: %d Decimal value(s) were written in exponent notation, "
          "which is not in the xs:decimal lexical space" % failures)
    sys.exit(1)

print("OK")
