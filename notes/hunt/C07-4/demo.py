"""C07 / 4 -- two classes that refer to each other.

"The object composition graph can now be cyclic" (doc/source/history.rst), and
the protocols do serve such objects.  XML Schema does not care about the order
of top-level definitions, so a Customer <-> Order pair is perfectly
describable.  XmlSchema.build_schema_nodes() however orders the classes with
toposort2(), which only forgives a class that refers to *itself*: for a cycle
of two classes it ends in `assert not data, "A cyclic dependency exists..."`,
the exception escapes Wsdl11.build_interface_document() and `?wsdl` answers
500 -- there is no interface document at all for this application.
"""
import io
import sys
import logging

logging.disable(logging.CRITICAL)

import spyne
from lxml import etree
from spyne import Application, ServiceBase, rpc, Unicode, Integer, \
    ComplexModel
from spyne.protocol.soap import Soap11
from spyne.server.wsgi import WsgiApplication

print("spyne from:", spyne.__file__)

XS = '{http://www.w3.org/2001/XMLSchema}'
WSDL = '{http://schemas.xmlsoap.org/wsdl/}'


class Customer(ComplexModel):
    name = Unicode


class Order(ComplexModel):
    id = Integer
    customer = Customer            # Order -> Customer


Customer.append_field('last_order', Order)         # Customer -> Order


class ShopService(ServiceBase):
    @rpc(Integer, _returns=Order)
    def get_order(ctx, id):
        return Order(id=id, customer=Customer(name='Arthur'))


app = Application([ShopService], 'urn:shop', name='Shop',
                  in_protocol=Soap11(), out_protocol=Soap11())
wsgi_app = WsgiApplication(app)


def call(method, body=b'', qs='', soap_action=None):
    env = {
        'REQUEST_METHOD': method, 'PATH_INFO': '/', 'QUERY_STRING': qs,
        'SERVER_NAME': 'localhost', 'SERVER_PORT': '80',
        'wsgi.url_scheme': 'http', 'wsgi.input': io.BytesIO(body),
        'CONTENT_LENGTH': str(len(body)),
        'CONTENT_TYPE': 'text/xml; charset=utf-8',
        'wsgi.errors': sys.stderr,
    }
    if soap_action is not None:
        env['HTTP_SOAPACTION'] = '"%s"' % soap_action
    status = []
    out = b''.join(wsgi_app(env, lambda s, h, e=None: status.append(s)))
    return status[0], out


# the application itself works:
req = (b'<e:Envelope xmlns:e="http://schemas.xmlsoap.org/soap/envelope/">'
       b'<e:Body><t:get_order xmlns:t="urn:shop"><t:id>7</t:id></t:get_order>'
       b'</e:Body></e:Envelope>')
status, out = call('POST', req, soap_action='get_order')
print("get_order(7)  ->", status, out.decode().split('Body>')[1][:-11])

problems = []

# ... but it has no WSDL
errors = []
wsgi_app.event_manager.add_listener('wsdl_exception',
                            lambda ctx: errors.append(ctx.transport.wsdl_error))
status, doc = call('GET', qs='wsdl')
print("GET ?wsdl     ->", status, repr(doc[:60]))
for e in errors:
    print("   build_interface_document raised: %s: %s" % (
                         type(e).__name__, str(e).split('\n')[0]))

if not status.startswith('200'):
    problems.append("no WSDL: GET ?wsdl answers %r (%s)" % (status,
                      ', '.join(type(e).__name__ for e in errors) or 'no exc'))

else:
    root = etree.fromstring(doc)
    types = set(t.get('name') for t in root.iter(XS + 'complexType'))
    print("complex types in the WSDL:", sorted(types))
    for tn in ('Customer', 'Order'):
        if tn not in types:
            problems.append("type %r is referenced but not defined" % tn)
    ops = [o.get('name') for o in root.iter(WSDL + 'operation')]
    if ops.count('get_order') != 2:  # once in the portType, once in the binding
        problems.append("get_order is not published: %r" % ops)

    try:
        import zeep, tempfile, os
        path = os.path.join(tempfile.mkdtemp(), 'shop.wsdl')
        with open(path, 'wb') as f:
            f.write(doc)
        zeep.Client(path)
        print("zeep loads the document")
    except ImportError:
        pass
    except Exception as e:
        problems.append("zeep rejects the document: %r" % (e,))

print()
if problems:
    print("VIOLATION:")
    for p in problems:
        print("  -", p)
    sys.exit(1)

print("OK: the WSDL is built and defines both classes of the cycle")
