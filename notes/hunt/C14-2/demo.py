"""C14 / 2: SOAP 1.2 with validator='lxml': a schema-invalid argument fires
method_exception_object and then the call dies while the fault is being
serialised -- no method_exception_document / method_exception_string, the
context is never closed."""
import io, logging, sys
logging.disable(logging.CRITICAL)

import spyne
print("spyne from", spyne.__file__)

from spyne import Application, Service, rpc, Integer, Unicode
from spyne.protocol.soap import Soap11, Soap12
from spyne.server.wsgi import WsgiApplication

trace = []

EVENTS = ['method_context_created', 'method_call', 'method_return_object',
    'method_exception_object', 'method_return_document',
    'method_exception_document', 'method_return_string',
    'method_exception_string', 'method_context_closed']


class S(Service):
    @rpc(Integer, _returns=Unicode)
    def f(ctx, i):
        trace.append('FUNCTION')
        return 'got %r' % i


def build(Prot):
    app = Application([S], 'tns', in_protocol=Prot(validator='lxml'),
                                                            out_protocol=Prot())
    for e in EVENTS:
        app.event_manager.add_listener(e, lambda ctx, e=e: trace.append(e))
    wsgi = WsgiApplication(app)
    for e in ('wsgi_call', 'wsgi_return', 'wsgi_exception', 'wsgi_close'):
        wsgi.event_manager.add_listener(e, lambda ctx, e=e: trace.append(e))
    return wsgi


ENV = {
    Soap11: "http://schemas.xmlsoap.org/soap/envelope/",
    Soap12: "http://www.w3.org/2003/05/soap-envelope",
}

def request(Prot, value):
    return ('<e:Envelope xmlns:e="%s" xmlns:tns="tns"><e:Body>'
            '<tns:f><tns:i>%s</tns:i></tns:f>'
            '</e:Body></e:Envelope>' % (ENV[Prot], value)).encode('ascii')


def call(wsgi, body):
    env = {'REQUEST_METHOD': 'POST', 'PATH_INFO': '/', 'QUERY_STRING': '',
           'CONTENT_TYPE': 'application/soap+xml; charset=utf-8',
           'CONTENT_LENGTH': str(len(body)), 'wsgi.input': io.BytesIO(body),
           'SERVER_NAME': 'localhost', 'SERVER_PORT': '80',
           'wsgi.url_scheme': 'http'}
    seen = {}
    def start_response(status, headers, exc_info=None):
        seen['status'] = status
    try:
        ret = wsgi(env, start_response)
        out = b''.join(ret)
        if hasattr(ret, 'close'):
            ret.close()
    except Exception as e:
        seen['escaped'] = "%s: %s" % (type(e).__name__, str(e)[:100])
        out = None
    return seen, out


def verify(Prot, value, want_fault):
    del trace[:]
    seen, out = call(build(Prot), request(Prot, value))
    print("\n== %s(validator='lxml'), <tns:i>%s</tns:i>" % (Prot.__name__, value))
    print("   status :", seen.get('status'))
    print("   escaped:", seen.get('escaped'))
    print("   trace  :", trace)

    problems = []
    app_events = [t for t in trace if t.startswith('method_')]
    if 'escaped' in seen:
        problems.append("exception escaped the WSGI callable: " + seen['escaped'])
    if app_events[:1] != ['method_context_created'] \
                          or app_events.count('method_context_created') != 1:
        problems.append("method_context_created not first/once")
    if app_events[-1:] != ['method_context_closed'] \
                           or app_events.count('method_context_closed') != 1:
        problems.append("method_context_closed fired %d times (want once, last)"
                                % app_events.count('method_context_closed'))
    if want_fault:
        want = ['method_context_created', 'method_exception_object',
                'method_exception_document', 'method_exception_string',
                'method_context_closed']
        if app_events != want:
            problems.append("event sequence is %r, want %r" % (app_events, want))
        if 'FUNCTION' in trace:
            problems.append("function ran for an invalid argument")
    for p in problems:
        print("   VIOLATION:", p)
    return not problems


ok = True
ok &= verify(Soap12, '5', want_fault=False)     # control: valid request
ok &= verify(Soap11, 'abc', want_fault=True)    # control: SOAP 1.1 is fine
ok &= verify(Soap12, 'abc', want_fault=True)    # SOAP 1.2: breaks

print("\nRESULT:", "property holds" if ok else "property C14 VIOLATED")
sys.exit(0 if ok else 1)
