# --- shared driver (inlined into every demo) ---
import io, sys, logging, warnings
warnings.simplefilter('ignore')
logging.disable(logging.CRITICAL)
import spyne
print("spyne from:", spyne.__file__)

class CountingInput(object):
    def __init__(self, data):
        self._b = io.BytesIO(data)
        self.bytes_read = 0
    def read(self, n=-1):
        d = self._b.read(n)
        self.bytes_read += len(d)
        return d

def make_environ(method='POST', path='/', qs='', body=b'', content_length='auto',
                                                     content_type='text/xml; charset=utf-8'):
    inp = CountingInput(body)
    env = {
        'REQUEST_METHOD': method, 'PATH_INFO': path, 'QUERY_STRING': qs,
        'SCRIPT_NAME': '', 'SERVER_NAME': 'localhost', 'SERVER_PORT': '80',
        'SERVER_PROTOCOL': 'HTTP/1.1', 'CONTENT_TYPE': content_type,
        'wsgi.url_scheme': 'http', 'wsgi.version': (1, 0), 'wsgi.input': inp,
        'wsgi.errors': sys.stderr, 'wsgi.multithread': False,
        'wsgi.multiprocess': False, 'wsgi.run_once': False,
    }
    if content_length == 'auto':
        env['CONTENT_LENGTH'] = str(len(body))
    elif content_length is not None:
        env['CONTENT_LENGTH'] = content_length
    return env, inp

def drive(wsgi_app, env):
    """Plays the role of a WSGI server for one request and records what the
    application did."""
    events = []
    calls = []
    def start_response(status, headers, exc_info=None):
        calls.append((status, headers))
        events.append('start_response')
        return lambda data: None
    def on_closed(ctx):
        events.append('context_closed')
    wsgi_app.app.event_manager.add_listener('method_context_closed', on_closed)

    escaped = None
    chunks = []
    try:
        it = wsgi_app(env, start_response)
        try:
            for c in it:
                events.append('chunk')
                chunks.append(c)
        finally:
            if hasattr(it, 'close'):
                it.close()
    except BaseException as e:
        escaped = e
    finally:
        wsgi_app.app.event_manager.del_listener('method_context_closed', on_closed)

    print("    start_response calls :", calls)
    print("    body                 :", b''.join(c for c in chunks if isinstance(c, bytes))[:300])
    print("    exception escaped    :", repr(escaped))
    print("    event order          :", events)
    return dict(calls=calls, chunks=chunks, escaped=escaped, events=events)

def pep3333_problems(res):
    probs = []
    if res['escaped'] is not None:
        probs.append("the WSGI callable/iterator raised %r instead of answering" % (res['escaped'],))
    if len(res['calls']) != 1:
        probs.append("start_response was called %d times (expected exactly 1)" % len(res['calls']))
    if res['events'].count('context_closed') != 1:
        probs.append("request context closed %d times (expected exactly 1)"
                                                 % res['events'].count('context_closed'))
    if res['events'] and res['events'][0] != 'start_response':
        probs.append("first event is %r, not start_response" % res['events'][0])
    for c in res['chunks']:
        if not isinstance(c, bytes):
            probs.append("non-bytes body chunk %r" % (c,))
    for status, headers in res['calls']:
        for k, v in headers:
            if type(k) is not str or type(v) is not str:
                probs.append("non-str header %r: %r" % (k, v))
            if k.lower() == 'content-length' and int(v) != sum(len(c) for c in res['chunks']):
                probs.append("Content-Length %s != %d body bytes" % (v, sum(len(c) for c in res['chunks'])))
    return probs
# --- end of shared driver ---

# C13 violation 4: with chunked=False, WsgiApplication.handle_rpc flattens the
# response with  p_ctx.out_string = [b''.join(p_ctx.out_string)]  *outside* the
# try block that guards get_out_string().  Whenever out_string is lazy (HttpRpc
# streaming a ByteArray/File generator; JsonDocument / MessagePackDocument /
# YamlDocument, whose create_out_string() is a generator expression) an error
# that happens while the chunks are produced escapes from the WSGI callable:
# start_response is never called and the request context is never closed.

import decimal

from spyne import Application, rpc, ServiceBase, Integer, ByteArray, AnyDict, Fault
from spyne.protocol.http import HttpRpc
from spyne.protocol.json import JsonDocument
from spyne.server.wsgi import WsgiApplication


class DownloadService(ServiceBase):
    @rpc(Integer, _returns=ByteArray)
    def download(ctx, fail_after):
        """Streams a blob chunk by chunk; the backing store may fail midway."""
        for i in range(4):
            if i == fail_after:
                raise Fault('Server.StorageError', 'chunk %d is unreadable' % i)
            yield b'chunk-%d;' % i

    @rpc(_returns=AnyDict)
    def price(ctx):
        # serialize() accepts this; json.dumps() -- run lazily when the
        # out_string generator is iterated -- does not.
        return {'amount': decimal.Decimal('9.99')}


failures = []

def run(title, wsgi_app, env, control=False):
    print("\n== %s ==" % title)
    res = drive(wsgi_app, env)
    p = pep3333_problems(res)
    if control:
        # with chunked=True a late failure surfaces while the server iterates, after
        # start_response: allowed by PEP 3333, shown here only for comparison.
        p = [x for x in p if 'raised' not in x]
    for x in p:
        print("    VIOLATION:", x)
    if p:
        failures.append((title, p))

for chunked in (True, False):
    app1 = WsgiApplication(Application([DownloadService], 'tns',
                    in_protocol=HttpRpc(), out_protocol=HttpRpc()), chunked=chunked)
    app2 = WsgiApplication(Application([DownloadService], 'tns',
                    in_protocol=HttpRpc(), out_protocol=JsonDocument()), chunked=chunked)

    run("chunked=%r HttpRpc download, no failure (control)" % chunked, app1,
            make_environ('GET', '/download', 'fail_after=99', content_length=None)[0], control=True)
    run("chunked=%r HttpRpc download, Fault raised by the generator after 2 chunks" % chunked, app1,
            make_environ('GET', '/download', 'fail_after=2', content_length=None)[0], control=chunked)
    run("chunked=%r JsonDocument, AnyDict result holding a Decimal" % chunked, app2,
            make_environ('GET', '/price', '', content_length=None)[0], control=chunked)

print()
if failures:
    print("FAIL: C13 violated (chunked off: start_response exactly once, context "
          "closed exactly once):")
    for f in failures:
        print("  ", f)
    sys.exit(1)
print("OK")
