"""C10 / 1: a SOAP request whose Body holds a soap:Fault element crashes request
processing with an AttributeError instead of being answered with a Client fault.

Run: cd /tmp/wth/C10 && PYTHONPATH=/tmp/wth/C10 /venv/bin/python /tmp/hunt/C10/1/demo.py
"""
import io, sys, logging, traceback
logging.disable(logging.CRITICAL)

import spyne
print("spyne from", spyne.__file__)

from spyne import Application, Service, srpc, Integer, Unicode, MethodContext
from spyne.protocol.soap import Soap11, Soap12
from spyne.server import ServerBase
from spyne.server.wsgi import WsgiApplication

CALLS = []


class Svc(Service):
    @srpc(Integer, Unicode, _returns=Unicode)
    def echo(i, s):
        CALLS.append((i, s))
        return u"ok"


NS11 = 'http://schemas.xmlsoap.org/soap/envelope/'
NS12 = 'http://www.w3.org/2003/05/soap-envelope'

REQ11 = ('<s:Envelope xmlns:s="%s"><s:Body>'
         '<s:Fault><faultcode>s:Client</faultcode><faultstring>boo</faultstring></s:Fault>'
         '</s:Body></s:Envelope>' % NS11).encode()
REQ12 = ('<s:Envelope xmlns:s="%s"><s:Body>'
         '<s:Fault><s:Code><s:Value>s:Sender</s:Value></s:Code>'
         '<s:Reason><s:Text xml:lang="en">boo</s:Text></s:Reason></s:Fault>'
         '</s:Body></s:Envelope>' % NS12).encode()


def call_wsgi(wsgi, body, ctype):
    env = {'REQUEST_METHOD': 'POST', 'PATH_INFO': '/', 'QUERY_STRING': '',
           'SERVER_NAME': 'localhost', 'SERVER_PORT': '80',
           'wsgi.url_scheme': 'http', 'wsgi.input': io.BytesIO(body),
           'CONTENT_LENGTH': str(len(body)), 'CONTENT_TYPE': ctype}
    out = {}

    def start_response(status, headers, exc_info=None):
        out['status'] = status

    ret = wsgi(env, start_response)
    data = b''.join(ret)
    if hasattr(ret, 'close'):
        ret.close()
    return out.get('status'), data


class TestServer(ServerBase):
    transport = 'test'


failures = []


def check(label, fn, client_marker):
    del CALLS[:]
    try:
        status, data = fn()
    except Exception as e:
        tb = traceback.extract_tb(sys.exc_info()[2])[-1]
        print("%-28s UNHANDLED %s: %s   (at %s:%d in %s)" % (
              label, type(e).__name__, e, tb.filename.split('/spyne/')[-1],
              tb.lineno, tb.name))
        failures.append(label)
        return
    ok = client_marker in data and not CALLS
    print("%-28s status=%r calls=%r body=%r" % (label, status, CALLS, data[:160]))
    if not ok:
        failures.append(label)


for validator in (None, 'soft', 'lxml'):
    for name, cls, req, ctype, marker in (
            ('Soap11', Soap11, REQ11, 'text/xml; charset=utf-8', b'Client'),
            ('Soap12', Soap12, REQ12, 'application/soap+xml; charset=utf-8', b'Sender')):
        app = Application([Svc], 'tns', in_protocol=cls(validator=validator),
                          out_protocol=cls())
        wsgi = WsgiApplication(app)
        check('%s/%s/wsgi' % (name, validator),
              lambda: call_wsgi(wsgi, req, ctype), marker)

        server = TestServer(app)

        def via_base():
            ctx = MethodContext(server, MethodContext.SERVER)
            ctx.in_string = [req]
            ctx, = server.generate_contexts(ctx)
            if ctx.in_error is None:
                server.get_in_object(ctx)
            if ctx.in_error is None:
                server.get_out_object(ctx)
            server.get_out_string(ctx)
            return None, b''.join(ctx.out_string)

        check('%s/%s/ServerBase' % (name, validator), via_base, marker)

print()
if failures:
    print("VIOLATION: a request with a soap:Fault in its Body was not answered with a "
          "Client fault in %d configuration(s): %s" % (len(failures), ', '.join(failures)))
    sys.exit(1)
print("OK: every configuration answered with a Client fault")
