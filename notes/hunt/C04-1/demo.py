"""C04 / 1: xsi:type retagging with a *simple* type that merely inherits from
the declared one delivers a value of a different native type.

is_substitutable() accepts every model class that is a Python subclass of the
declared class.  For primitives the class hierarchy does not follow the native
types:  Date(DateTime) -> datetime.date (NOT a datetime.datetime),
Uuid(Unicode) -> uuid.UUID (not a str), Double(Decimal) -> float (not a
decimal.Decimal).  A client that retags an element with such a class gets the
reader of the other class, and user code receives the unrelated native type.
"""

from __future__ import print_function

import sys
import logging
import datetime
import decimal
import uuid
from io import BytesIO

logging.basicConfig(level=logging.CRITICAL)

import spyne
from spyne import Application, rpc, ServiceBase
from spyne import Unicode, DateTime, Date, Decimal, Double, Uuid
from spyne.protocol.xml import XmlDocument
from spyne.server.wsgi import WsgiApplication

print("spyne from", spyne.__file__)

NATIVE = {'when': datetime.datetime, 'name': str, 'amount': decimal.Decimal}
received = []


class Svc(ServiceBase):
    # day/ident/ratio only make Date, Uuid and Double known to the interface
    @rpc(DateTime, Unicode, Decimal, Date, Uuid, Double, _returns=Unicode)
    def f(ctx, when, name, amount, day, ident, ratio):
        received.append(dict(when=when, name=name, amount=amount))
        return u'ok'


NS = ('xmlns="tns" xmlns:xs="http://www.w3.org/2001/XMLSchema" '
      'xmlns:sp="http://spyne.io/schema" '
      'xmlns:xsi="http://www.w3.org/2001/XMLSchema-instance"')

REQUESTS = [
    # (slot, validators, child element)
    ('when', ('soft', None),
                    '<when xsi:type="xs:date">2020-01-02</when>'),
    ('name', ('soft', 'lxml', None),
       '<name xsi:type="sp:uuid">12345678-1234-1234-1234-123456789012</name>'),
    ('amount', ('soft', None),
                    '<amount xsi:type="xs:double">1.5</amount>'),
]


def post(wsgi_app, body):
    env = {
        'REQUEST_METHOD': 'POST', 'PATH_INFO': '/', 'QUERY_STRING': '',
        'SERVER_NAME': 'localhost', 'SERVER_PORT': '80',
        'wsgi.url_scheme': 'http', 'CONTENT_TYPE': 'text/xml; charset=utf-8',
        'CONTENT_LENGTH': str(len(body)), 'wsgi.input': BytesIO(body),
    }
    status = []
    ret = b''.join(wsgi_app(env, lambda s, h, e=None: status.append(s)))
    return status[0], ret


violations = 0
for slot, validators, child in REQUESTS:
    for validator in validators:
        app = Application([Svc], 'tns', name='App',
                          in_protocol=XmlDocument(validator=validator),
                          out_protocol=XmlDocument())
        del received[:]
        body = ('<f %s>%s</f>' % (NS, child)).encode('utf8')
        status, resp = post(WsgiApplication(app), body)

        if received:
            value = received[0][slot]
            ok = value is None or isinstance(value, NATIVE[slot])
            print("validator=%-5r %-75s -> %s: user code got %s slot = %r (%s)"
                  % (validator, child, status, slot, value,
                     type(value).__name__))
            if not ok:
                violations += 1
                print("    VIOLATION: declared native type is %s"
                                                    % NATIVE[slot].__name__)
        else:
            print("validator=%-5r %-75s -> %s %s"
                  % (validator, child, status, resp[:120]))
            if b'Client' not in resp:
                violations += 1
                print("    VIOLATION: not a client fault")

print()
if violations:
    print("%d requests delivered a value of an unrelated native type "
          "(expected: Client.ValidationError or a value of the declared type)"
                                                                 % violations)
    sys.exit(1)

print("OK: every retagged request was refused or delivered the declared type")
