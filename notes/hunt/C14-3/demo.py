"""C14 / 3: through NullServer (a ServerBase), every call that ends in a fault
leaves its MethodContext open: method_context_closed never fires."""
import logging, sys
logging.disable(logging.CRITICAL)

import spyne
print("spyne from", spyne.__file__)

from spyne import Application, Service, rpc, Integer, Unicode, Fault
from spyne.server.null import NullServer

trace = []

EVENTS = ['method_context_created', 'method_call', 'method_return_object',
    'method_exception_object', 'method_return_document',
    'method_exception_document', 'method_return_string',
    'method_exception_string', 'method_context_closed']


class S(Service):
    @rpc(Integer, _returns=Unicode)
    def f(ctx, i):
        trace.append('FUNCTION')
        if i == 1:
            raise ValueError("plain python error")
        if i == 2:
            raise Fault('Client.Two', "a fault")
        return 'ok'


def build(raising_listener=None):
    app = Application([S], 'tns')
    for e in EVENTS:
        app.event_manager.add_listener(e, lambda ctx, e=e: trace.append(e))
    if raising_listener is not None:
        def boom(ctx):
            raise RuntimeError("listener failed")
        app.event_manager.add_listener(raising_listener, boom)
    return NullServer(app)


def verify(label, server, method, *args):
    del trace[:]
    outcome = None
    try:
        outcome = 'returned %r' % (getattr(server.service, method)(*args),)
        fault = False
    except Exception as e:
        outcome = 'raised %r' % (e,)
        fault = True

    print("\n== %s" % label)
    print("   outcome:", outcome)
    print("   trace  :", trace)

    problems = []
    if trace[:1] != ['method_context_created'] \
                               or trace.count('method_context_created') != 1:
        problems.append("method_context_created not first/once")
    if trace.count('method_context_closed') != 1 \
                                     or trace[-1:] != ['method_context_closed']:
        problems.append("method_context_closed fired %d times (want once, last)"
                                          % trace.count('method_context_closed'))
    if trace.count('FUNCTION') > 1:
        problems.append("function ran more than once")
    if fault and trace.count('method_exception_object') != 1:
        problems.append("method_exception_object fired %d times for a call "
            "that ended in a fault" % trace.count('method_exception_object'))
    if not fault and 'method_exception_object' in trace:
        problems.append("method_exception_object on success")
    for p in problems:
        print("   VIOLATION:", p)
    return not problems


ok = True
ok &= verify("control: function returns normally", build(), 'f', 0)
ok &= verify("function raises ValueError", build(), 'f', 1)
ok &= verify("function raises Fault", build(), 'f', 2)
ok &= verify("method_call listener raises", build('method_call'), 'f', 0)
ok &= verify("method_return_object listener raises",
                                        build('method_return_object'), 'f', 0)

print("\nRESULT:", "property holds" if ok else "property C14 VIOLATED")
sys.exit(0 if ok else 1)
