"""C10 / 3: with in_protocol=Soap12(validator='lxml'), every request that fails
schema validation crashes while the SchemaValidationError fault is serialised:
a TypeError escapes the WSGI callable / ServerBase.get_out_string instead of a
Sender (Client) fault being returned. Soap11 with the same input is the control.

Run: cd /tmp/wth/C10 && PYTHONPATH=/tmp/wth/C10 /venv/bin/python /tmp/hunt/C10/3/demo.py
"""
import io, sys, logging, traceback
logging.disable(logging.CRITICAL)

import spyne
print("spyne from", spyne.__file__)

from lxml import etree
from spyne import Application, Service, srpc, Integer, Unicode, MethodContext
from spyne.protocol.soap import Soap11, Soap12
from spyne.server import ServerBase
from spyne.server.wsgi import WsgiApplication

CALLS = []


class Svc(Service):
    @srpc(Integer, Unicode, _returns=Unicode)
    def echo(i, s):
        CALLS.append((i, s))
        return u"ok"


NS = {'Soap11': 'http://schemas.xmlsoap.org/soap/envelope/',
      'Soap12': 'http://www.w3.org/2003/05/soap-envelope'}
CT = {'Soap11': 'text/xml; charset=utf-8',
      'Soap12': 'application/soap+xml; charset=utf-8'}

# leaf text corruption / unknown member / element deletion+duplication
BODIES = [
    ('ill-typed leaf', '<t:echo xmlns:t="tns"><t:i>abc</t:i><t:s>x</t:s></t:echo>'),
    ('unknown member', '<t:echo xmlns:t="tns"><t:i>1</t:i><t:zzz>x</t:zzz></t:echo>'),
    ('duplicated member', '<t:echo xmlns:t="tns"><t:i>1</t:i><t:i>2</t:i></t:echo>'),
    ('unknown method', '<t:nope xmlns:t="tns"/>'),
]


def envelope(ns, payload):
    return ('<s:Envelope xmlns:s="%s"><s:Body>%s</s:Body></s:Envelope>'
            % (ns, payload)).encode()


def call_wsgi(wsgi, body, ctype):
    env = {'REQUEST_METHOD': 'POST', 'PATH_INFO': '/', 'QUERY_STRING': '',
           'SERVER_NAME': 'localhost', 'SERVER_PORT': '80',
           'wsgi.url_scheme': 'http', 'wsgi.input': io.BytesIO(body),
           'CONTENT_LENGTH': str(len(body)), 'CONTENT_TYPE': ctype}
    out = {}

    def start_response(status, headers, exc_info=None):
        out['status'] = status

    ret = wsgi(env, start_response)
    data = b''.join(ret)
    if hasattr(ret, 'close'):
        ret.close()
    return out.get('status'), data


class TestServer(ServerBase):
    transport = 'test'


failures = []


def check(label, fn, marker, must_pass):
    del CALLS[:]
    try:
        status, data = fn()
        etree.fromstring(data)  # must be a well-formed document
    except Exception as e:
        tb = traceback.extract_tb(sys.exc_info()[2])
        fr = [f for f in tb if '/spyne/' in f.filename][-1]
        print("%-42s UNHANDLED %s: %.90s\n%44s(at %s:%d in %s)" % (
              label, type(e).__name__, e, '', fr.filename.split('/spyne/')[-1],
              fr.lineno, fr.name))
        failures.append(label)
        return
    ok = marker in data and not CALLS
    print("%-42s status=%r calls=%r fault=%r" % (label, status, CALLS,
                                                data[data.find(b'Fault'):][:110]))
    if not ok:
        failures.append(label)


for name, cls, marker in (('Soap11', Soap11, b'Client.SchemaValidationError'),
                          ('Soap12', Soap12, b'Sender')):
    app = Application([Svc], 'tns', in_protocol=cls(validator='lxml'),
                      out_protocol=cls())
    wsgi = WsgiApplication(app)
    server = TestServer(app)

    # sanity: the valid request works
    st, data = call_wsgi(wsgi, envelope(NS[name],
        '<t:echo xmlns:t="tns"><t:i>1</t:i><t:s>x</t:s></t:echo>'), CT[name])
    print("%-42s status=%r calls=%r" % (name + '/valid request', st, CALLS))
    assert st == '200 OK' and CALLS == [(1, 'x')], (st, data)

    for what, payload in BODIES:
        req = envelope(NS[name], payload)
        check('%s/lxml/wsgi/%s' % (name, what),
              lambda: call_wsgi(wsgi, req, CT[name]), marker, True)

        def via_base():
            ctx = MethodContext(server, MethodContext.SERVER)
            ctx.in_string = [req]
            ctx, = server.generate_contexts(ctx)
            if ctx.in_error is None:
                server.get_in_object(ctx)
            if ctx.in_error is None:
                server.get_out_object(ctx)
            server.get_out_string(ctx)
            return None, b''.join(ctx.out_string)

        check('%s/lxml/ServerBase/%s' % (name, what), via_base, marker, True)

print()
if failures:
    print("VIOLATION: %d schema-invalid request(s) were not answered with a "
          "well-formed Client/Sender fault:\n  %s" % (len(failures),
                                                    '\n  '.join(failures)))
    sys.exit(1)
print("OK: every schema-invalid request was answered with a Client/Sender fault")
