"""C04 / 2: an Array argument retagged with ITS OWN schema type name is
delivered as a generator, not a list.

Array(Integer) and Iterable(Integer) both get the type name 'integerArray';
Interface.has_class() lets them share the '{tns}integerArray' key of
interface.classes and the first one registered keeps it.  When that is the
Iterable (here: the return type of a method that is processed earlier), a
request that says xsi:type="tns:integerArray" on an Array(Integer) element --
which is exactly what the WSDL calls that element's type -- makes
XmlDocument.from_element() replace the declared class with the Iterable class
(Iterable is a subclass of Array, member types match, so is_substitutable()
agrees) and iterable_from_element() hands a generator object to user code.
Happens with validator None, 'soft' and 'lxml'.
"""

from __future__ import print_function

import sys
import logging
from io import BytesIO

logging.basicConfig(level=logging.CRITICAL)

import spyne
from spyne import Application, rpc, ServiceBase
from spyne import Integer, Unicode, Array, Iterable, ComplexModel
from spyne.protocol.xml import XmlDocument
from spyne.protocol.soap import Soap11
from spyne.server.wsgi import WsgiApplication

print("spyne from", spyne.__file__)

received = []


class Basket(ComplexModel):
    __namespace__ = 'tns'
    owner = Unicode
    items = Array(Integer)


class Svc(ServiceBase):
    @rpc(Integer, _returns=Iterable(Integer))
    def countdown(ctx, start):
        return iter(range(start, 0, -1))

    @rpc(Array(Integer), Basket, _returns=Integer)
    def total(ctx, values, basket):
        received.append((values, basket))
        return 0


NS = ('xmlns="tns" xmlns:tns="tns" '
      'xmlns:xsi="http://www.w3.org/2001/XMLSchema-instance"')

PLAIN = ('<total %s><values><integer>1</integer><integer>2</integer></values>'
         '<basket><items><integer>3</integer></items></basket></total>' % NS)
RETAGGED = ('<total %s><values xsi:type="tns:integerArray">'
                                '<integer>1</integer><integer>2</integer></values>'
         '<basket><items xsi:type="tns:integerArray"><integer>3</integer></items>'
                                                      '</basket></total>' % NS)
SOAP = ('<e:Envelope xmlns:e="http://schemas.xmlsoap.org/soap/envelope/">'
        '<e:Body>%s</e:Body></e:Envelope>')


def post(wsgi_app, body):
    env = {
        'REQUEST_METHOD': 'POST', 'PATH_INFO': '/', 'QUERY_STRING': '',
        'SERVER_NAME': 'localhost', 'SERVER_PORT': '80',
        'wsgi.url_scheme': 'http', 'CONTENT_TYPE': 'text/xml; charset=utf-8',
        'CONTENT_LENGTH': str(len(body)), 'wsgi.input': BytesIO(body),
    }
    status = []
    ret = b''.join(wsgi_app(env, lambda s, h, e=None: status.append(s)))
    return status[0], ret


def is_int_list(v):
    return v is None or (isinstance(v, list)
                                   and all(isinstance(e, int) for e in v))


violations = 0
for pname, pcls, wrap in (('XmlDocument', XmlDocument, '%s'),
                          ('Soap11', Soap11, SOAP)):
    for validator in ('soft', 'lxml', None):
        app = Application([Svc], 'tns', name='App',
                          in_protocol=pcls(validator=validator),
                          out_protocol=pcls())
        if pname == 'XmlDocument' and validator == 'soft':
            registered = app.interface.classes['{tns}integerArray']
            print("interface.classes['{tns}integerArray'] is a customized",
                  registered.__orig__.__name__, "- the argument is declared as",
                  Svc.public_methods['total'].in_message._type_info['values']
                                                           .__orig__.__name__)

        for label, doc in (('plain   ', PLAIN), ('retagged', RETAGGED)):
            del received[:]
            status, resp = post(WsgiApplication(app),
                                                  (wrap % doc).encode('utf8'))
            if not received:
                print("%-11s validator=%-6r %s -> %s %s"
                            % (pname, validator, label, status, resp[:100]))
                if b'Client' not in resp:
                    violations += 1
                continue

            values, basket = received[0]
            items = basket.items
            print("%-11s validator=%-6r %s -> %s values=%r basket.items=%r"
                            % (pname, validator, label, status, values, items))
            if not (is_int_list(values) and is_int_list(items)):
                violations += 1
                print("    VIOLATION: Array(Integer) slots must hold a list "
                                                     "of int, got %s and %s" %
                              (type(values).__name__, type(items).__name__))

print()
if violations:
    print("%d requests delivered a non-list to an Array(Integer) slot"
                                                                  % violations)
    sys.exit(1)

print("OK: Array(Integer) slots always held lists of int")
