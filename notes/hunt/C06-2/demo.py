"""C06 / 2 -- the schema generated for a class whose XmlData member has a
restricted primitive type does not compile.

    class Price(ComplexModel):
        value    = XmlData(Decimal(ge=0))       # or Unicode(max_len=3), ...
        currency = XmlAttribute(Unicode)

The complexType is published as
    <xs:simpleContent><xs:extension base="s0:Price_valueType"> ...
but the simpleType  {spyne.model.primitive.number}Price_valueType  is never
emitted (nor is a schema document for its namespace), so lxml refuses to
compile the schema and an application with validator='lxml' cannot even be
constructed.  The same class with an XmlAttribute of the very same restricted
type is fine -- the restriction is published there.
"""

import sys
import copy
import logging
import warnings
logging.disable(logging.CRITICAL)
warnings.simplefilter('ignore')

from decimal import Decimal as D
from io import BytesIO
from lxml import etree

import spyne
print("spyne from:", spyne.__file__)

from spyne import Application, Service, rpc
from spyne.model import ComplexModel, Decimal, Unicode, XmlData, XmlAttribute
from spyne.protocol.soap import Soap11
from spyne.server.wsgi import WsgiApplication
from spyne.interface.xml_schema import XmlSchema

NS = 'urn:c06:xmldata'


class Price(ComplexModel):
    __namespace__ = NS
    _type_info = [
        ('value', XmlData(Decimal(ge=0))),
        ('currency', XmlAttribute(Unicode)),
    ]


class Svc(Service):
    @rpc(_returns=Price)
    def get(ctx):
        return Price(value=D('9.99'), currency='EUR')


def call(app, body):
    env = {
        'REQUEST_METHOD': 'POST', 'PATH_INFO': '/', 'QUERY_STRING': '',
        'CONTENT_TYPE': 'text/xml; charset=utf-8',
        'CONTENT_LENGTH': str(len(body)), 'SERVER_NAME': 'localhost',
        'SERVER_PORT': '80', 'wsgi.url_scheme': 'http',
        'wsgi.input': BytesIO(body), 'wsgi.errors': sys.stderr,
        'SERVER_PROTOCOL': 'HTTP/1.1',
    }
    st = []
    out = b''.join(WsgiApplication(app)(env, lambda s, h, e=None: st.append(s)))
    return st[0], out


failures = []

# the application itself is fine without schema validation
app = Application([Svc], NS, name='XmlDataApp',
                                  in_protocol=Soap11(), out_protocol=Soap11())

xs = XmlSchema(app.interface)
xs.build_interface_document()
docs = xs.get_interface_document()
print("--- schema documents published, by prefix:",
           dict((k, v.get('targetNamespace')) for k, v in docs.items()))
for e in docs['tns']:
    if e.get('name') == 'Price' and e.tag.endswith('complexType'):
        e = copy.deepcopy(e)
        etree.cleanup_namespaces(e)
        print(etree.tostring(e, pretty_print=True).decode())

all_types = set()
for pref, doc in docs.items():
    for e in doc:
        if e.tag.endswith('Type'):
            all_types.add('{%s}%s' % (doc.get('targetNamespace'), e.get('name')))
print("types defined anywhere in the published schema:", sorted(all_types))

# 1. does it compile?
try:
    xs2 = XmlSchema(app.interface)
    xs2.build_validation_schema()
    schema = xs2.validation_schema
    print("schema compiles: True")

except etree.XMLSchemaParseError as e:
    schema = None
    print("schema compiles: False")
    print("   ", e)
    failures.append("generated schema does not compile")

# 2. public entry point: an application that asks for schema validation
try:
    Application([Svc], NS, name='XmlDataAppLxml',
                  in_protocol=Soap11(validator='lxml'), out_protocol=Soap11())
    print("Application(in_protocol=Soap11(validator='lxml')) constructed: True")

except Exception as e:
    print("Application(in_protocol=Soap11(validator='lxml')) constructed: "
                                            "False (%s)" % type(e).__name__)
    failures.append("validator='lxml' application cannot be built")

# 3. what Spyne emits for a conformant value
ENV = '<e:Envelope xmlns:e="http://schemas.xmlsoap.org/soap/envelope/" ' \
      'xmlns:t="%s"><e:Body>%%s</e:Body></e:Envelope>' % NS
status, out = call(app, (ENV % '<t:get/>').encode())
payload = etree.fromstring(out)[0][0]
print("--- emitted response (%s)" % status)
print(etree.tostring(payload, pretty_print=True).decode())
if schema is not None:
    ok = schema.validate(payload)
    print("emitted response valid:", ok, schema.error_log.last_error)
    if not ok:
        failures.append("response invalid against own schema")

if failures:
    print("\nVIOLATION:", "; ".join(failures))
    sys.exit(1)

print("\nOK")
