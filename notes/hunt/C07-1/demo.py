"""C07 / 1 -- two services that publish their methods in the same portType.

`__port_types__` / `_port_type` are the documented way to name the WSDL
portType a method goes to, and Wsdl11._get_or_create_port_type() explicitly
shares a portType between services.  The binding emitter does not: it creates a
brand new <wsdl:binding name="P"> for every service that lists "P", each holding
only that service's operations.
"""
import io
import sys
import logging
import collections

logging.disable(logging.CRITICAL)

import spyne
from lxml import etree
from spyne import Application, ServiceBase, rpc, Unicode
from spyne.protocol.soap import Soap11
from spyne.server.wsgi import WsgiApplication

print("spyne from:", spyne.__file__)

WSDL = '{http://schemas.xmlsoap.org/wsdl/}'


class OrderService(ServiceBase):
    __port_types__ = ['ShopPort']

    @rpc(Unicode, _returns=Unicode, _port_type='ShopPort')
    def place_order(ctx, what):
        return 'ordered ' + what


class StockService(ServiceBase):
    __port_types__ = ['ShopPort']

    @rpc(Unicode, _returns=Unicode, _port_type='ShopPort')
    def check_stock(ctx, what):
        return 'plenty of ' + what


app = Application([OrderService, StockService], 'urn:shop', name='Shop',
                  in_protocol=Soap11(), out_protocol=Soap11())
wsgi_app = WsgiApplication(app)


def get_wsdl():
    env = {
        'REQUEST_METHOD': 'GET', 'PATH_INFO': '/', 'QUERY_STRING': 'wsdl',
        'SERVER_NAME': 'localhost', 'SERVER_PORT': '80',
        'wsgi.url_scheme': 'http', 'wsgi.input': io.BytesIO(b''),
        'wsgi.errors': sys.stderr,
    }
    status = []
    body = b''.join(wsgi_app(env, lambda s, h, e=None: status.append(s)))
    assert status[0].startswith('200'), (status, body)
    return body


doc = get_wsdl()
root = etree.fromstring(doc)

problems = []

# 1. names of wsdl:binding elements must be unique in the definitions
bindings = root.findall(WSDL + 'binding')
names = collections.Counter(b.get('name') for b in bindings)
print("bindings in the document:",
      [(b.get('name'), b.get('type'),
        [o.get('name') for o in b.findall(WSDL + 'operation')])
       for b in bindings])
for name, n in names.items():
    if n > 1:
        problems.append("wsdl:binding %r is defined %d times" % (name, n))

# 2. every portType operation must have a matching operation in every binding
#    of that portType
pt_ops = {}
for pt in root.findall(WSDL + 'portType'):
    pt_ops[pt.get('name')] = [o.get('name')
                              for o in pt.findall(WSDL + 'operation')]
print("portTypes in the document:", pt_ops)

for b in bindings:
    pt_name = b.get('type').split(':')[-1]
    b_ops = [o.get('name') for o in b.findall(WSDL + 'operation')]
    for op in pt_ops.get(pt_name, ()):
        if op not in b_ops:
            problems.append("portType %r operation %r has no binding operation "
                        "in <wsdl:binding name=%r> (it binds only %r)"
                                      % (pt_name, op, b.get('name'), b_ops))

# 3. what a foreign toolkit makes of it (optional)
try:
    import zeep, tempfile, os
    path = os.path.join(tempfile.mkdtemp(), 'shop.wsdl')
    with open(path, 'wb') as f:
        f.write(doc)
    client = zeep.Client(path)
    exposed = set()
    for service in client.wsdl.services.values():
        for port in service.ports.values():
            exposed.update(port.binding._operations)
    print("operations a zeep client can reach:", sorted(exposed))
    for op in ('place_order', 'check_stock'):
        if op not in exposed:
            problems.append("zeep client cannot reach operation %r" % op)
except ImportError:
    print("(zeep not installed, skipping the foreign client check)")
except Exception as e:
    problems.append("zeep rejects the document: %r" % (e,))

print()
if problems:
    print("VIOLATION:")
    for p in problems:
        print("  -", p)
    sys.exit(1)

print("OK: one binding per portType, every operation bound")
