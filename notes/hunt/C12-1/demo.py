"""C12 / 1 -- lxml schema validation: a request is answered with the
validation message of ANOTHER, concurrently processed request.

XmlDocument.__validate_lxml (used by Soap11(validator='lxml')) calls
    ret = self.validation_schema.validate(payload)
and then, on a separate line, reads
    self.validation_schema.error_log.last_error
from the etree.XMLSchema object that is shared by every request of the
application.  XMLSchema.validate() clears and refills that log on every call,
so a second request that is validated between these two lines replaces (or
wipes) the message the first request is about to put into its fault.

The schedule is forced at line granularity with sys.settrace: request A is
held at the line after validate() returned, request B is then processed from
start to end by another thread, then A goes on.  No spyne code is changed.
"""

import sys, threading, re
from io import BytesIO

import spyne
from spyne import Application, rpc, ServiceBase, Integer, Unicode
from spyne.protocol.soap import Soap11
from spyne.server.wsgi import WsgiApplication

print("spyne from", spyne.__file__)


class Svc(ServiceBase):
    @rpc(Integer, Integer, _returns=Integer)
    def add(ctx, a, b):
        return a + b

    @rpc(Unicode(max_len=4), _returns=Unicode)
    def echo(ctx, s):
        return s


app = Application([Svc], 'tns', in_protocol=Soap11(validator='lxml'),
                                                        out_protocol=Soap11())
wsgi = WsgiApplication(app)

ENV = ('<soapenv:Envelope xmlns:soapenv='
       '"http://schemas.xmlsoap.org/soap/envelope/" xmlns:t="tns">'
       '<soapenv:Body>%s</soapenv:Body></soapenv:Envelope>')

REQ_A = (ENV % '<t:add><t:a>not-a-number</t:a><t:b>2</t:b></t:add>').encode()
REQ_B = (ENV % '<t:echo><t:s>much-too-long</t:s></t:echo>').encode()
REQ_OK = (ENV % '<t:add><t:a>1</t:a><t:b>2</t:b></t:add>').encode()


def call(body):
    env = {
        'REQUEST_METHOD': 'POST', 'PATH_INFO': '/', 'QUERY_STRING': '',
        'SERVER_NAME': 'localhost', 'SERVER_PORT': '80',
        'wsgi.url_scheme': 'http', 'CONTENT_TYPE': 'text/xml; charset=utf-8',
        'CONTENT_LENGTH': str(len(body)), 'wsgi.input': BytesIO(body),
    }
    status = []
    ret = wsgi(env, lambda s, h, e=None: status.append(s))
    out = b''.join(ret)
    if hasattr(ret, 'close'):
        ret.close()
    m = re.search(b'<faultstring>(.*?)</faultstring>', out, re.S)
    return status[0], (m.group(1).decode() if m else out.decode())


def forced(first, second):
    """Process `first`; hold it right after validate() returned; process
    `second` completely in another thread; release `first`."""

    held, go = threading.Event(), threading.Event()
    res = {}

    def tracer(frame, event, arg):
        co = frame.f_code
        if co.co_name == '__validate_lxml' and \
                                  co.co_filename.endswith('protocol/xml.py'):
            first_line = [None]

            def local(frame, event, arg):
                if event == 'line':
                    if first_line[0] is None:
                        first_line[0] = frame.f_lineno  # ret = ...validate()
                    elif not held.is_set():
                        # first line after validate() returned
                        held.set()
                        go.wait(10)
                return local

            return local
        return None

    def t_first():
        sys.settrace(tracer)
        try:
            res['first'] = call(first)
        finally:
            sys.settrace(None)

    def t_second():
        held.wait(10)
        res['second'] = call(second)
        go.set()

    ts = [threading.Thread(target=t_first), threading.Thread(target=t_second)]
    [t.start() for t in ts]
    [t.join(30) for t in ts]
    return res['first'], res['second']


# sequential oracle
alone_a = call(REQ_A)
alone_b = call(REQ_B)
alone_ok = call(REQ_OK)
print("alone  A :", alone_a)
print("alone  B :", alone_b)
print("alone  OK:", alone_ok)

bad = 0

print("\n-- A (invalid integer) concurrently with B (string too long)")
got_a, got_b = forced(REQ_A, REQ_B)
print("concur A :", got_a)
print("concur B :", got_b)
if got_a != alone_a:
    bad += 1
    print("VIOLATION: A was answered with a message that belongs to B's "
          "request" if got_a == alone_b else "VIOLATION: A's answer changed")
if got_b != alone_b:
    bad += 1
    print("VIOLATION: B's answer changed")

print("\n-- A (invalid integer) concurrently with a VALID request")
got_a, got_ok = forced(REQ_A, REQ_OK)
print("concur A :", got_a)
print("concur OK:", got_ok)
if got_a != alone_a:
    bad += 1
    print("VIOLATION: A's validation message was wiped by the other request")
if got_ok != alone_ok:
    bad += 1
    print("VIOLATION: the valid request's answer changed")

if bad:
    print("\nFAIL: %d response(s) differ from the sequential oracle" % bad)
    sys.exit(1)

print("\nOK: every caller got the response it gets when processed alone")
