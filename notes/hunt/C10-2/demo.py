"""C10 / 2: xsi:nil="true" on the request (wrapper) element of an XML/SOAP request
is answered with a *Server* fault ("Internal Error") instead of a Client fault
(or a normal response).

Run: cd /tmp/wth/C10 && PYTHONPATH=/tmp/wth/C10 /venv/bin/python /tmp/hunt/C10/2/demo.py
"""
import io, sys, logging, traceback
logging.disable(logging.CRITICAL)

import spyne
print("spyne from", spyne.__file__)

from spyne import Application, Service, srpc, Integer, Unicode, MethodContext
from spyne.protocol.xml import XmlDocument
from spyne.protocol.soap import Soap11, Soap12
from spyne.server import ServerBase
from spyne.server.wsgi import WsgiApplication

CALLS = []


class Svc(Service):
    @srpc(Integer, Unicode, _returns=Unicode)
    def echo(i, s):
        CALLS.append((i, s))
        return u"ok"


XSI = 'http://www.w3.org/2001/XMLSchema-instance'
# a valid request, with one attribute added to its root element
PAYLOAD = ('<t:echo xmlns:t="tns" xmlns:xsi="%s" xsi:nil="true">'
           '<t:i>1</t:i><t:s>x</t:s></t:echo>' % XSI)


def envelope(ns):
    return ('<s:Envelope xmlns:s="%s"><s:Body>%s</s:Body></s:Envelope>'
            % (ns, PAYLOAD)).encode()


CONFIGS = [
    ('XmlDocument', XmlDocument, PAYLOAD.encode(), 'text/xml'),
    ('Soap11', Soap11, envelope('http://schemas.xmlsoap.org/soap/envelope/'),
        'text/xml; charset=utf-8'),
    ('Soap12', Soap12, envelope('http://www.w3.org/2003/05/soap-envelope'),
        'application/soap+xml; charset=utf-8'),
]


def call_wsgi(wsgi, body, ctype):
    env = {'REQUEST_METHOD': 'POST', 'PATH_INFO': '/', 'QUERY_STRING': '',
           'SERVER_NAME': 'localhost', 'SERVER_PORT': '80',
           'wsgi.url_scheme': 'http', 'wsgi.input': io.BytesIO(body),
           'CONTENT_LENGTH': str(len(body)), 'CONTENT_TYPE': ctype}
    out = {}

    def start_response(status, headers, exc_info=None):
        out['status'] = status

    ret = wsgi(env, start_response)
    data = b''.join(ret)
    if hasattr(ret, 'close'):
        ret.close()
    return out.get('status'), None, data


class TestServer(ServerBase):
    transport = 'test'


failures = []


def check(label, fn, is_soap):
    del CALLS[:]
    try:
        status, faultcode, data = fn()
    except Exception as e:
        tb = traceback.extract_tb(sys.exc_info()[2])[-1]
        print("%-32s UNHANDLED %s: %s (%s:%d)" % (label, type(e).__name__, e,
                                                tb.filename, tb.lineno))
        failures.append(label)
        return

    server_fault = (b':Server' in data or b':Receiver' in data
                    or (faultcode or '').startswith('Server'))
    is_fault = b'Fault' in data
    bad = server_fault or (is_fault and CALLS)
    if status is not None and not is_soap and is_fault:
        bad = bad or not status.startswith('4')
    print("%-32s status=%r faultcode=%r calls=%r\n    body=%r" % (
                                label, status, faultcode, CALLS, data[:330]))
    if bad:
        failures.append(label)


for validator in (None, 'soft'):
    for name, cls, req, ctype in CONFIGS:
        app = Application([Svc], 'tns', in_protocol=cls(validator=validator),
                          out_protocol=cls())
        wsgi = WsgiApplication(app)
        check('%s/%s/wsgi' % (name, validator),
              lambda: call_wsgi(wsgi, req, ctype), name != 'XmlDocument')

        server = TestServer(app)

        def via_base():
            ctx = MethodContext(server, MethodContext.SERVER)
            ctx.in_string = [req]
            ctx, = server.generate_contexts(ctx)
            if ctx.in_error is None:
                server.get_in_object(ctx)
            if ctx.in_error is None:
                server.get_out_object(ctx)
            server.get_out_string(ctx)
            err = ctx.out_error
            return (None, err.faultcode if err is not None else None,
                    b''.join(ctx.out_string))

        check('%s/%s/ServerBase' % (name, validator), via_base,
              name != 'XmlDocument')

print()
if failures:
    print("VIOLATION: xsi:nil on the request element produced a Server fault "
          "in %d configuration(s): %s" % (len(failures), ', '.join(failures)))
    sys.exit(1)
print("OK: no Server fault, no crash")
