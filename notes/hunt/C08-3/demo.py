"""C08 / 3: Soap11 promises to bypass custom date/time formats ("SOAP requires
DateTime strings to be in iso format"; Date.Attributes.date_format: "Ignored by
protocols like SOAP"). It does so for reading Date and for DateTime/Time, but
not for WRITING Date: a Date(date_format=...) is written as e.g. '02/01/2020'
into an element advertised as xs:date, and Soap11 cannot read it back."""
from __future__ import print_function

import sys
import logging
logging.disable(logging.CRITICAL)

from datetime import date
from io import BytesIO

from lxml import etree

import spyne
from spyne import Application, rpc, ServiceBase
from spyne.model import Date
from spyne.protocol.soap import Soap11
from spyne.server.wsgi import WsgiApplication

print("spyne from", spyne.__file__)

HumanDate = Date(date_format='%d/%m/%Y')
VALUE = date(2020, 1, 2)
received = []


class S(ServiceBase):
    @rpc(_returns=HumanDate)
    def get(ctx):
        return VALUE

    @rpc(HumanDate)
    def put(ctx, v):
        received.append(v)


app = Application([S], 'tns', in_protocol=Soap11(validator='lxml'),
                                                        out_protocol=Soap11())
app_noval = Application([S], 'tns', in_protocol=Soap11(),
                                                        out_protocol=Soap11())


def call(app, inner):
    wsgi = WsgiApplication(app)
    body = ('<soap:Envelope xmlns:soap="http://schemas.xmlsoap.org/soap/envelope/">'
            '<soap:Body>%s</soap:Body></soap:Envelope>' % inner).encode('utf8')
    env = {'REQUEST_METHOD': 'POST', 'PATH_INFO': '/', 'QUERY_STRING': '',
           'CONTENT_TYPE': 'text/xml; charset=utf-8',
           'CONTENT_LENGTH': str(len(body)), 'wsgi.input': BytesIO(body),
           'SERVER_NAME': 'localhost', 'SERVER_PORT': '80',
           'wsgi.url_scheme': 'http'}
    status = []
    out = b''.join(wsgi(env, lambda s, h, e=None: status.append(s)))
    return status[0], etree.fromstring(out)


own_schema = app.in_protocol.validation_schema
from spyne.interface.xml_schema import XmlSchema
xsd = XmlSchema(app.interface)
xsd.build_interface_document()
elt = xsd.get_interface_document()['tns'].find(
    './/{http://www.w3.org/2001/XMLSchema}complexType[@name="getResponse"]'
    '//{http://www.w3.org/2001/XMLSchema}element')
print("advertised type of getResult:", elt.get('type'))

status, doc = call(app, '<get xmlns="tns"/>')
resp = doc.find('.//{tns}getResponse')
literal = resp.find('{tns}getResult').text
print("service returns  :", repr(VALUE))
print("written literal  :", repr(literal))

ok_own = own_schema.validate(resp)
print("response valid per spyne's own XSD:", ok_own)
if not ok_own:
    print("   ", own_schema.error_log.last_error.message)

# read it back with the very same protocol, once with and once without schema
# validation in front of spyne's own reader
ok_back = True
for validator, a in (('lxml', app), (None, app_noval)):
    del received[:]
    status2, doc2 = call(a, '<put xmlns="tns"><v>%s</v></put>' % literal)
    fs = doc2.find('.//faultstring')
    print("read back with validator=%r: %s %r %s" % (validator, status2,
                       received, '' if fs is None else '(%s)' % fs.text))
    ok_back = ok_back and received == [VALUE]

if not (ok_own and ok_back):
    print("VIOLATION: the text Soap11 writes for this Date is not an xs:date "
          "literal and Soap11 does not read it back")
    sys.exit(1)

print("OK")
