"""C05 / 1: constraints declared on the type of an XmlAttribute member are not
enforced by the dict-document protocols (JSON, YAML, MessagePack, HttpRpc)
under validator='soft'; XmlDocument/Soap11 enforce them.

Run: cd /tmp/wth/C05 && PYTHONPATH=/tmp/wth/C05 /venv/bin/python /tmp/hunt/C05/1/demo.py
"""
import io, sys, json, logging, warnings
warnings.simplefilter('ignore')
logging.disable(logging.CRITICAL)

import yaml, msgpack
from urllib.parse import urlencode

import spyne
print("spyne from", spyne.__file__)

from spyne import Application, rpc, ServiceBase, ComplexModel, Unicode, \
    Integer, UnsignedByte
from spyne.model.complex import XmlAttribute
from spyne.server.wsgi import WsgiApplication
from spyne.protocol.xml import XmlDocument
from spyne.protocol.soap import Soap11
from spyne.protocol.json import JsonDocument
from spyne.protocol.yaml import YamlDocument
from spyne.protocol.msgpack import MessagePackDocument
from spyne.protocol.http import HttpRpc

TNS = 'tns'
CALLS = []


class Item(ComplexModel):
    __namespace__ = TNS
    _type_info = [
        ('x', Integer),
        # four facets, each on the type of an xml attribute
        ('level', XmlAttribute(UnsignedByte)),                   # 0..255
        ('prio', XmlAttribute(Integer(ge=3))),                   # >= 3
        ('code', XmlAttribute(Unicode(max_len=3, pattern='[a-z]+'))),
        ('kind', XmlAttribute(Unicode(values=['a', 'b']))),
    ]


class Svc(ServiceBase):
    @rpc(Item, _returns=Unicode)
    def put(ctx, item):
        CALLS.append(item)
        return 'ok'


PROTOCOLS = {
    'XmlDocument': lambda: XmlDocument(validator='soft'),
    'Soap11': lambda: Soap11(validator='soft'),
    'JsonDocument': lambda: JsonDocument(validator='soft'),
    'YamlDocument': lambda: YamlDocument(validator='soft'),
    'MessagePackDocument': lambda: MessagePackDocument(validator='soft'),
    'HttpRpc': lambda: HttpRpc(validator='soft'),
}
APPS = {k: WsgiApplication(Application([Svc], TNS, name='App', in_protocol=v(),
                            out_protocol=JsonDocument())) for k, v in PROTOCOLS.items()}


def wsgi(app, body=b'', ctype='', method='POST', qs='', path='/'):
    env = {'REQUEST_METHOD': method, 'PATH_INFO': path, 'QUERY_STRING': qs,
           'SERVER_NAME': 'localhost', 'SERVER_PORT': '80', 'SCRIPT_NAME': '',
           'wsgi.url_scheme': 'http', 'CONTENT_TYPE': ctype,
           'CONTENT_LENGTH': str(len(body)), 'wsgi.input': io.BytesIO(body),
           'wsgi.errors': sys.stderr}
    st = []
    ret = b''.join(app(env, lambda s, h, e=None: st.append(s)))
    return st[0], ret


def send(pname, attr, value):
    """The same logical request: put(item=Item(x=1, <attr>=<value>))"""
    app = APPS[pname]
    if pname in ('XmlDocument', 'Soap11'):
        body = ('<ns:put xmlns:ns="tns"><ns:item %s="%s"><ns:x>1</ns:x>'
                '</ns:item></ns:put>' % (attr, value)).encode()
        if pname == 'Soap11':
            body = (b'<e:Envelope xmlns:e="http://schemas.xmlsoap.org/soap/'
                    b'envelope/"><e:Body>' + body + b'</e:Body></e:Envelope>')
        return wsgi(app, body, 'text/xml; charset=utf-8')
    doc = {'put': {'item': {'x': 1, attr: value}}}
    if pname == 'JsonDocument':
        return wsgi(app, json.dumps(doc).encode(), 'application/json')
    if pname == 'YamlDocument':
        return wsgi(app, yaml.safe_dump(doc).encode(), 'text/yaml')
    if pname == 'MessagePackDocument':
        return wsgi(app, msgpack.packb(doc), 'application/x-msgpack')
    if pname == 'HttpRpc':
        qs = urlencode([('item.x', '1'), ('item.' + attr, str(value))])
        return wsgi(app, method='GET', qs=qs, path='/put')


def verdict(pname, attr, value):
    del CALLS[:]
    status, body = send(pname, attr, value)
    if CALLS:
        return 'ACCEPTED', 'function ran with %s=%r' % (attr, getattr(CALLS[0], attr))
    return 'REJECTED', '%s %s' % (status, body.decode('utf8', 'replace')[:90])


# (attribute, value, does the value satisfy the declared constraints?)
CASES = [
    ('level', 255, True), ('level', 256, False),      # fixed-width bound
    ('prio', 3, True), ('prio', 2, False),            # ge
    ('code', 'abc', True), ('code', 'abcd', False),   # max_len
    ('code', 'AB', False),                            # pattern
    ('kind', 'a', True), ('kind', 'c', False),        # enumerated values
]

violations = 0
for attr, value, valid in CASES:
    expected = 'ACCEPTED' if valid else 'REJECTED'
    print("\nitem/@%s = %r  (constraints %s -> expected %s everywhere)" % (
                attr, value, 'satisfied' if valid else 'VIOLATED', expected))
    for pname in PROTOCOLS:
        got, detail = verdict(pname, attr, value)
        flag = '' if got == expected else '   <-- VIOLATION'
        if got != expected:
            violations += 1
        print("  %-20s %-8s %s%s" % (pname, got, detail, flag))

print()
if violations:
    print("FAIL: %d (protocol, value) pairs got the wrong verdict; the "
          "constraints of the attribute's type are ignored outside XML/SOAP."
                                                                   % violations)
    sys.exit(1)
print("OK: all protocols agree and enforce the attribute type's constraints")
