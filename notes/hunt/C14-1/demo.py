"""C14 / 1: a user function written as a generator that raises before its first
yield escapes WsgiApplication.handle_rpc: no method_exception_object, no
exception document/string events, no method_context_closed, no wsgi_close."""
import io, logging, sys, traceback
logging.disable(logging.CRITICAL)

import spyne
print("spyne from", spyne.__file__)

from spyne import Application, Service, rpc, Integer, Unicode, Iterable, Fault
from spyne.protocol.http import HttpRpc
from spyne.protocol.soap import Soap11
from spyne.server.wsgi import WsgiApplication

trace = []

EVENTS = ['method_context_created', 'method_call', 'method_return_object',
    'method_exception_object', 'method_return_document',
    'method_exception_document', 'method_return_string',
    'method_exception_string', 'method_context_closed']


class S(Service):
    @rpc(Integer, _returns=Iterable(Unicode))
    def numbers(ctx, n):
        trace.append('FUNCTION')
        if n < 0:
            raise ValueError("negative count")           # non-Fault
        if n == 0:
            raise Fault('Client.Zero', "zero count")     # Fault
        for i in range(n):
            yield str(i)


def build():
    app = Application([S], 'tns', in_protocol=HttpRpc(), out_protocol=Soap11())
    for e in EVENTS:
        app.event_manager.add_listener(e, lambda ctx, e=e: trace.append(e))
    wsgi = WsgiApplication(app)
    for e in ('wsgi_call', 'wsgi_return', 'wsgi_exception', 'wsgi_close'):
        wsgi.event_manager.add_listener(e, lambda ctx, e=e: trace.append(e))
    return wsgi


def call(wsgi, qs):
    env = {'REQUEST_METHOD': 'GET', 'PATH_INFO': '/numbers', 'QUERY_STRING': qs,
           'SERVER_NAME': 'localhost', 'SERVER_PORT': '80',
           'wsgi.url_scheme': 'http', 'wsgi.input': io.BytesIO(b'')}
    seen = {}
    def start_response(status, headers, exc_info=None):
        seen['status'] = status
    try:
        ret = wsgi(env, start_response)
        body = b''.join(ret)
        if hasattr(ret, 'close'):
            ret.close()
    except Exception as e:
        seen['escaped'] = repr(e)
        body = None
    return seen, body


def verify(label, qs):
    del trace[:]
    seen, body = call(build(), qs)
    print("\n== %s (?%s)" % (label, qs))
    print("   status :", seen.get('status'))
    print("   escaped:", seen.get('escaped'))
    print("   trace  :", trace)

    problems = []
    if 'escaped' in seen:
        problems.append("exception escaped the WSGI callable: " + seen['escaped'])
    if trace.count('method_context_created') != 1 or trace[0] != 'method_context_created':
        problems.append("method_context_created not first/once")
    app_events = [t for t in trace if t.startswith('method_')]
    if app_events.count('method_context_closed') != 1 \
                               or app_events[-1] != 'method_context_closed':
        problems.append("method_context_closed fired %d times (want once, last)"
                                % app_events.count('method_context_closed'))
    if trace.count('FUNCTION') > 1:
        problems.append("function ran more than once")
    if trace.count('method_exception_object') != 1:
        problems.append("method_exception_object fired %d times (want 1: the "
               "call ended in a fault)" % trace.count('method_exception_object'))
    else:
        tail = app_events[app_events.index('method_exception_object'):]
        if tail != ['method_exception_object', 'method_exception_document',
                         'method_exception_string', 'method_context_closed']:
            problems.append("after method_exception_object saw %r" % (tail,))
    if trace.count('wsgi_close') != 1:
        problems.append("wsgi_close fired %d times" % trace.count('wsgi_close'))
    for p in problems:
        print("   VIOLATION:", p)
    return not problems


ok = True
# control: the same function raising *after* its first yield is handled fine,
# and so is a normal run.
del trace[:]
seen, body = call(build(), 'n=2')
print("control n=2:", seen, trace)

ok &= verify("generator raises ValueError before first yield", 'n=-1')
ok &= verify("generator raises Fault before first yield", 'n=0')

print("\nRESULT:", "property holds" if ok else "property C14 VIOLATED")
sys.exit(0 if ok else 1)
