# -*- coding: utf-8 -*-
"""C09 / 4 -- a loopback client that speaks SOAP 1.2 (spyne's own
RemoteProcedureBase wired straight to WsgiApplication) cannot read ANY fault
produced by spyne's own SOAP 1.2 server: Soap12.fault_from_element() looks the
elements up with the hard-coded prefix ``soap:`` resolved against the nsmap of
the incoming element, but the server declares the envelope namespace as
``soap12env``. Instead of ctx.in_error being the fault, the client blows up
with SyntaxError("prefix 'soap' not found in prefix map").

Run: cd /tmp/wth/C09 && PYTHONPATH=/tmp/wth/C09 /venv/bin/python /tmp/hunt/C09/4/demo.py
"""
from __future__ import print_function

import logging
import sys
import warnings
from io import BytesIO

warnings.simplefilter('ignore')
logging.disable(logging.CRITICAL)

from lxml import etree

import spyne
from spyne import Application, Service, srpc, Fault, Unicode
from spyne.client import RemoteProcedureBase, RemoteService, ClientBase
from spyne.protocol.soap import Soap11, Soap12
from spyne.server.wsgi import WsgiApplication

print("spyne loaded from", spyne.__file__)

SECRET = "s3cr3t-TOKEN-c0ffee"
DETAIL = {'why': {'field': u'amount', 'hints': [u'h1', u'hü2']}}


class Svc(Service):
    @srpc(Unicode, _returns=Unicode)
    def pay(kind):
        if kind == 'client':
            raise Fault('Client.Payment.Declined', u'ödeme reddedildi 中',
                                                                 detail=DETAIL)
        if kind == 'actor':
            raise Fault('Server.Backend', u'backend down',
                                         faultactor='http://actor.example.com')
        if kind == 'exc':
            raise ZeroDivisionError(SECRET)
        return u'PAID'


class _LoopbackProcedure(RemoteProcedureBase):
    """Same steps as spyne.client.http._RemoteProcedure, with urlopen()
    replaced by a direct call to the WSGI application."""

    def __call__(self, *args, **kwargs):
        self.ctx, = self.contexts
        self.get_out_object(self.ctx, args, kwargs)
        self.get_out_string(self.ctx)
        request = b''.join(self.ctx.out_string)

        seen = {}

        def start_response(status, headers, exc_info=None):
            seen['status'] = status

        env = {
            'REQUEST_METHOD': 'POST', 'PATH_INFO': '/', 'QUERY_STRING': '',
            'CONTENT_TYPE': self.app.out_protocol.mime_type,
            'CONTENT_LENGTH': str(len(request)),
            'wsgi.input': BytesIO(request),
            'SERVER_NAME': 'localhost', 'SERVER_PORT': '80',
            'wsgi.url_scheme': 'http',
        }
        wsgi_app = self.url  # the "url" of a loopback client is the server
        self.ctx.in_string = [b''.join(wsgi_app(env, start_response))]
        self.status = seen['status']

        # sets ctx.in_error if there's an error, ctx.in_object otherwise
        self.get_in_object(self.ctx)
        return self


class LoopbackClient(ClientBase):
    def __init__(self, wsgi_app, app):
        super(LoopbackClient, self).__init__(wsgi_app, app)
        self.service = RemoteService(_LoopbackProcedure, wsgi_app, app)


def leaves(d):
    if isinstance(d, dict):
        for v in d.values():
            for l in leaves(v):
                yield l
    elif isinstance(d, (list, tuple)):
        for v in d:
            for l in leaves(v):
                yield l
    else:
        yield d


def detail_matches(got, expected):
    if expected is None:
        return got is None or (hasattr(got, 'tag') and len(got) == 0)
    if got == expected:
        return True
    if hasattr(got, 'itertext'):  # lxml element, as the SOAP 1.1 client gives
        return sorted(got.itertext()) == sorted(leaves(expected))
    return False


EXPECTED = {
    # kind: (first code segment, sub codes, message, detail)
    'client': (('Client', 'Sender'), ['Payment', 'Declined'],
                                             u'ödeme reddedildi 中', DETAIL),
    'actor': (('Server', 'Receiver'), ['Backend'], u'backend down', None),
    'exc': (('Server', 'Receiver'), [], u'Internal Error', None),
}


def run(prot_cls):
    failures = []
    name = prot_cls.__name__
    for kind in ('ok', 'client', 'actor', 'exc'):
        app = Application([Svc], 'tns', in_protocol=prot_cls(),
                                                      out_protocol=prot_cls())
        client = LoopbackClient(WsgiApplication(app), app)
        try:
            call = client.service.pay(kind)
        except Exception as e:
            print("%s %-6s -> client raised %r while reading the response"
                                                            % (name, kind, e))
            failures.append("%s/%s: the client could not read the fault: %r"
                                                            % (name, kind, e))
            continue

        ctx = call.ctx
        print("%s %-6s -> HTTP %s in_error=%r in_object=%r"
                       % (name, kind, call.status, ctx.in_error, ctx.in_object))
        if kind == 'ok':
            assert ctx.in_error is None and ctx.in_object == u'PAID'
            continue

        firsts, subs, string, detail = EXPECTED[kind]
        err = ctx.in_error
        if not isinstance(err, Fault):
            failures.append("%s/%s: ctx.in_error is %r" % (name, kind, err))
            continue

        segs = err.faultcode.split('.')
        first = segs[0].split(':')[-1]  # drop the envelope prefix
        if not (call.status.startswith('500') and first in firsts
                and segs[1:] == subs
                and (err.faultstring or u'').strip() == string
                and detail_matches(err.detail, detail)
                and ctx.in_object is None):
            failures.append("%s/%s: fault not intact: %r" % (name, kind, err))

    return failures


# the same client against SOAP 1.1 works -- shown for contrast
f11 = run(Soap11)
print()
f12 = run(Soap12)

print()
if f11 or f12:
    print("PROPERTY C09 VIOLATED:")
    for f in f11 + f12:
        print("  -", f)
    sys.exit(1)

print("OK: the loopback client received every fault in ctx.in_error")
