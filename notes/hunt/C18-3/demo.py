"""C18 / 3: an argument that is left out of the call.  Over every wire protocol
the function receives the declared default of the parameter; through NullServer
it receives None, so the results differ."""
import json
import logging
import sys
from io import BytesIO

logging.disable(logging.CRITICAL)

import spyne
print("spyne from", spyne.__file__)

from lxml import etree
from spyne import Application, Service, srpc, Integer, Unicode, ComplexModel
from spyne.protocol.xml import XmlDocument
from spyne.protocol.soap import Soap11
from spyne.protocol.json import JsonDocument
from spyne.server.null import NullServer
from spyne.server.wsgi import WsgiApplication


class Paging(ComplexModel):
    __namespace__ = 'tns'
    _type_info = [('query', Unicode), ('limit', Integer(default=10))]


class S(Service):
    @srpc(Unicode, Integer(default=10), _returns=Unicode)
    def search(query, limit):
        return 'query=%r limit=%r' % (query, limit)

    @srpc(Paging, _returns=Unicode, _body_style='bare')
    def search_bare(p):
        return 'query=%r limit=%r' % (p.query, p.limit)

    @srpc(Unicode, Integer(default=10), _returns=Unicode, _body_style='out_bare')
    def search_out_bare(query, limit):
        return 'query=%r limit=%r' % (query, limit)


def wsgi_call(app, body, ctype):
    env = {'REQUEST_METHOD': 'POST', 'PATH_INFO': '/', 'QUERY_STRING': '',
           'SERVER_NAME': 'localhost', 'SERVER_PORT': '80',
           'wsgi.url_scheme': 'http', 'CONTENT_TYPE': ctype,
           'CONTENT_LENGTH': str(len(body)), 'wsgi.input': BytesIO(body)}
    st = {}

    def start_response(status, headers, exc_info=None):
        st['status'] = status

    ret = b''.join(WsgiApplication(app)(env, start_response))
    assert st['status'].startswith('200'), (st, ret)
    return ret


def xml_text(doc):
    return ''.join(etree.fromstring(doc).itertext())


def json_text(doc):
    v = json.loads(doc)
    while isinstance(v, dict):
        v, = v.values()
    return v


SOAP = '<e:Envelope xmlns:e="http://schemas.xmlsoap.org/soap/envelope/">' \
       '<e:Body>%s</e:Body></e:Envelope>'
WIRE = [
    (XmlDocument, lambda m: '<%s xmlns="tns"><query>spam</query></%s>' % (m, m),
                                                          'text/xml', xml_text),
    (Soap11, lambda m: SOAP % ('<%s xmlns="tns"><query>spam</query></%s>' % (m, m)),
                                                          'text/xml', xml_text),
    (JsonDocument, lambda m: json.dumps({m: {"query": "spam"}}),
                                                 'application/json', json_text),
]

failures = 0
for prot, mkbody, ctype, decode in WIRE:
    app = Application([S], 'tns', in_protocol=prot(), out_protocol=prot())
    null = NullServer(app)
    print("== %s" % prot.__name__)
    for method in ('search', 'search_bare', 'search_out_bare'):
        wire = decode(wsgi_call(app, mkbody(method).encode(), ctype))
        for label, call in (("%s('spam')", lambda: null.service[method]('spam')),
                    ("%s(query='spam')", lambda: null.service[method](query='spam'))):
            direct = call()
            ok = direct == wire
            print("  %-32s wire: %-28r NullServer: %-28r %s" % (label % method,
                                 wire, direct, "" if ok else "<-- MISMATCH"))
            if not ok:
                failures += 1

print()
if failures:
    print("VIOLATION: %d calls that leave out the 'limit' argument "
          "(declared Integer(default=10)) return a different result through "
          "NullServer than over the wire" % failures)
    sys.exit(1)

print("OK: NullServer and the wire agree")
