"""C06 / 3 -- soft validation and schema validation disagree on the `pattern`
facet when the pattern has a top-level alternative that is a prefix of
another one.

    HouseNo = Unicode(pattern='[0-9]+|[0-9]+-[0-9]+')      # "12" or "12-14"

The pattern is published verbatim as <xs:pattern value="[0-9]+|[0-9]+-[0-9]+"/>
and xs:pattern matches the WHOLE value, so "12-14" is valid.  Soft validation
uses  re.match()  and then compares the span of whatever alternative happened
to match first with the length of the value: "12" matches, span (0,2) != (0,5),
reject.  Same document, same declared constraint, opposite verdicts.
"""

import re
import sys
import logging
import warnings
logging.disable(logging.CRITICAL)
warnings.simplefilter('ignore')

from io import BytesIO
from lxml import etree

import spyne
print("spyne from:", spyne.__file__)

from spyne import Application, Service, rpc
from spyne.model import ComplexModel, Unicode, XmlAttribute
from spyne.protocol.soap import Soap11, Soap12
from spyne.protocol.xml import XmlDocument
from spyne.server.wsgi import WsgiApplication

NS = 'urn:c06:pattern'
PATTERN = '[0-9]+|[0-9]+-[0-9]+'

HouseNo = Unicode(pattern=PATTERN, type_name='HouseNo')


class Address(ComplexModel):
    __namespace__ = NS
    _type_info = [
        ('no', HouseNo),
    ]


class Svc(Service):
    @rpc(Address, _returns=Address)
    def echo(ctx, a):
        return a


def call(app, body, ctype):
    env = {
        'REQUEST_METHOD': 'POST', 'PATH_INFO': '/', 'QUERY_STRING': '',
        'CONTENT_TYPE': ctype,
        'CONTENT_LENGTH': str(len(body)), 'SERVER_NAME': 'localhost',
        'SERVER_PORT': '80', 'wsgi.url_scheme': 'http',
        'wsgi.input': BytesIO(body), 'wsgi.errors': sys.stderr,
        'SERVER_PROTOCOL': 'HTTP/1.1',
    }
    st = []
    out = b''.join(WsgiApplication(app)(env, lambda s, h, e=None: st.append(s)))
    return st[0], out


PROTOS = [
    ('XmlDocument', XmlDocument, 'text/xml', '%s'),
    ('Soap11', Soap11, 'text/xml; charset=utf-8',
        '<e:Envelope xmlns:e="http://schemas.xmlsoap.org/soap/envelope/">'
        '<e:Body>%s</e:Body></e:Envelope>'),
    ('Soap12', Soap12, 'application/soap+xml; charset=utf-8',
        '<e:Envelope xmlns:e="http://www.w3.org/2003/05/soap-envelope">'
        '<e:Body>%s</e:Body></e:Envelope>'),
]

VALUES = ['12', '12-14', '12-', 'x']

disagreements = []
n = 0
for pname, P, ctype, wrap in PROTOS:
    apps = {}
    for validator in ('lxml', 'soft'):
        n += 1
        apps[validator] = Application([Svc], NS, name='PatApp%d' % n,
                       in_protocol=P(validator=validator), out_protocol=P())

    for value in VALUES:
        req = '<t:echo xmlns:t="%s"><t:a><t:no>%s</t:no></t:a></t:echo>' \
                                                                % (NS, value)
        body = (wrap % req).encode()
        oracle = re.fullmatch(PATTERN, value) is not None
        verdict = {}
        detail = {}
        for validator, app in apps.items():
            try:
                status, out = call(app, body, ctype)
            except TypeError as e:
                # unrelated: Soap12 fails to serialise a SchemaValidationError
                # whose faultstring is bytes. The request was rejected.
                verdict[validator] = False
                detail[validator] = 'rejected (fault could not be serialised)'
                continue
            verdict[validator] = status.startswith('200')
            if not verdict[validator]:
                doc = etree.fromstring(out)
                fs = doc.xpath('//faultstring|//*[local-name()="Text"]')
                detail[validator] = fs[0].text[:90] if fs else status

        flag = ''
        if verdict['lxml'] != verdict['soft']:
            flag = '   <== DISAGREE'
            disagreements.append((pname, value, verdict, detail))
        print("%-11s no=%-7r whole-string oracle=%-5s lxml=%-5s soft=%-5s%s"
            % (pname, value, oracle, verdict['lxml'], verdict['soft'], flag))

print()
if disagreements:
    for pname, value, verdict, detail in disagreements:
        print("VIOLATION: %s, <no>%s</no>: lxml accepts=%s, soft accepts=%s %r"
                     % (pname, value, verdict['lxml'], verdict['soft'], detail))
    sys.exit(1)

print("OK")
