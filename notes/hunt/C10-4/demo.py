"""C10 / 4: MessagePack input that decodes to an object followed by extra bytes
(which is what almost every random byte string is, and what a valid request
with trailing garbage is) crashes create_in_document with a TypeError instead of
being answered with a Client.MessagePackDecodeError fault.

Run: cd /tmp/wth/C10 && PYTHONPATH=/tmp/wth/C10 /venv/bin/python /tmp/hunt/C10/4/demo.py
"""
import io, sys, logging, traceback, random
logging.disable(logging.CRITICAL)

import spyne
print("spyne from", spyne.__file__)

import msgpack
from spyne import Application, Service, srpc, Integer, Unicode, MethodContext
from spyne.protocol.msgpack import MessagePackDocument, MessagePackRpc
from spyne.server import ServerBase
from spyne.server.wsgi import WsgiApplication

CALLS = []


class Svc(Service):
    @srpc(Integer, Unicode, _returns=Unicode)
    def echo(i, s):
        CALLS.append((i, s))
        return u"ok"


VALID = {
    'MessagePackDocument': msgpack.packb({'echo': {'i': 1, 's': 'x'}}),
    'MessagePackRpc': msgpack.packb([0, 1, 'echo', [1, 'x']]),
}

rnd = random.Random(0)
RANDOM = [bytes(rnd.randrange(256) for _ in range(rnd.randrange(2, 24)))
          for _ in range(200)]


def call_wsgi(wsgi, body):
    env = {'REQUEST_METHOD': 'POST', 'PATH_INFO': '/', 'QUERY_STRING': '',
           'SERVER_NAME': 'localhost', 'SERVER_PORT': '80',
           'wsgi.url_scheme': 'http', 'wsgi.input': io.BytesIO(body),
           'CONTENT_LENGTH': str(len(body)),
           'CONTENT_TYPE': 'application/x-msgpack'}
    out = {}

    def start_response(status, headers, exc_info=None):
        out['status'] = status

    ret = wsgi(env, start_response)
    data = b''.join(ret)
    if hasattr(ret, 'close'):
        ret.close()
    return out.get('status'), data


class TestServer(ServerBase):
    transport = 'test'


failures = []
crash_sites = {}


def check(label, fn, verbose=True):
    """ok = normal response, or a 4xx / Client fault without a user call"""
    del CALLS[:]
    try:
        status, data = fn()
    except Exception as e:
        tb = traceback.extract_tb(sys.exc_info()[2])
        fr = [f for f in tb if '/spyne/' in f.filename][-1]
        where = "%s: %s (at %s:%d in %s)" % (type(e).__name__, e,
                    fr.filename.split('/spyne/')[-1], fr.lineno, fr.name)
        crash_sites[where] = crash_sites.get(where, 0) + 1
        if verbose:
            print("%-46s UNHANDLED %s" % (label, where))
        failures.append(label)
        return
    doc = msgpack.unpackb(data, raw=False, strict_map_key=False) if data else None
    if verbose:
        print("%-46s status=%r calls=%r doc=%r" % (label, status, CALLS, doc))
    is_fault = 'faultcode' in repr(doc)
    if is_fault:
        if 'Client' not in repr(doc) or CALLS \
                        or (status is not None and not status.startswith('4')):
            failures.append(label)


for name, cls in (('MessagePackDocument', MessagePackDocument),
                  ('MessagePackRpc', MessagePackRpc)):
    app = Application([Svc], 'tns', in_protocol=cls(), out_protocol=cls())
    wsgi = WsgiApplication(app)
    server = TestServer(app)

    def via_base(req):
        ctx = MethodContext(server, MethodContext.SERVER)
        ctx.in_string = [req]
        ctx, = server.generate_contexts(ctx)
        if ctx.in_error is None:
            server.get_in_object(ctx)
        if ctx.in_error is None:
            server.get_out_object(ctx)
        server.get_out_string(ctx)
        return None, b''.join(ctx.out_string)

    valid = VALID[name]
    check('%s/wsgi/valid' % name, lambda: call_wsgi(wsgi, valid))
    assert CALLS == [(1, 'x')], CALLS

    # control: truncation is handled
    check('%s/wsgi/valid[:-1] (truncated)' % name,
                                       lambda: call_wsgi(wsgi, valid[:-1]))

    for what, req in (('valid + b"\\x00"', valid + b'\x00'),
                      ('valid + valid', valid + valid),
                      ('b"\\xc0\\x39" (nil, then junk)', b'\xc0\x39')):
        check('%s/wsgi/%s' % (name, what), lambda: call_wsgi(wsgi, req))
        check('%s/ServerBase/%s' % (name, what), lambda: via_base(req))

    n0 = len(failures)
    for i, req in enumerate(RANDOM):
        check('%s/wsgi/random#%d %r' % (name, i, req),
                                lambda: call_wsgi(wsgi, req), verbose=False)
    print("%-46s %d of %d random byte strings not answered properly" % (
                       name + '/wsgi/random bytes', len(failures) - n0, len(RANDOM)))

print()
for k, v in crash_sites.items():
    print("crash x%d: %s" % (v, k))
print()
if failures:
    print("VIOLATION: %d MessagePack request(s) escaped as unhandled exceptions "
          "instead of Client faults, e.g.:\n  %s" % (len(failures),
                                                   '\n  '.join(failures[:8])))
    sys.exit(1)
print("OK: all inputs answered with a normal response or a Client fault")
