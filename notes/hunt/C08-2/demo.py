"""C08 / 2: DateTime(as_timezone=<pytz zone>, timezone=False) does not round
trip: the zone-less literal spyne writes is read back with the zone's LMT
offset (tzinfo is attached with .replace() instead of zone.localize())."""
from __future__ import print_function

import sys
import logging
logging.disable(logging.CRITICAL)

from datetime import datetime, timedelta
from io import BytesIO

import pytz
from lxml import etree

import spyne
from spyne import Application, rpc, ServiceBase
from spyne.model import DateTime
from spyne.protocol.xml import XmlDocument
from spyne.server.wsgi import WsgiApplication

print("spyne from", spyne.__file__)

ZONE = pytz.timezone('Europe/Istanbul')
LocalStamp = DateTime(as_timezone=ZONE, timezone=False)

# noon in Istanbul, as any pytz user would build it: 2020-01-01T12:00:00+03:00
VALUE = ZONE.localize(datetime(2020, 1, 1, 12, 0, 0))
received = []


class S(ServiceBase):
    @rpc(_returns=LocalStamp)
    def get(ctx):
        return VALUE

    @rpc(LocalStamp)
    def put(ctx, v):
        received.append(v)


app = Application([S], 'tns', in_protocol=XmlDocument(validator='lxml'),
                                                   out_protocol=XmlDocument())
wsgi = WsgiApplication(app)


def call(body):
    body = body.encode('utf8')
    env = {'REQUEST_METHOD': 'POST', 'PATH_INFO': '/', 'QUERY_STRING': '',
           'CONTENT_TYPE': 'text/xml; charset=utf-8',
           'CONTENT_LENGTH': str(len(body)), 'wsgi.input': BytesIO(body),
           'SERVER_NAME': 'localhost', 'SERVER_PORT': '80',
           'wsgi.url_scheme': 'http'}
    status = []
    out = b''.join(wsgi(env, lambda s, h, e=None: status.append(s)))
    return status[0], etree.fromstring(out)


status, doc = call('<get xmlns="tns"/>')
literal = doc.find('{tns}getResult').text
print("value              :", VALUE.isoformat(), "(utc %s)" %
                                  VALUE.astimezone(pytz.utc).isoformat())
print("written literal    :", literal)

status, doc = call('<put xmlns="tns"><v>%s</v></put>' % literal)
print("put status         :", status)
back = received[0]
print("read back          :", back.isoformat(), "(utc %s)" %
                                  back.astimezone(pytz.utc).isoformat())
print("utc offset         : wrote %s, read %s" % (VALUE.utcoffset(),
                                                          back.utcoffset()))
print("instants differ by :", abs(back - VALUE))

if back != VALUE or back.utcoffset() != VALUE.utcoffset():
    print("VIOLATION: reading back the text spyne wrote for this DateTime "
          "customization gives another instant / UTC offset")
    sys.exit(1)

print("OK")
