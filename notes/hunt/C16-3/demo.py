"""C16 / 3: XmlDocument/Soap11/Soap12 copy the XML attributes of a child
element into the *parent* object when the parent has an XmlAttribute member of
the same name -- which is always the case when a subclass holds a member of its
own base type, because both carry the ancestor's attribute.

    class Node(ComplexModel):   tag  = XmlAttribute(Unicode); a = Integer
    class Branch(Node):         left = Node; kids = Node.customize(max_occurs='unbounded')

    Branch(a=1, left=Branch(tag='inner', a=2))      # outer.tag is None

The receiver rebuilds the outer Branch with tag == 'inner'. The same happens
with the items of a repeated (max_occurs > 1) member of the base type.
"""
from __future__ import print_function

import sys
import logging
logging.basicConfig(level=logging.CRITICAL)

import spyne
assert spyne.__file__.startswith('/tmp/wth/C16/'), spyne.__file__

from spyne import Application, Service, rpc, ComplexModel, Integer, Unicode, \
    Array, XmlAttribute, MethodContext
from spyne.server import ServerBase
from spyne.client import ClientBase, RemoteProcedureBase, RemoteService
from spyne.protocol.xml import XmlDocument
from spyne.protocol.soap import Soap11, Soap12
from spyne.protocol.json import JsonDocument


class Node(ComplexModel):
    __namespace__ = 'ns.tree'
    tag = XmlAttribute(Unicode)
    a = Integer


class Branch(Node):
    __namespace__ = 'ns.tree'
    left = Node
    kids = Node.customize(max_occurs='unbounded')


class Twig(Branch):
    __namespace__ = 'ns.tree'
    colour = XmlAttribute(Unicode)


received = []


class TreeService(Service):
    @rpc(Node, _returns=Node)
    def echo(ctx, node):
        received.append(node)
        return node


class _LoopbackProcedure(RemoteProcedureBase):
    def __call__(self, *args, **kwargs):
        server = self.url
        ctx, = self.contexts
        self.get_out_object(ctx, args, kwargs)
        self.get_out_string(ctx)
        server.last_request = b''.join(ctx.out_string)

        sctx = MethodContext(server, MethodContext.SERVER)
        sctx.in_string = [server.last_request]
        sctx, = server.generate_contexts(sctx)
        if sctx.in_error is None:
            server.get_in_object(sctx)
        if sctx.in_error is None:
            server.get_out_object(sctx)
        server.get_out_string(sctx)
        server.last_response = b''.join(sctx.out_string)
        if sctx.in_error is not None:
            raise sctx.in_error
        if sctx.out_error is not None:
            raise sctx.out_error

        ctx.in_string = [server.last_response]
        self.get_in_object(ctx)
        if ctx.in_error is not None:
            raise ctx.in_error
        return ctx.in_object


class LoopbackClient(ClientBase):
    def __init__(self, server, app):
        super(LoopbackClient, self).__init__(server, app)
        self.service = RemoteService(_LoopbackProcedure, server, app)


def describe(o):
    if o is None:
        return None
    if isinstance(o, list):
        return [describe(e) for e in o]
    if isinstance(o, ComplexModel):
        cls = o.__class__
        return cls.__name__, [(k, describe(getattr(o, k, None)))
                                       for k in cls.get_flat_type_info(cls)]
    return o


PROTOCOLS = [
    ('XmlDocument', lambda: XmlDocument(polymorphic=True)),
    ('Soap11', lambda: Soap11(polymorphic=True)),
    ('Soap12', lambda: Soap12(polymorphic=True)),
    # for comparison: the dict family gets the same objects right
    ('JsonDocument', lambda: JsonDocument(polymorphic=True,
                                                       ignore_wrappers=False)),
]

CASES = [
    ("attribute only on the nested subclass instance",
        lambda: Branch(a=1, left=Branch(tag='inner', a=2))),
    ("attributes only on an item of a repeated member (depth 3 class)",
        lambda: Twig(a=1, kids=[Node(a=2), Twig(tag='item', colour='red')])),
]

failures = 0
for name, factory in PROTOCOLS:
    server_app = Application([TreeService], 'tns', name='TreeApp',
                                in_protocol=factory(), out_protocol=factory())
    client_app = Application([TreeService], 'tns', name='TreeApp',
                                in_protocol=factory(), out_protocol=factory())
    server = ServerBase(server_app)
    client = LoopbackClient(server, client_app)

    for title, make in CASES:
        sent = make()
        want = describe(sent)
        del received[:]
        back = describe(client.service.echo(sent))
        got = describe(received[0])
        ok = (got == want and back == want)
        print("%s: %s" % (name, title))
        print("    sent            :", want)
        if name != 'JsonDocument':
            print("    request payload :",
                       server.last_request[server.last_request.find(b'node') - 5:])
        print("    service received:", got)
        print("    =>", "ok" if ok else
                  "VIOLATION: outer tag=%r colour=%r, sent tag=%r colour=%r" % (
                        received[0].tag, getattr(received[0], 'colour', None),
                                  sent.tag, getattr(sent, 'colour', None)))
        if not ok:
            failures += 1
        print()

if failures:
    print("%d round trips changed field values of the outer object" % failures)
    sys.exit(1)
print("ok")
