"""C04 / 4: the pass-through number readers of the dict protocols only refuse a
black list of kinds (list, dict, str, bytes), so an Integer slot takes whatever
else the decoder produces.

JsonDocument/YamlDocument/MessagePackDocument._ret_number() is the reader for
Integer (and Double):

        if isinstance(value, NON_NUMBER_TYPES):   # list, dict, str, bytes
            raise ValidationError(value)
        if isinstance(value, bool):
            return int(value)
        return value

Under validator='soft':
 * a Json/Yaml/MessagePack float with an integral value (1.0, 3e0) passes
   Integer.validate_native (int(v) == v) and user code gets a float where
   Integer is declared (range(n), list indexing, '%d' keys ... break);
 * a Yaml timestamp (datetime.date), a Yaml !!set, a MessagePack ext value or
   -- with MessagePackRpc's default use_list=False -- a MessagePack array (tuple)
   is returned as the "number" and then blows up inside validate_native with a
   TypeError that no layer turns into a fault: the transport crashes instead
   of answering Client.ValidationError.
"""

from __future__ import print_function

import sys
import json
import logging

logging.basicConfig(level=logging.CRITICAL)

import msgpack

import spyne
from spyne import Application, rpc, ServiceBase, MethodContext
from spyne import Unicode, Integer, Integer32, ComplexModel, Array
from spyne.protocol.json import JsonDocument
from spyne.protocol.yaml import YamlDocument
from spyne.protocol.msgpack import MessagePackDocument, MessagePackRpc
from spyne.server import ServerBase

print("spyne from", spyne.__file__)

received = []


class Page(ComplexModel):
    __namespace__ = 'tns'
    size = Integer32
    marks = Array(Integer)


class Svc(ServiceBase):
    @rpc(Integer, Page, _returns=Unicode)
    def fetch(ctx, n, page):
        received.append(('n', n))
        if page is not None:
            received.append(('page.size', page.size))
            for m in page.marks or ():
                received.append(('page.marks[]', m))
        return u'ok'


def call(app, body):
    """What every transport does with a request."""
    server = ServerBase(app)
    initial = MethodContext(server, MethodContext.SERVER)
    initial.in_string = [body]
    ctx, = server.generate_contexts(initial)
    if ctx.in_error is None:
        server.get_in_object(ctx)
    if ctx.in_error is None:
        server.get_out_object(ctx)
    return ctx.in_error or ctx.out_error


CASES = [
    # protocol, label, request bytes
    (JsonDocument, 'valid ints',
        b'{"fetch": {"n": 3, "page": {"size": 10, "marks": [1, 2]}}}'),
    (JsonDocument, 'int -> integral float',
        b'{"fetch": {"n": 3.0, "page": {"size": 1e1, "marks": [1, 2.0]}}}'),
    (YamlDocument, 'int -> integral float',
        b'fetch:\n  n: 3.0\n  page:\n    size: 10.0\n'),
    (MessagePackDocument, 'int -> integral float',
        msgpack.packb({'fetch': {'n': 3.0, 'page': {'marks': [2.0]}}})),
    (YamlDocument, 'int -> yaml timestamp',
        b'fetch:\n  n: 2020-01-02\n'),
    (YamlDocument, 'int -> yaml set',
        b'fetch:\n  page:\n    size: !!set {1, 2}\n'),
    (MessagePackDocument, 'int -> msgpack ext',
        msgpack.packb({'fetch': {'n': msgpack.ExtType(5, b'x')}})),
    (MessagePackRpc, 'int -> array (mprpc)',
        msgpack.packb([0, 1, 'fetch', [[1, 2]]])),
]

violations = 0
for pcls, label, body in CASES:
    app = Application([Svc], 'tns', name='App',
                      in_protocol=pcls(validator='soft'),
                      out_protocol=JsonDocument())
    del received[:]
    head = "%-19s %-24s" % (pcls.__name__, label)
    try:
        error = call(app, body)

    except Exception as e:
        violations += 1
        print("%s -> VIOLATION: %s escaped from the server: %s"
                                          % (head, type(e).__name__, e))
        continue

    if error is not None:
        print("%s -> fault %s" % (head, error.faultcode))
        if not error.faultcode.startswith('Client'):
            violations += 1
        continue

    for where, value in received:
        ok = value is None or (isinstance(value, int)
                                            and not isinstance(value, bool))
        print("%s -> %s = %r (%s)%s" % (head, where, value,
              type(value).__name__,
                      "" if ok else "    VIOLATION: Integer slot, not an int"))
        if not ok:
            violations += 1

print()
if violations:
    print("%d Integer slots got a non-int or crashed the server under "
          "validator='soft' (expected: an int or Client.ValidationError)"
                                                                  % violations)
    sys.exit(1)

print("OK: Integer slots only ever held ints")
