"""C18 / 1: an Ignored return from a method with MANY return values is delivered
to the NullServer caller, but is NOT "sent as empty over the wire": the wire
path blows up instead of producing an empty response."""
import json
import logging
import sys
import traceback
from io import BytesIO

logging.disable(logging.CRITICAL)

import spyne
print("spyne from", spyne.__file__)

from lxml import etree
from spyne import Application, Service, srpc, Integer, Unicode, Ignored
from spyne import MethodContext
from spyne.protocol.xml import XmlDocument
from spyne.protocol.soap import Soap11
from spyne.protocol.json import JsonDocument
from spyne.server import ServerBase
from spyne.server.null import NullServer
from spyne.server.wsgi import WsgiApplication


class S(Service):
    @srpc(Integer, _returns=[Integer, Unicode])
    def two(a):
        return Ignored("for direct callers only")

    # control: same thing with ONE return value works as the property says
    @srpc(Integer, _returns=Unicode)
    def one(a):
        return Ignored("for direct callers only")


def wsgi_call(app, body, ctype):
    env = {'REQUEST_METHOD': 'POST', 'PATH_INFO': '/', 'QUERY_STRING': '',
           'SERVER_NAME': 'localhost', 'SERVER_PORT': '80',
           'wsgi.url_scheme': 'http', 'CONTENT_TYPE': ctype,
           'CONTENT_LENGTH': str(len(body)), 'wsgi.input': BytesIO(body)}
    st = {}

    def start_response(status, headers, exc_info=None):
        st['status'] = status

    ret = b''.join(WsgiApplication(app)(env, start_response))
    return st['status'], ret


class InProcServer(ServerBase):
    transport = 'http://inproc'


def pipeline_call(app, body):
    """The bare ServerBase pipeline every transport is built from."""
    srv = InProcServer(app)
    ictx = MethodContext(srv, MethodContext.SERVER)
    ictx.in_string = [body]
    ctx, = srv.generate_contexts(ictx)
    srv.get_in_object(ctx)
    srv.get_out_object(ctx)
    srv.get_out_string(ctx)
    return '200 OK', b''.join(ctx.out_string)


def values_in_xml(doc):
    return [e.text for e in etree.fromstring(doc).iter() if e.text]


def values_in_json(doc):
    v = json.loads(doc)
    out = []

    def walk(x):
        if isinstance(x, dict):
            for y in x.values():
                walk(y)
        elif isinstance(x, (list, tuple)):
            for y in x:
                walk(y)
        elif x is not None:
            out.append(x)
    walk(v)
    return out


SOAP = '<e:Envelope xmlns:e="http://schemas.xmlsoap.org/soap/envelope/">' \
       '<e:Body>%s</e:Body></e:Envelope>'
WIRE = [
    (XmlDocument, lambda m: '<%s xmlns="tns"><a>1</a></%s>' % (m, m),
                                                    'text/xml', values_in_xml),
    (Soap11, lambda m: SOAP % ('<%s xmlns="tns"><a>1</a></%s>' % (m, m)),
                                                    'text/xml', values_in_xml),
    (JsonDocument, lambda m: '{"%s": {"a": 1}}' % m,
                                            'application/json', values_in_json),
]

failures = []
for method in ('one', 'two'):
    for prot, mkbody, ctype, values in WIRE:
        app = Application([S], 'tns', in_protocol=prot(), out_protocol=prot())

        direct = NullServer(app).service[method](1)
        print("%-3s %-12s NullServer -> %r" % (method, prot.__name__,
                                  ("Ignored", direct.args)
                                  if isinstance(direct, Ignored) else direct))
        if direct != Ignored("for direct callers only"):
            failures.append((method, prot.__name__, 'null', direct))

        body = mkbody(method).encode()
        for label, call in (('WsgiApplication', lambda: wsgi_call(app, body, ctype)),
                            ('ServerBase pipeline', lambda: pipeline_call(app, body))):
            try:
                status, doc = call()
                vals = values(doc)
                ok = status.startswith('200') and vals == []
                print("    %-20s -> %s %r values=%r" % (label, status, doc, vals))
                if not ok:
                    failures.append((method, prot.__name__, label, doc))

            except Exception as e:
                tb = traceback.extract_tb(sys.exc_info()[2])[-1]
                print("    %-20s -> CRASH %s: %s  (%s:%d in %s)" % (label,
                      type(e).__name__, e, tb.filename, tb.lineno, tb.name))
                failures.append((method, prot.__name__, label, repr(e)))

print()
if failures:
    print("VIOLATION: an Ignored return value is not sent as an empty response "
          "for %d (method, protocol, path) combinations:" % len(failures))
    for f in failures:
        print("   ", f)
    sys.exit(1)

print("OK: Ignored is delivered to the direct caller and empty over the wire")
