"""C02 / 1: a None value of a complex type is serialised as an EMPTY OBJECT
({} or [null, null]) instead of null, when it is the result of the method or an
item of an array.  The response therefore does not decode to the value that
was returned: None comes back as C().

The request side does make the difference (null -> None, {} -> C()), so the very
same document conventions give two different values.
"""
from __future__ import print_function

import sys, json, logging
logging.disable(logging.CRITICAL)

import msgpack, yaml

import spyne
print("spyne from", spyne.__file__)

from spyne import Application, Service, rpc, ComplexModel, Integer, Unicode, \
    Array, MethodContext
from spyne.server import ServerBase
from spyne.protocol.json import JsonDocument
from spyne.protocol.yaml import YamlDocument
from spyne.protocol.msgpack import MessagePackDocument


class C(ComplexModel):
    i = Integer
    s = Unicode


SEEN = []


class Svc(Service):
    @rpc(Array(C), _returns=Array(C))
    def echo_array(ctx, v):
        SEEN.append(v)
        return v

    @rpc(C, _returns=C)
    def echo_one(ctx, v):
        SEEN.append(v)
        return v


def call(app, in_string):
    server = ServerBase(app)
    initial_ctx = MethodContext(server, MethodContext.SERVER)
    initial_ctx.in_string = [in_string]
    ctx, = server.generate_contexts(initial_ctx)
    if ctx.in_error is None:
        server.get_in_object(ctx)
    if ctx.in_error is None:
        server.get_out_object(ctx)
    else:
        ctx.out_error = ctx.in_error
    server.get_out_string(ctx)
    return b''.join(ctx.out_string)


def native(o):
    """comparable form of the native values"""
    if isinstance(o, C):
        return ('C', o.i, o.s)
    if isinstance(o, (list, tuple)):
        return [native(x) for x in o]
    return o


def strkeys(o):
    # MessagePackDocument writes keys and text as msgpack bin
    if isinstance(o, bytes):
        return o.decode('utf8')
    if isinstance(o, dict):
        return dict((strkeys(k), strkeys(v)) for k, v in o.items())
    if isinstance(o, (list, tuple)):
        return [strkeys(x) for x in o]
    return o


WIRES = [
    ('JsonDocument', JsonDocument,
        lambda d: json.dumps(d).encode('utf8'), lambda s: json.loads(s)),
    ('YamlDocument', YamlDocument,
        lambda d: yaml.safe_dump(d).encode('utf8'), lambda s: yaml.safe_load(s)),
    ('MessagePackDocument', MessagePackDocument,
        lambda d: msgpack.packb(d), lambda s: strkeys(msgpack.unpackb(s))),
]

failures = 0
n = 0
for pname, pcls, dumps, loads in WIRES:
    for complex_as in (dict, list):
        for validator in (None, 'soft'):
            n += 1
            app = Application([Svc], 'tns%d' % n, name='App%d' % n,
                in_protocol=pcls(validator=validator, complex_as=complex_as),
                out_protocol=pcls(complex_as=complex_as))

            full = {"i": 1, "s": "a"} if complex_as is dict else [1, "a"]

            # --- an array of objects one of which is None
            arg = [full, None]
            SEEN[:] = []
            out = loads(call(app, dumps({"echo_array": {"v": arg}})))
            got = native(SEEN[0]) if len(SEEN) == 1 else SEEN
            ok_in = got == [('C', 1, 'a'), None]
            ok_out = out == arg
            # the response is what the request was: send it back
            SEEN[:] = []
            call(app, dumps({"echo_array": {"v": out}}))
            again = native(SEEN[0]) if len(SEEN) == 1 else SEEN
            ok_again = again == [('C', 1, 'a'), None]

            # --- a None result
            SEEN[:] = []
            out1 = loads(call(app, dumps({"echo_one": {"v": None}})))
            got1 = SEEN[0] if len(SEEN) == 1 else SEEN
            ok1 = got1 is None and out1 is None

            print("%-20s complex_as=%-4s validator=%-4s" %
                                   (pname, complex_as.__name__, validator))
            print("    echo_array(%r)" % (arg,))
            print("        function received : %r %s" % (got, "" if ok_in else "<-- WRONG"))
            print("        response document : %r %s" % (out,
                       "" if ok_out else "<-- WRONG, expected %r" % (arg,)))
            print("        response sent back as request, function received: %r %s" % (
                       again, "" if ok_again else "<-- None became an empty C()"))
            print("    echo_one(None)")
            print("        function received %r, response document: %r %s" % (got1, out1,
                       "" if ok1 else "<-- WRONG, expected None (null)"))

            if not (ok_in and ok_out and ok_again and ok1):
                failures += 1

print()
if failures:
    print("VIOLATION: in %d of %d configurations a None of a complex type "
          "does not survive the response" % (failures, n))
    sys.exit(1)

print("OK")
