# -*- coding: utf-8 -*-
"""C01 / 4: the non-finite values of Double/Float.

xs:double / xs:float have three special values whose only literals are
'INF', '-INF' and 'NaN'.  Spyne reads these, but writes python's repr():
'inf', '-inf', 'nan', which are not in the lexical space of xs:double.  So

 * the response does not validate against the published schema and a
   decoder that implements XML Schema Part 2 can not decode it;
 * the Spyne client's own request is refused by a Spyne server running with
   validator='lxml', and the function is never called."""

import io, re, sys, math, logging
logging.basicConfig(level=logging.CRITICAL)

import spyne
print("spyne from", spyne.__file__)

from lxml import etree
from spyne import Application, srpc, Service, Double, Float
from spyne.protocol.soap import Soap11, Soap12
from spyne.protocol.xml import XmlDocument
from spyne.server.wsgi import WsgiApplication
from spyne.client import RemoteProcedureBase, RemoteService, ClientBase
from spyne.interface.xml_schema import XmlSchema

TNS = 'urn:t'
ENV = {Soap11: 'http://schemas.xmlsoap.org/soap/envelope/',
       Soap12: 'http://www.w3.org/2003/05/soap-envelope'}
CT = {Soap11: 'text/xml; charset=utf-8',
      Soap12: 'application/soap+xml; charset=utf-8',
      XmlDocument: 'text/xml; charset=utf-8'}

received = []


class NumService(Service):
    @srpc(Double, _returns=Double)
    def echo_double(x):
        received.append(x)
        return x

    @srpc(Float, _returns=Float)
    def echo_float(x):
        received.append(x)
        return x


# XML Schema Part 2, 3.2.5.1: lexical space of double
_XSD_DOUBLE = re.compile(r'^\s*([+-]?(\d+(\.\d*)?|\.\d+)([eE][+-]?\d+)?|'
                                                   r'-?INF|NaN)\s*$')

def xsd_double(text):
    """The reference decoder: xs:double literal -> float, or ValueError."""
    if text is None or not _XSD_DOUBLE.match(text):
        raise ValueError("%r is not an xs:double literal" % (text,))
    return float(text)  # python accepts INF/-INF/NaN case-insensitively


def same(a, b):
    return (a == b) or (a != a and b != b)


def post(wsgi, body, ctype):
    env = {'REQUEST_METHOD': 'POST', 'PATH_INFO': '/', 'QUERY_STRING': '',
           'SERVER_NAME': 'x', 'SERVER_PORT': '80', 'SCRIPT_NAME': '',
           'wsgi.url_scheme': 'http', 'CONTENT_TYPE': ctype,
           'CONTENT_LENGTH': str(len(body)), 'wsgi.input': io.BytesIO(body),
           'wsgi.errors': sys.stderr}
    st = {}
    def start_response(status, headers, exc_info=None):
        st['status'] = status
    out = b''.join(wsgi(env, start_response))
    return st['status'], out


class _LoopbackProcedure(RemoteProcedureBase):
    """The Spyne client, with the HTTP hop replaced by a direct WSGI call."""
    def __call__(self, *args, **kwargs):
        ctx = self.contexts[0]
        self.get_out_object(ctx, args, kwargs)
        self.get_out_string(ctx)
        self.request = b''.join(ctx.out_string)
        status, out = post(self.url, self.request,
                                           CT[type(self.app.out_protocol)])
        ctx.in_string = [out]
        self.get_in_object(ctx)
        if ctx.in_error is not None:
            raise ctx.in_error
        return ctx.in_object


class LoopbackClient(ClientBase):
    def __init__(self, wsgi, app):
        super(LoopbackClient, self).__init__(wsgi, app)
        self.service = RemoteService(_LoopbackProcedure, wsgi, app)


failures = 0

print("--- 1. requests written with the XSD literals; validator=None ---")
for proto in (Soap11, Soap12, XmlDocument):
    app = Application([NumService], TNS, in_protocol=proto(),
                                                        out_protocol=proto())
    wsgi = WsgiApplication(app)
    xs = XmlSchema(app.interface)
    xs.build_validation_schema()

    for method in ('echo_double', 'echo_float'):
        for literal in ('1.5E3', 'INF', '-INF', 'NaN'):
            value = float(literal)
            payload = u'<t:%s xmlns:t="urn:t"><t:x>%s</t:x></t:%s>' % (
                                                     method, literal, method)
            if proto in ENV:
                payload = u'<e:Envelope xmlns:e="%s"><e:Body>%s</e:Body>' \
                          u'</e:Envelope>' % (ENV[proto], payload)
            del received[:]
            status, out = post(wsgi, payload.encode('utf8'), CT[proto])
            doc = etree.fromstring(out)
            body, = doc.xpath('//t:%sResponse' % method, namespaces={'t': TNS})
            text = body[0].text
            valid = xs.validation_schema.validate(body)
            try:
                decoded = xsd_double(text)
                dec = repr(decoded)
            except ValueError as e:
                decoded, dec = None, 'undecodable'
            ok = len(received) == 1 and same(received[0], value) and valid \
                               and decoded is not None and same(decoded, value)
            print("%-11s %-11s sent %-6s function got %-5r response text %-8r "
                  "schema-valid: %-5s reference decoder: %-11s %s" % (
                   proto.__name__, method, literal, received[0], text, valid,
                                          dec, "ok" if ok else "VIOLATION"))
            failures += not ok

print()
print("--- 2. Spyne client -> Spyne server, validator='lxml' ---")
for proto in (Soap11, XmlDocument):
    app = Application([NumService], TNS, in_protocol=proto(validator='lxml'),
                                                        out_protocol=proto())
    wsgi = WsgiApplication(app)
    client = LoopbackClient(wsgi, app)
    for value in (1500.0, float('inf'), float('-inf'), float('nan')):
        del received[:]
        proc = client.service.echo_double
        try:
            ret, err = proc(value), None
        except Exception as e:
            ret, err = None, e
        sent = etree.fromstring(proc.request).xpath('//t:x/text()',
                                                       namespaces={'t': TNS})
        ok = len(received) == 1 and same(received[0], value) \
                                   and ret is not None and same(ret, value)
        print("%-11s echo_double(%r): client wrote <x>%s</x>; function calls: "
              "%r; client got %r %s %s" % (proto.__name__, value, sent[0],
                 received, ret, ("(%s)" % type(err).__name__) if err else "",
                                               "ok" if ok else "VIOLATION"))
        failures += not ok

print()
if failures:
    print("%d checks failed: INF, -INF and NaN are written as 'inf', '-inf' "
          "and 'nan'" % failures)
    sys.exit(1)
print("all doubles made the round trip")
