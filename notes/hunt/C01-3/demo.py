# -*- coding: utf-8 -*-
"""C01 / 3: XmlDocument + bare body style + primitive result.

The published schema declares <xs:element name="<method>Response" type=...>
as the response of a bare method.  Soap11 writes that element; XmlDocument
writes <tns:retval> -- an element the schema does not declare, identical for
every method -- so a schema-driven decoder can not decode the result."""

import io, sys, logging, datetime
logging.basicConfig(level=logging.CRITICAL)

import spyne
print("spyne from", spyne.__file__)

from lxml import etree
from spyne import Application, srpc, Service, Integer, Unicode, DateTime, \
    ComplexModel
from spyne.protocol.xml import XmlDocument
from spyne.server.wsgi import WsgiApplication
from spyne.interface.xml_schema import XmlSchema

TNS = 'urn:t'


class Point(ComplexModel):
    __namespace__ = TNS
    x = Integer
    y = Integer


received = []


class BareService(Service):
    @srpc(Integer, _returns=Integer, _body_style='bare')
    def twice(i):
        received.append(i)
        return 2 * i

    @srpc(Unicode, _returns=Unicode, _body_style='bare')
    def shout(s):
        received.append(s)
        return s.upper()

    @srpc(Integer, _returns=DateTime, _body_style='out_bare')
    def epoch_plus(seconds):
        received.append(seconds)
        return datetime.datetime(1970, 1, 1, tzinfo=datetime.timezone.utc) \
                                      + datetime.timedelta(seconds=seconds)

    # control: a bare *complex* result is named correctly
    @srpc(Point, _returns=Point, _body_style='bare')
    def mirror(p):
        received.append(p)
        return Point(x=p.y, y=p.x)


def post(wsgi, body, ctype='text/xml; charset=utf-8'):
    env = {'REQUEST_METHOD': 'POST', 'PATH_INFO': '/', 'QUERY_STRING': '',
           'SERVER_NAME': 'x', 'SERVER_PORT': '80', 'SCRIPT_NAME': '',
           'wsgi.url_scheme': 'http', 'CONTENT_TYPE': ctype,
           'CONTENT_LENGTH': str(len(body)), 'wsgi.input': io.BytesIO(body),
           'wsgi.errors': sys.stderr}
    st = {}
    def start_response(status, headers, exc_info=None):
        st['status'] = status
    out = b''.join(wsgi(env, start_response))
    return st['status'], out


REQUESTS = [
    ('twice',      u'<t:twice xmlns:t="urn:t">21</t:twice>'),
    ('shout',      u'<t:shout xmlns:t="urn:t">h\xe9</t:shout>'),
    ('epoch_plus', u'<t:epoch_plus xmlns:t="urn:t"><t:seconds>60</t:seconds>'
                   u'</t:epoch_plus>'),
    ('mirror',     u'<t:mirror xmlns:t="urn:t"><t:x>1</t:x><t:y>2</t:y>'
                   u'</t:mirror>'),
]

failures = 0
for validator in (None, 'soft', 'lxml'):
    app = Application([BareService], TNS,
        in_protocol=XmlDocument(validator=validator), out_protocol=XmlDocument())
    wsgi = WsgiApplication(app)
    xs = XmlSchema(app.interface)
    xs.build_validation_schema()
    schema_doc = xs.get_interface_document()['tns']
    declared = set(schema_doc.xpath('xs:element/@name',
                    namespaces={'xs': 'http://www.w3.org/2001/XMLSchema'}))

    for name, req in REQUESTS:
        del received[:]
        status, out = post(wsgi, req.encode('utf8'))
        root = etree.fromstring(out)
        local = etree.QName(root).localname
        valid = xs.validation_schema.validate(root)
        expected = name + 'Response'
        ok = status.startswith('200') and len(received) == 1 \
                  and local == expected and valid
        print("validator=%-5s %-10s function got %r; HTTP %s; response root "
              "<%s> (schema declares <%s>: %s; <%s> declared: %s); validates: "
              "%s  %s" % (validator, name, received, status, local, expected,
                  expected in declared, local, local in declared, valid,
                                                "ok" if ok else "VIOLATION"))
        if not ok:
            print("      wire:", out.decode('utf8').split('\n', 1)[-1])
            failures += 1

print()
if failures:
    print("%d responses are not instances of the element the schema publishes "
          "for them" % failures)
    sys.exit(1)
print("all responses match the published schema")
