"""C04 / 3: hierarchical dict documents (Json, Yaml, MessagePack) put ANY value
kind into an AnyDict slot, even under soft validation.

HierDictDocument._from_dict_value() has

        if issubclass(cls, (Any, AnyDict)):
            retval = inst

so the document value is passed through untouched.  That is right for Any, but
the native type of AnyDict is dict (XmlDocument delivers a dict or None for it).
validate() only knows about Unicode/ByteArray (+ date/time for Json) and
AnyDict.validate_native() accepts everything, so with validator='soft' a number,
a string, a boolean or a list sent where a map is declared reaches user code
as is -- as a direct argument, as a member of an object, as an array item and
as the single argument of a bare method.
"""

from __future__ import print_function

import sys
import json
import logging

logging.basicConfig(level=logging.CRITICAL)

import yaml
import msgpack

import spyne
from spyne import Application, rpc, ServiceBase, MethodContext
from spyne import Unicode, AnyDict, ComplexModel, Array
from spyne.protocol.json import JsonDocument
from spyne.protocol.yaml import YamlDocument
from spyne.protocol.msgpack import MessagePackDocument
from spyne.server import ServerBase

print("spyne from", spyne.__file__)

received = []


class Event(ComplexModel):
    __namespace__ = 'tns'
    name = Unicode
    props = AnyDict


class Svc(ServiceBase):
    @rpc(AnyDict, Event, Array(AnyDict), _returns=Unicode)
    def log(ctx, props, event, many):
        received.append(('props', props))
        if event is not None:
            received.append(('event.props', event.props))
        for m in many or ():
            received.append(('many[]', m))
        return u'ok'

    @rpc(AnyDict, _body_style='bare', _returns=Unicode)
    def bare_log(ctx, props):
        received.append(('bare props', props))
        return u'ok'


def call(app, body):
    """What every transport does with a request."""
    server = ServerBase(app)
    initial = MethodContext(server, MethodContext.SERVER)
    initial.in_string = [body]
    ctx, = server.generate_contexts(initial)
    if ctx.in_error is None:
        server.get_in_object(ctx)
    if ctx.in_error is None:
        server.get_out_object(ctx)
    return ctx.in_error or ctx.out_error


PROTOCOLS = [
    ('JsonDocument', JsonDocument, lambda d: json.dumps(d).encode('utf8')),
    ('YamlDocument', YamlDocument, lambda d: yaml.safe_dump(d).encode('utf8')),
    ('MessagePackDocument', MessagePackDocument, msgpack.packb),
]

DOCUMENTS = [
    ('valid: maps everywhere',
        {'log': {'props': {'k': 1}, 'event': {'name': 'e', 'props': {'k': 2}},
                                                      'many': [{'k': 3}]}}),
    ('map -> number',  {'log': {'props': 5}}),
    ('map -> string',  {'log': {'event': {'name': 'e', 'props': 'text'}}}),
    ('map -> list',    {'log': {'props': [1, 2, 3]}}),
    ('map -> boolean', {'log': {'many': [True, {'k': 1}]}}),
    ('bare: map -> list', {'bare_log': ['x']}),
]

violations = 0
for pname, pcls, dumps in PROTOCOLS:
    app = Application([Svc], 'tns', name='App',
                      in_protocol=pcls(validator='soft'),
                      out_protocol=JsonDocument())

    for label, doc in DOCUMENTS:
        del received[:]
        error = call(app, dumps(doc))
        if error is not None:
            print("%-20s %-24s -> fault %s" % (pname, label, error.faultcode))
            if not error.faultcode.startswith('Client'):
                violations += 1
            continue

        for where, value in received:
            ok = value is None or isinstance(value, dict)
            print("%-20s %-24s -> %s = %r (%s)%s" % (pname, label, where,
                       value, type(value).__name__, "" if ok else
                                  "    VIOLATION: AnyDict slot, not a dict"))
            if not ok:
                violations += 1

print()
if violations:
    print("%d AnyDict slots received something that is not a dict under "
          "validator='soft' (expected: Client.ValidationError)" % violations)
    sys.exit(1)

print("OK: AnyDict slots only ever held dicts")
