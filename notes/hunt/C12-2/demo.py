"""C12 / 2 -- two first requests of a method that switches to a shared output
protocol (``ctx.out_protocol = prot``, the idiom of examples/tfb/app.py and
examples/multiple_protocols/server.py): one of the callers gets a Server fault
('One protocol instance should belong to one application instance...')
instead of its result.

HttpMethodContext.set_out_protocol (spyne/server/http.py; same code in
spyne/context.py) binds the protocol object to the application lazily, with
an unguarded check-then-act on the shared protocol object:

        if self._out_protocol.app is None:
            self._out_protocol.set_app(self.app)      # asserts app is None

The schedule is forced at line granularity with sys.settrace: request A is
held between these two lines, request B is processed from start to end by
another thread, then A goes on.  No spyne code is changed.
"""

import sys, threading, logging
from io import BytesIO


class _Keep(logging.Handler):
    records = []
    def emit(self, record):
        self.records.append(record)

_l = logging.getLogger('spyne')
_l.addHandler(_Keep())
_l.propagate = False     # keep stderr quiet, the cause is printed below

import spyne
from spyne import Application, rpc, ServiceBase, Integer, Unicode
from spyne.protocol.http import HttpRpc
from spyne.protocol.json import JsonDocument
from spyne.server.wsgi import WsgiApplication

print("spyne from", spyne.__file__)


def build():
    out_plain = HttpRpc(mime_type='text/plain')   # shared, as in examples/tfb

    class Svc(ServiceBase):
        @rpc(Integer, _returns=Unicode)
        def plain(ctx, n):
            ctx.out_protocol = out_plain
            return u'plain %d' % n

        @rpc(Integer, _returns=Integer)
        def twice(ctx, n):
            return 2 * n

    app = Application([Svc], 'tns', in_protocol=HttpRpc(validator='soft'),
                                                  out_protocol=JsonDocument())
    return WsgiApplication(app)


def call(wsgi, path, qs):
    env = {
        'REQUEST_METHOD': 'GET', 'PATH_INFO': path, 'QUERY_STRING': qs,
        'SERVER_NAME': 'localhost', 'SERVER_PORT': '80',
        'wsgi.url_scheme': 'http', 'wsgi.input': BytesIO(b''),
    }
    status = []
    ret = wsgi(env, lambda s, h, e=None: status.append(
                                            (s, dict(h).get('Content-Type'))))
    out = b''.join(ret)
    if hasattr(ret, 'close'):
        ret.close()
    return status[0], out


def forced(wsgi, first, second):
    """Process `first`; hold it between the `app is None` test and the
    set_app() call; process `second` completely; release `first`."""

    held, go = threading.Event(), threading.Event()
    res = {}

    def tracer(frame, event, arg):
        co = frame.f_code
        if co.co_name == 'set_out_protocol' and \
                   co.co_filename.endswith(('server/http.py', 'context.py')):
            def local(frame, event, arg):
                if event == 'line' and not held.is_set():
                    import linecache
                    src = linecache.getline(co.co_filename, frame.f_lineno)
                    if '.set_app(' in src:
                        # the test on the previous line said: not bound yet
                        held.set()
                        go.wait(10)
                return local
            return local
        return None

    def t_first():
        sys.settrace(tracer)
        try:
            res['first'] = call(wsgi, *first)
        finally:
            sys.settrace(None)
            go.set(); held.set()

    def t_second():
        held.wait(10)
        res['second'] = call(wsgi, *second)
        go.set()

    ts = [threading.Thread(target=t_first), threading.Thread(target=t_second)]
    [t.start() for t in ts]
    [t.join(30) for t in ts]
    return res['first'], res['second']


A = ('/plain', 'n=1')
B = ('/plain', 'n=2')
C = ('/twice', 'n=21')

# sequential oracle, each on a fresh application (cold, like the racing one)
alone_a = call(build(), *A)
alone_b = call(build(), *B)
w = build()
seq = [call(w, *A), call(w, *B), call(w, *C)]
print("alone A       :", alone_a)
print("alone B       :", alone_b)
print("sequential ABC:", seq)
assert seq[0] == alone_a and seq[1] == alone_b

del _Keep.records[:]
got_a, got_b = forced(build(), A, B)
print("\nconcurrent A  :", got_a)
print("concurrent B  :", got_b)

for r in _Keep.records:
    if r.levelno >= logging.ERROR:
        print("logged by spyne :", str(r.getMessage())[:160])
bad = 0
if got_a != alone_a:
    bad += 1
    print("VIOLATION: A did not get the response it gets when processed alone")
if got_b != alone_b:
    bad += 1
    print("VIOLATION: B did not get the response it gets when processed alone")

if bad:
    print("\nFAIL: %d response(s) differ from the sequential oracle" % bad)
    sys.exit(1)

print("\nOK: every caller got the response it gets when processed alone")
