"""C02 / 2: MessagePackRpc cannot deserialise the request of a bare method whose
single argument is not an object (Integer, Unicode, ...): the server dies with
an AttributeError instead of calling the function.

MessagePackRpc.deserialize() hands every in_message to _doc_to_object(), which
only knows about ComplexModel / Array classes.  The serialising side was taught
about bare messages already (out_bare results work), and bare Array / bare
object arguments work -- they take the params slot of the rpc message as the
message itself.
"""
from __future__ import print_function

import sys, logging
logging.disable(logging.CRITICAL)

import msgpack

import spyne
print("spyne from", spyne.__file__)

from spyne import Application, Service, rpc, Integer, Unicode, Array, \
    MethodContext
from spyne.server import ServerBase
from spyne.protocol.msgpack import MessagePackRpc

SEEN = []


class Svc(Service):
    @rpc(Integer, _body_style='bare', _returns=Integer)
    def bare_int(ctx, v):
        SEEN.append(v)
        return v

    @rpc(Unicode, _body_style='bare', _returns=Unicode)
    def bare_str(ctx, v):
        SEEN.append(v)
        return v

    # for comparison: these work
    @rpc(Array(Integer), _body_style='bare', _returns=Array(Integer))
    def bare_array(ctx, v):
        SEEN.append(v)
        return v

    @rpc(Integer, _returns=Integer)
    def wrapped_int(ctx, v):
        SEEN.append(v)
        return v


def call(app, in_string):
    server = ServerBase(app)
    initial_ctx = MethodContext(server, MethodContext.SERVER)
    initial_ctx.in_string = [in_string]
    ctx, = server.generate_contexts(initial_ctx)
    if ctx.in_error is None:
        server.get_in_object(ctx)
    if ctx.in_error is None:
        server.get_out_object(ctx)
    else:
        ctx.out_error = ctx.in_error
    server.get_out_string(ctx)
    return b''.join(ctx.out_string)


def strs(o):
    if isinstance(o, bytes):
        return o.decode('utf8')
    if isinstance(o, dict):
        return dict((strs(k), strs(v)) for k, v in o.items())
    if isinstance(o, (list, tuple)):
        return [strs(x) for x in o]
    return o


def attempt(app, method, params, value):
    """True when the function was called exactly once with `value` and the
    response carries `value`."""
    req = [0, 1, method, params]
    SEEN[:] = []
    try:
        out = strs(msgpack.unpackb(call(app, msgpack.packb(req))))
    except Exception as e:
        print("    %-32r -> server raised %s: %s" % (req, type(e).__name__, e))
        return False

    ok = SEEN == [value] and out[0] == 1 and out[-1] in (value,
                                           {method + 'Result': value}, [value])
    print("    %-32r -> function calls: %r, response: %r %s" % (req, SEEN, out,
                                                       "" if ok else "<-- WRONG"))
    return ok


failures = 0
n = 0
for validator in (None, 'soft'):
    n += 1
    app = Application([Svc], 'tns', name='App%d' % n,
                        in_protocol=MessagePackRpc(validator=validator),
                        out_protocol=MessagePackRpc())

    print("MessagePackRpc(validator=%r)" % (validator,))
    print("  these work:")
    attempt(app, 'wrapped_int', [5], 5)
    attempt(app, 'bare_array', [1, 2], [1, 2])

    # the params of a bare call: either the message itself (what bare arrays
    # and bare objects take) or the usual one-item argument list.
    print("  bare_int(5):")
    ok_int = any([attempt(app, 'bare_int', 5, 5),
                  attempt(app, 'bare_int', [5], 5)])
    print("  bare_str('x'):")
    ok_str = any([attempt(app, 'bare_str', 'x', 'x'),
                  attempt(app, 'bare_str', ['x'], 'x')])

    if not (ok_int and ok_str):
        failures += 1

print()
if failures:
    print("VIOLATION: no msgpack-rpc request invokes a bare method with a "
          "primitive argument; the server raises AttributeError")
    sys.exit(1)

print("OK")
