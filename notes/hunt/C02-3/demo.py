"""C02 / 3: with ignore_wrappers=False no request document can invoke a bare
method whose argument is a primitive or an array.

HierDictDocument.deserialize() only takes the message out from under the
method-name key when ignore_wrappers is True.  Otherwise it relies on
_doc_to_object() to peel the one-key wrapper dict off, which is only done for
(non-array) ComplexModel classes.  A bare Integer is handed the whole
{"method": value} dict as its value and a bare Array iterates over the keys of
that dict.
"""
from __future__ import print_function

import sys, json, logging
logging.disable(logging.CRITICAL)

import msgpack, yaml

import spyne
print("spyne from", spyne.__file__)

from spyne import Application, Service, rpc, ComplexModel, Integer, Unicode, \
    Array, MethodContext
from spyne.server import ServerBase
from spyne.protocol.json import JsonDocument
from spyne.protocol.yaml import YamlDocument
from spyne.protocol.msgpack import MessagePackDocument

SEEN = []


class Base(ComplexModel):
    i = Integer


class Derived(Base):
    x = Integer


class Svc(Service):
    @rpc(Integer, _body_style='bare', _returns=Integer)
    def bare_int(ctx, v):
        SEEN.append(v)
        return v

    @rpc(Unicode, _body_style='bare', _returns=Unicode)
    def bare_str(ctx, v):
        SEEN.append(v)
        return v

    @rpc(Array(Integer), _body_style='bare', _returns=Array(Integer))
    def bare_array(ctx, v):
        SEEN.append(v)
        return v

    @rpc(Base, _body_style='bare', _returns=Base)
    def bare_obj(ctx, v):
        SEEN.append(v)
        return v


def call(app, in_string):
    server = ServerBase(app)
    initial_ctx = MethodContext(server, MethodContext.SERVER)
    initial_ctx.in_string = [in_string]
    ctx, = server.generate_contexts(initial_ctx)
    if ctx.in_error is None:
        server.get_in_object(ctx)
    if ctx.in_error is None:
        server.get_out_object(ctx)
    else:
        ctx.out_error = ctx.in_error
    server.get_out_string(ctx)
    return b''.join(ctx.out_string)


def strs(o):
    if isinstance(o, bytes):
        return o.decode('utf8')
    if isinstance(o, dict):
        return dict((strs(k), strs(v)) for k, v in o.items())
    if isinstance(o, (list, tuple)):
        return [strs(x) for x in o]
    return o


WIRES = [
    ('JsonDocument', JsonDocument,
        lambda d: json.dumps(d).encode('utf8'), lambda s: json.loads(s)),
    ('YamlDocument', YamlDocument,
        lambda d: yaml.safe_dump(d).encode('utf8'), lambda s: yaml.safe_load(s)),
    # MessagePackDocument is left out of the verdict: in this environment
    # (msgpack >= 1, str keys) it has a known key type mismatch of its own
    # when ignore_wrappers=False.
]


def attempt(app, dumps, loads, doc, value):
    SEEN[:] = []
    try:
        out = strs(loads(call(app, dumps(doc))))
    except Exception as e:
        out = "server raised %s: %s" % (type(e).__name__, e)
    ok = SEEN == [value]
    print("      %-34s -> function calls: %r; response: %r %s" % (
               json.dumps(doc), SEEN, out, "" if ok else "<-- WRONG"))
    return ok


failures = 0
n = 0
for pname, pcls, dumps, loads in WIRES:
    for ignore_wrappers in (True, False):
        for validator in (None, 'soft'):
            n += 1
            app = Application([Svc], 'tns', name='App%d' % n,
                in_protocol=pcls(validator=validator,
                                             ignore_wrappers=ignore_wrappers),
                out_protocol=pcls(ignore_wrappers=ignore_wrappers))

            print("%s(ignore_wrappers=%r, validator=%r)" % (pname,
                                                 ignore_wrappers, validator))

            # "method name as single key"; for good measure, the message
            # wrapped once more under its element name is tried as well.
            ok = True
            for method, value in (("bare_int", 5), ("bare_str", "x"),
                                                    ("bare_array", [1, 2])):
                print("    %s(%r)" % (method, value))
                ok &= (attempt(app, dumps, loads, {method: value}, value)
                    or attempt(app, dumps, loads, {method: {method: value}}, value))

            if not ok:
                failures += 1
                if ignore_wrappers:
                    print("    (unexpected: this is the configuration that works)")

# Related, same place, not part of the verdict: a bare *object* argument is
# found under the method key by _doc_to_object()'s wrapper handling only as long
# as its class has no subclasses; otherwise the method name is looked up among
# the subclasses of the class.
print()
print("related observation (not counted): bare object whose class has a subclass")
app = Application([Svc], 'tns', name='AppX',
                in_protocol=JsonDocument(ignore_wrappers=False),
                out_protocol=JsonDocument(ignore_wrappers=False))
SEEN[:] = []
out = call(app, b'{"bare_obj": {"i": 1}}')
print("      %-34s -> function calls: %r; response: %s" % (
                                      '{"bare_obj": {"i": 1}}', SEEN, out))

print()
if failures:
    print("VIOLATION: in %d of %d configurations bare methods with a primitive "
          "or array argument cannot be invoked" % (failures, n))
    sys.exit(1)

print("OK")
