"""C11 / 4: an @rpc method whose Python name equals one of the Service hooks
(call_wrapper, initialize) silently replaces that hook on the service class.
A request naming ANOTHER method of the service then runs the function that was
registered for 'call_wrapper', and a method called 'initialize' is run by the
transport constructor without any request.

Run: cd /tmp/wth/C11 && PYTHONPATH=/tmp/wth/C11 /venv/bin/python /tmp/hunt/C11/4/demo.py
"""
import sys
import json
import logging
logging.disable(logging.CRITICAL)
from io import BytesIO

import spyne
from spyne import Application, Service, rpc, Unicode
from spyne.protocol.json import JsonDocument
from spyne.server.wsgi import WsgiApplication

print("spyne from", spyne.__file__)

calls = []


def build():
    """Returns a wsgi app, or raises if the library rejects the names."""

    class Accounts(Service):
        @rpc(Unicode, _returns=Unicode)
        def get_balance(ctx, account):
            calls.append('get_balance')
            return 'get_balance'

        @rpc(Unicode, _returns=Unicode)
        def close_account(ctx, account):
            calls.append('close_account')
            return 'close_account'

        # a perfectly legal operation name for a remote API ...
        @rpc(_returns=Unicode)
        def call_wrapper(ctx):
            calls.append('call_wrapper')
            return 'call_wrapper'

    class Devices(Service):
        @rpc(Unicode, _returns=Unicode)
        def status(ctx, device):
            calls.append('status')
            return 'status'

        # ... and so is this one
        @rpc(_returns=Unicode)
        def initialize(ctx):
            calls.append('initialize')
            return 'initialize'

    app = Application([Accounts, Devices], 'urn:c11:hooks',
                      in_protocol=JsonDocument(), out_protocol=JsonDocument())
    return WsgiApplication(app)


def post(wsgi, doc):
    body = json.dumps(doc).encode()
    env = {'REQUEST_METHOD': 'POST', 'PATH_INFO': '/', 'QUERY_STRING': '',
           'SERVER_NAME': 'localhost', 'SERVER_PORT': '80',
           'wsgi.input': BytesIO(body), 'wsgi.url_scheme': 'http',
           'CONTENT_LENGTH': str(len(body)),
           'CONTENT_TYPE': 'application/json'}
    seen = {}

    def start_response(status, headers, exc_info=None):
        seen['status'] = status

    del calls[:]
    out = b''.join(wsgi(env, start_response))
    return seen['status'], out, list(calls)


try:
    wsgi = build()
except Exception as e:
    print("the colliding method names were rejected at construction: %s: %s"
          % (type(e).__name__, e))
    print("(acceptable: nothing can be mis-routed)")
    sys.exit(0)

bad = 0

ran_without_request = list(calls)
print("%-4s functions run while building Application + WsgiApplication "
      "(no request yet): %r" % ('BAD' if ran_without_request else 'ok',
                                ran_without_request))
if ran_without_request:
    bad += 1

requests = [
    ('get_balance', {'account': 'a1'}),
    ('close_account', {'account': 'a1'}),
    ('call_wrapper', {}),
    ('status', {'device': 'd1'}),
    ('initialize', {}),
]

for name, args in requests:
    status, out, ran = post(wsgi, {name: args})
    ok = ran == [name]
    print("%-4s request %-14s -> %s ran=%-18r response=%s"
          % ('ok' if ok else 'BAD', name, status, ran, out[:60]))
    if not ok:
        bad += 1

if bad:
    print("\nVIOLATION: %d check(s) failed: requests naming get_balance / "
          "close_account ran the function registered for 'call_wrapper', and/or "
          "'initialize' ran without being requested." % bad)
    sys.exit(1)

print("\nevery request ran exactly the function it named")
sys.exit(0)
