"""C05 / 3: over XmlDocument and Soap11 the empty string escapes min_len.

An empty element (<s/> or <s></s>) has text None in lxml.  unicode_from_element
hands that None to validate_string -- where `value is None` short-cuts the
length test -- and only then turns it into ''.  So for any nullable string
type with a minimum length (Unicode(min_len=2, max_len=4) below) the user
function receives '' over XML/SOAP, while JSON, YAML, MessagePack and HttpRpc
reject the same request.  (M(Unicode) is only saved by nillable=False, which
makes validate_string(None) fail -- shown as a control.)

Run: cd /tmp/wth/C05 && PYTHONPATH=/tmp/wth/C05 /venv/bin/python /tmp/hunt/C05/3/demo.py
"""
import io, sys, json, logging, warnings
warnings.simplefilter('ignore')
logging.disable(logging.CRITICAL)

import yaml, msgpack
from urllib.parse import urlencode

import spyne
print("spyne from", spyne.__file__)

from spyne import Application, rpc, ServiceBase, ComplexModel, Unicode, \
    Integer, Array, M
from spyne.server.wsgi import WsgiApplication
from spyne.protocol.xml import XmlDocument
from spyne.protocol.soap import Soap11
from spyne.protocol.json import JsonDocument
from spyne.protocol.yaml import YamlDocument
from spyne.protocol.msgpack import MessagePackDocument
from spyne.protocol.http import HttpRpc

TNS = 'tns'
CALLS = []

Name = Unicode(min_len=2, max_len=4)


class User(ComplexModel):
    __namespace__ = TNS
    _type_info = [('id', Integer), ('name', Name)]


class Svc(ServiceBase):
    @rpc(Name, _returns=Unicode)
    def top(ctx, name):                      # top-level argument, 2..4 chars
        CALLS.append(('top', name))
        return 'ok'

    @rpc(M(Unicode), _returns=Unicode)
    def mandatory(ctx, name):                # control: min_len=1, not nillable
        CALLS.append(('mandatory', name))
        return 'ok'

    @rpc(User, _returns=Unicode)
    def nested(ctx, user):                   # nested field
        CALLS.append(('nested', user.name))
        return 'ok'

    @rpc(Array(Name), _returns=Unicode)
    def member(ctx, names):                  # array member
        CALLS.append(('member', names))
        return 'ok'


PROTOCOLS = {
    'XmlDocument': lambda: XmlDocument(validator='soft'),
    'Soap11': lambda: Soap11(validator='soft'),
    'JsonDocument': lambda: JsonDocument(validator='soft'),
    'YamlDocument': lambda: YamlDocument(validator='soft'),
    'MessagePackDocument': lambda: MessagePackDocument(validator='soft'),
    'HttpRpc': lambda: HttpRpc(validator='soft'),
}
APPS = {k: WsgiApplication(Application([Svc], TNS, name='App', in_protocol=v(),
                            out_protocol=JsonDocument())) for k, v in PROTOCOLS.items()}


def wsgi(app, body=b'', ctype='', method='POST', qs='', path='/'):
    env = {'REQUEST_METHOD': method, 'PATH_INFO': path, 'QUERY_STRING': qs,
           'SERVER_NAME': 'localhost', 'SERVER_PORT': '80', 'SCRIPT_NAME': '',
           'wsgi.url_scheme': 'http', 'CONTENT_TYPE': ctype,
           'CONTENT_LENGTH': str(len(body)), 'wsgi.input': io.BytesIO(body),
           'wsgi.errors': sys.stderr}
    st = []
    ret = b''.join(app(env, lambda s, h, e=None: st.append(s)))
    return st[0], ret


def send(pname, method, xml_body, doc, query):
    app = APPS[pname]
    if pname in ('XmlDocument', 'Soap11'):
        body = ('<ns:%s xmlns:ns="tns">%s</ns:%s>' % (method, xml_body, method)
                                                                      ).encode()
        if pname == 'Soap11':
            body = (b'<e:Envelope xmlns:e="http://schemas.xmlsoap.org/soap/'
                    b'envelope/"><e:Body>' + body + b'</e:Body></e:Envelope>')
        return wsgi(app, body, 'text/xml; charset=utf-8')
    doc = {method: doc}
    if pname == 'JsonDocument':
        return wsgi(app, json.dumps(doc).encode(), 'application/json')
    if pname == 'YamlDocument':
        return wsgi(app, yaml.safe_dump(doc).encode(), 'text/yaml')
    if pname == 'MessagePackDocument':
        return wsgi(app, msgpack.packb(doc), 'application/x-msgpack')
    if pname == 'HttpRpc':
        return wsgi(app, method='GET', qs=urlencode(query), path='/' + method)


def verdict(pname, *req):
    del CALLS[:]
    status, body = send(pname, *req)
    if CALLS:
        return 'ACCEPTED', 'function ran: %r' % (CALLS[0],)
    return 'REJECTED', '%s %s' % (status, body.decode('utf8', 'replace')[:90])


violations = 0

def case(title, expected, *req):
    global violations
    print("\n%s -> expected %s" % (title, expected))
    for pname in PROTOCOLS:
        got, detail = verdict(pname, *req)
        bad = got != expected
        violations += bad
        print("  %-20s %-8s %s%s" % (pname, got, detail,
                                              '   <-- VIOLATION' if bad else ''))


def elt(tag, s):
    return '<ns:%s>%s</ns:%s>' % (tag, s, tag) if s else '<ns:%s/>' % tag


# every length on, just inside and just outside the [2, 4] bounds
for n in range(0, 6):
    s = 'abcdef'[:n]
    case("top(name=%r): Unicode(min_len=2, max_len=4), len=%d" % (s, n),
         'ACCEPTED' if 2 <= n <= 4 else 'REJECTED',
         'top', elt('name', s), {'name': s}, [('name', s)])

for s in ('', 'a'):
    case("control: mandatory(name=%r): M(Unicode), min_len=1 and not nillable" % s,
         'ACCEPTED' if len(s) >= 1 else 'REJECTED',
         'mandatory', elt('name', s), {'name': s}, [('name', s)])

case("nested(user=User(id=1, name='')): nested field, min_len=2", 'REJECTED',
     'nested', '<ns:user><ns:id>1</ns:id><ns:name></ns:name></ns:user>',
     {'user': {'id': 1, 'name': ''}}, [('user.id', '1'), ('user.name', '')])

case("member(names=['ab', '']): array member, min_len=2", 'REJECTED',
     'member', '<ns:names><ns:string>ab</ns:string><ns:string/></ns:names>',
     {'names': ['ab', '']}, [('names', 'ab'), ('names', '')])

print()
if violations:
    print("FAIL: %d wrong verdicts -- the empty string gets past min_len over "
          "XML and SOAP only" % violations)
    sys.exit(1)
print("OK: min_len is enforced for the empty string in every protocol")
