"""C08 / 4: an empty ByteArray does not survive the XML protocols. Spyne writes
(b'',) as an empty, non-nil element -- a perfectly valid xs:base64Binary /
xs:hexBinary literal (zero octets) -- but XmlDocument/Soap11 read that element
as None (and with soft validation reject it when the member is not nillable).
ProtocolBase.from_unicode(ByteArray, '') itself correctly gives (b'',)."""
from __future__ import print_function

import sys
import logging
logging.disable(logging.CRITICAL)

from io import BytesIO

from lxml import etree

import spyne
from spyne import Application, rpc, ServiceBase
from spyne.model import ByteArray
from spyne.protocol.xml import XmlDocument
from spyne.protocol.soap import Soap11
from spyne.server.wsgi import WsgiApplication

print("spyne from", spyne.__file__)

VALUE = (b'',)
Mandatory = ByteArray(min_occurs=1, nillable=False)
Hex = ByteArray(encoding='hex')
received = []


class S(ServiceBase):
    @rpc(_returns=ByteArray)
    def get(ctx):
        return VALUE

    @rpc(ByteArray)
    def put(ctx, v):
        received.append(('put', v))

    @rpc(Hex)
    def put_hex(ctx, v):
        received.append(('put_hex', v))

    @rpc(Mandatory)
    def put_mandatory(ctx, v):
        received.append(('put_mandatory', v))


def call(app, inner, soap):
    if soap:
        inner = ('<soap:Envelope xmlns:soap="http://schemas.xmlsoap.org/soap/'
                 'envelope/"><soap:Body>%s</soap:Body></soap:Envelope>' % inner)
    body = inner.encode('utf8')
    env = {'REQUEST_METHOD': 'POST', 'PATH_INFO': '/', 'QUERY_STRING': '',
           'CONTENT_TYPE': 'text/xml; charset=utf-8',
           'CONTENT_LENGTH': str(len(body)), 'wsgi.input': BytesIO(body),
           'SERVER_NAME': 'localhost', 'SERVER_PORT': '80',
           'wsgi.url_scheme': 'http'}
    status = []
    out = b''.join(WsgiApplication(app)(env,
                                      lambda s, h, e=None: status.append(s)))
    return status[0], etree.fromstring(out)


def joined(v):
    return None if v is None else b''.join(v)


failures = 0
for proto, soap, validator in ((XmlDocument, False, 'lxml'),
                               (XmlDocument, False, 'soft'),
                               (Soap11, True, 'lxml')):
    print("---", proto.__name__, "validator=%r" % validator)
    app = Application([S], 'tns', in_protocol=proto(validator=validator),
                                                          out_protocol=proto())

    status, doc = call(app, '<get xmlns="tns"/>', soap)
    elt = doc.find('.//{tns}getResult')
    xml = etree.tostring(elt).decode()
    print("service returns %r, written as: %s" % (VALUE, xml))
    nil = elt.get('{http://www.w3.org/2001/XMLSchema-instance}nil')
    assert nil is None and (elt.text or '') == '', "not an empty literal?!"

    for method in ('put', 'put_hex', 'put_mandatory'):
        del received[:]
        status, doc = call(app,
                    '<%s xmlns="tns"><v>%s</v></%s>' % (method, '', method), soap)
        fs = doc.find('.//faultstring')
        got = received[0][1] if received else '<not called>'
        print("  %-13s <v></v> -> %s, service received %r %s" % (method, status,
                                 got, '' if fs is None else '(%s)' % fs.text))
        if not received or joined(got) != b'':
            failures += 1

if failures:
    print("VIOLATION: the zero-length binary literal spyne itself writes is "
          "read back as None / rejected in %d case(s); expected (b'',)"
                                                                  % failures)
    sys.exit(1)

print("OK")
