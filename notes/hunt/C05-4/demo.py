"""C05 / 4: the 'whole-string pattern' test is re.match() + "did the match
reach the end?", which is not a full match when the pattern has alternatives:
re.match('[0-9]+|[0-9]+px', '12px') stops after '12', the span is (0, 2) and
not (0, 4), so a value that the pattern matches as a whole is rejected -- in
every protocol.  (xs:pattern, re.fullmatch and validator='lxml' all accept it.)

Run: cd /tmp/wth/C05 && PYTHONPATH=/tmp/wth/C05 /venv/bin/python /tmp/hunt/C05/4/demo.py
"""
import io, re, sys, json, logging, warnings
warnings.simplefilter('ignore')
logging.disable(logging.CRITICAL)

import yaml, msgpack
from urllib.parse import urlencode

import spyne
print("spyne from", spyne.__file__)

from spyne import Application, rpc, ServiceBase, ComplexModel, Unicode, \
    Integer, Array
from spyne.model.complex import XmlAttribute
from spyne.server.wsgi import WsgiApplication
from spyne.protocol.xml import XmlDocument
from spyne.protocol.soap import Soap11
from spyne.protocol.json import JsonDocument
from spyne.protocol.yaml import YamlDocument
from spyne.protocol.msgpack import MessagePackDocument
from spyne.protocol.http import HttpRpc

TNS = 'tns'
CALLS = []

SIZE_PATTERN = '[0-9]+|[0-9]+px'      # "12" or "12px"
Size = Unicode(pattern=SIZE_PATTERN)


class Box(ComplexModel):
    __namespace__ = TNS
    _type_info = [('id', Integer), ('width', Size),
                                          ('unit', XmlAttribute(Unicode(pattern='c|cm')))]


class Svc(ServiceBase):
    @rpc(Size, _returns=Unicode)
    def top(ctx, size):
        CALLS.append(('top', size))
        return 'ok'

    @rpc(Box, _returns=Unicode)
    def nested(ctx, box):
        CALLS.append(('nested', box.width, box.unit))
        return 'ok'

    @rpc(Array(Size), _returns=Unicode)
    def member(ctx, sizes):
        CALLS.append(('member', sizes))
        return 'ok'


PROTOCOLS = {
    'XmlDocument': lambda: XmlDocument(validator='soft'),
    'Soap11': lambda: Soap11(validator='soft'),
    'JsonDocument': lambda: JsonDocument(validator='soft'),
    'YamlDocument': lambda: YamlDocument(validator='soft'),
    'MessagePackDocument': lambda: MessagePackDocument(validator='soft'),
    'HttpRpc': lambda: HttpRpc(validator='soft'),
    # reference only, not part of the verdict: XML Schema semantics
    '(XmlDocument lxml)': lambda: XmlDocument(validator='lxml'),
}
APPS = {k: WsgiApplication(Application([Svc], TNS, name='App', in_protocol=v(),
                            out_protocol=JsonDocument())) for k, v in PROTOCOLS.items()}


def wsgi(app, body=b'', ctype='', method='POST', qs='', path='/'):
    env = {'REQUEST_METHOD': method, 'PATH_INFO': path, 'QUERY_STRING': qs,
           'SERVER_NAME': 'localhost', 'SERVER_PORT': '80', 'SCRIPT_NAME': '',
           'wsgi.url_scheme': 'http', 'CONTENT_TYPE': ctype,
           'CONTENT_LENGTH': str(len(body)), 'wsgi.input': io.BytesIO(body),
           'wsgi.errors': sys.stderr}
    st = []
    ret = b''.join(app(env, lambda s, h, e=None: st.append(s)))
    return st[0], ret


def send(pname, method, xml_body, doc, query):
    app = APPS[pname]
    if 'Xml' in pname or pname == 'Soap11':
        body = ('<ns:%s xmlns:ns="tns">%s</ns:%s>' % (method, xml_body, method)
                                                                      ).encode()
        if pname == 'Soap11':
            body = (b'<e:Envelope xmlns:e="http://schemas.xmlsoap.org/soap/'
                    b'envelope/"><e:Body>' + body + b'</e:Body></e:Envelope>')
        return wsgi(app, body, 'text/xml; charset=utf-8')
    doc = {method: doc}
    if pname == 'JsonDocument':
        return wsgi(app, json.dumps(doc).encode(), 'application/json')
    if pname == 'YamlDocument':
        return wsgi(app, yaml.safe_dump(doc).encode(), 'text/yaml')
    if pname == 'MessagePackDocument':
        return wsgi(app, msgpack.packb(doc), 'application/x-msgpack')
    if pname == 'HttpRpc':
        return wsgi(app, method='GET', qs=urlencode(query), path='/' + method)


def verdict(pname, *req):
    del CALLS[:]
    status, body = send(pname, *req)
    if CALLS:
        return 'ACCEPTED', 'function ran: %r' % (CALLS[0],)
    return 'REJECTED', '%s %s' % (status, body.decode('utf8', 'replace')[:90])


violations = 0

def case(title, expected, *req):
    global violations
    print("\n%s -> expected %s" % (title, expected))
    for pname in PROTOCOLS:
        got, detail = verdict(pname, *req)
        reference = pname.startswith('(')
        bad = got != expected and not reference
        violations += bad
        print("  %-20s %-8s %s%s" % (pname, got, detail,
                                              '   <-- VIOLATION' if bad else ''))


for s in ('12', '12px', '12p', 'px', '12pxx'):
    whole = re.fullmatch(SIZE_PATTERN, s) is not None
    case("top(size=%r): pattern %r, re.fullmatch says %s" % (s, SIZE_PATTERN,
         whole), 'ACCEPTED' if whole else 'REJECTED',
         'top', '<ns:size>%s</ns:size>' % s, {'size': s}, [('size', s)])

case("nested(box=Box(id=1, width='12px')): nested field", 'ACCEPTED',
     'nested', '<ns:box><ns:id>1</ns:id><ns:width>12px</ns:width></ns:box>',
     {'box': {'id': 1, 'width': '12px'}}, [('box.id', '1'), ('box.width', '12px')])

case("member(sizes=['12', '12px']): array member", 'ACCEPTED',
     'member', '<ns:sizes><ns:member_sizesType>12</ns:member_sizesType>'
     '<ns:member_sizesType>12px</ns:member_sizesType></ns:sizes>',
     {'sizes': ['12', '12px']}, [('sizes', '12'), ('sizes', '12px')])

# XML attribute position: only XmlDocument/Soap11 apply the attribute type's
# pattern at all (see violation 1), so only those are shown here.
print("\nnested(box=<box unit=\"cm\">): XML attribute, pattern 'c|cm' "
                                                        "-> expected ACCEPTED")
for pname in ('XmlDocument', 'Soap11', '(XmlDocument lxml)'):
    got, detail = verdict(pname, 'nested', '<ns:box unit="cm"><ns:id>1</ns:id>'
                                                        '</ns:box>', None, None)
    bad = got != 'ACCEPTED' and not pname.startswith('(')
    violations += bad
    print("  %-20s %-8s %s%s" % (pname, got, detail,
                                              '   <-- VIOLATION' if bad else ''))

print()
if violations:
    print("FAIL: %d wrong verdicts -- values matched by a later alternative "
          "of the pattern are rejected" % violations)
    sys.exit(1)
print("OK: the pattern facet is a whole-string match")
