"""C18 / 2: a bare method whose complex argument class has a parent class.
NullServer packs the field-wise arguments with the class' OWN fields
(_type_info) but builds the instance with the FLAT field list (parent fields
first), so values land in the wrong fields and parent fields can't be passed."""
import json
import logging
import sys
from io import BytesIO

logging.disable(logging.CRITICAL)

import spyne
print("spyne from", spyne.__file__)

from spyne import Application, Service, srpc, Integer, Unicode, ComplexModel
from spyne.protocol.xml import XmlDocument
from spyne.protocol.soap import Soap11
from spyne.protocol.json import JsonDocument
from spyne.server.null import NullServer
from spyne.server.wsgi import WsgiApplication


class Person(ComplexModel):
    __namespace__ = 'tns'
    _type_info = [('name', Unicode), ('age', Integer)]


class Employee(Person):
    __namespace__ = 'tns'
    _type_info = [('company', Unicode), ('salary', Integer)]


FIELDS = ('name', 'age', 'company', 'salary')
received = []


class S(Service):
    @srpc(Employee, _returns=Unicode, _body_style='bare')
    def hire(e):
        received.append(tuple(getattr(e, f, None) for f in FIELDS))
        return 'ok'

    # control: the same with a class that has no parent
    @srpc(Person, _returns=Unicode, _body_style='bare')
    def greet(p):
        received.append(tuple(getattr(p, f, None) for f in FIELDS))
        return 'ok'


def wsgi_call(app, body, ctype):
    env = {'REQUEST_METHOD': 'POST', 'PATH_INFO': '/', 'QUERY_STRING': '',
           'SERVER_NAME': 'localhost', 'SERVER_PORT': '80',
           'wsgi.url_scheme': 'http', 'CONTENT_TYPE': ctype,
           'CONTENT_LENGTH': str(len(body)), 'wsgi.input': BytesIO(body)}
    st = {}

    def start_response(status, headers, exc_info=None):
        st['status'] = status

    ret = b''.join(WsgiApplication(app)(env, start_response))
    assert st['status'].startswith('200'), (st, ret)
    return ret


def xml_body(method, kw):
    return '<%s xmlns="tns">%s</%s>' % (method, ''.join(
         '<%s>%s</%s>' % (k, kw[k], k) for k in FIELDS if k in kw), method)

SOAP = '<e:Envelope xmlns:e="http://schemas.xmlsoap.org/soap/envelope/">' \
       '<e:Body>%s</e:Body></e:Envelope>'
WIRE = [
    (XmlDocument, lambda m, kw: xml_body(m, kw), 'text/xml'),
    (Soap11, lambda m, kw: SOAP % xml_body(m, kw), 'text/xml'),
    (JsonDocument, lambda m, kw: json.dumps({m: kw}), 'application/json'),
]

# (method, the fields the caller sets, how they are passed to NullServer)
CASES = [
    ('greet', dict(name='Ann', age=30),
        [('positional', ('Ann', 30), {}),
         ('keyword', (), dict(name='Ann', age=30))]),

    ('hire', dict(company='ACME', salary=1000),
        [('keyword', (), dict(company='ACME', salary=1000))]),

    ('hire', dict(name='Ann', age=30, company='ACME', salary=1000),
        [('positional', ('Ann', 30, 'ACME', 1000), {}),
         ('keyword', (), dict(name='Ann', age=30, company='ACME', salary=1000))]),
]

failures = 0
for prot, mkbody, ctype in WIRE:
    app = Application([S], 'tns', in_protocol=prot(), out_protocol=prot())
    null = NullServer(app)
    print("== %s" % prot.__name__)
    for method, fields, invocations in CASES:
        del received[:]
        wsgi_call(app, mkbody(method, fields).encode(), ctype)
        wire_seen, = received
        print("  %s%r" % (method, fields))
        print("     wire       : function received %r" %
                                               (dict(zip(FIELDS, wire_seen)),))
        for label, args, kwargs in invocations:
            del received[:]
            try:
                null.service[method](*args, **kwargs)
                null_seen, = received
                shown = dict(zip(FIELDS, null_seen))
            except Exception as e:
                null_seen = shown = repr(e)
            ok = null_seen == wire_seen
            print("     NullServer %-10s: function received %r %s" %
                             (label, shown, "" if ok else "  <-- MISMATCH"))
            if not ok:
                failures += 1

print()
if failures:
    print("VIOLATION: %d NullServer invocations of the bare method handed the "
          "function a different object than the wire call did" % failures)
    sys.exit(1)

print("OK: NullServer and the wire agree")
