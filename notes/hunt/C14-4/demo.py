"""C14 / 4: a SOAP request whose Body holds a soap:Fault element (a bad
envelope for a *request*) makes the dispatch stage raise AttributeError, which
ServerBase.generate_contexts does not turn into a fault: no
method_exception_object, no document/string events, context never closed."""
import io, logging, sys
logging.disable(logging.CRITICAL)

import spyne
print("spyne from", spyne.__file__)

from spyne import Application, Service, rpc, Integer, Unicode
from spyne.protocol.soap import Soap11, Soap12
from spyne.server.wsgi import WsgiApplication

trace = []

EVENTS = ['method_context_created', 'method_call', 'method_return_object',
    'method_exception_object', 'method_return_document',
    'method_exception_document', 'method_return_string',
    'method_exception_string', 'method_context_closed']


class S(Service):
    @rpc(Integer, _returns=Unicode)
    def f(ctx, i):
        trace.append('FUNCTION')
        return 'ok'


def build(Prot, validator):
    app = Application([S], 'tns', in_protocol=Prot(validator=validator),
                                                            out_protocol=Prot())
    for e in EVENTS:
        app.event_manager.add_listener(e, lambda ctx, e=e: trace.append(e))
    wsgi = WsgiApplication(app)
    for e in ('wsgi_call', 'wsgi_return', 'wsgi_exception', 'wsgi_close'):
        wsgi.event_manager.add_listener(e, lambda ctx, e=e: trace.append(e))
    return wsgi


S11 = "http://schemas.xmlsoap.org/soap/envelope/"
S12 = "http://www.w3.org/2003/05/soap-envelope"

FAULT_11 = ('<e:Envelope xmlns:e="%s"><e:Body><e:Fault>'
            '<faultcode>e:Client</faultcode><faultstring>hi</faultstring>'
            '</e:Fault></e:Body></e:Envelope>' % S11).encode()
FAULT_12 = ('<e:Envelope xmlns:e="%s"><e:Body><e:Fault>'
            '<e:Code><e:Value>e:Sender</e:Value></e:Code>'
            '<e:Reason><e:Text xml:lang="en">hi</e:Text></e:Reason>'
            '</e:Fault></e:Body></e:Envelope>' % S12).encode()
EMPTY_BODY_11 = ('<e:Envelope xmlns:e="%s"><e:Body/></e:Envelope>' % S11).encode()


def call(wsgi, body):
    env = {'REQUEST_METHOD': 'POST', 'PATH_INFO': '/', 'QUERY_STRING': '',
           'CONTENT_TYPE': 'text/xml; charset=utf-8',
           'CONTENT_LENGTH': str(len(body)), 'wsgi.input': io.BytesIO(body),
           'SERVER_NAME': 'localhost', 'SERVER_PORT': '80',
           'wsgi.url_scheme': 'http'}
    seen = {}
    def start_response(status, headers, exc_info=None):
        seen['status'] = status
    try:
        ret = wsgi(env, start_response)
        out = b''.join(ret)
        if hasattr(ret, 'close'):
            ret.close()
    except Exception as e:
        seen['escaped'] = "%s: %s" % (type(e).__name__, str(e)[:100])
    return seen


def verify(label, Prot, validator, body):
    del trace[:]
    seen = call(build(Prot, validator), body)
    print("\n== %s -- %s(validator=%r)" % (label, Prot.__name__, validator))
    print("   status :", seen.get('status'))
    print("   escaped:", seen.get('escaped'))
    print("   trace  :", trace)

    problems = []
    app_events = [t for t in trace if t.startswith('method_')]
    want = ['method_context_created', 'method_exception_object',
            'method_exception_document', 'method_exception_string',
            'method_context_closed']
    if 'escaped' in seen:
        problems.append("exception escaped the WSGI callable: " + seen['escaped'])
    if app_events != want:
        problems.append("event sequence is %r, want %r" % (app_events, want))
    if 'FUNCTION' in trace:
        problems.append("function ran")
    for p in problems:
        print("   VIOLATION:", p)
    return not problems


ok = True
# control: another bad envelope (empty Body) is reported as a fault properly
ok &= verify("control: empty soap Body", Soap11, None, EMPTY_BODY_11)
for validator in (None, 'soft', 'lxml'):
    ok &= verify("Body contains soap:Fault", Soap11, validator, FAULT_11)
ok &= verify("Body contains soap:Fault", Soap12, None, FAULT_12)

print("\nRESULT:", "property holds" if ok else "property C14 VIOLATED")
sys.exit(0 if ok else 1)
