"""C15 / 1: the weak set of customized variants (Attributes._variants) is
inherited by subclasses, so Base and Sub(Base) share ONE variant registry.

History:
    class Base(ComplexModel): a
    class Sub(Base): b
    BaseM = Base.customize(min_occurs=1)      # a variant of Base
    SubM  = Sub.customize(min_occurs=1)       # a variant of Sub
    Sub.append_field('c', Integer)            # evolve Sub only
    Base.append_field('z', Unicode)           # evolve Base only

Expected: Sub.append_field touches Sub and SubM only; Base.append_field touches
Base and BaseM only (SubM sees 'z' through inheritance, not as an own field).
"""

import sys
import logging
logging.disable(logging.CRITICAL)

import spyne
print("spyne from", spyne.__file__)

from spyne import Application, rpc, ServiceBase
from spyne.model.complex import ComplexModel
from spyne.model.primitive import Unicode, Integer
from spyne.protocol.soap import Soap11
from spyne.interface.wsdl import Wsdl11


class Base(ComplexModel):
    __namespace__ = 'tns'
    a = Unicode


class Sub(Base):
    __namespace__ = 'tns'
    b = Unicode


def own(cls):
    return list(cls._type_info.keys())


def flat(cls):
    return list(cls.get_flat_type_info(cls).keys())


failures = []

BaseM = Base.customize(min_occurs=1)
SubM = Sub.customize(min_occurs=1)

print("-- before any evolution")
for n, c in (('Base', Base), ('BaseM', BaseM), ('Sub', Sub), ('SubM', SubM)):
    print("   %-6s own=%r flat=%r" % (n, own(c), flat(c)))

# step 1: a field is added to the subclass only
Sub.append_field('c', Integer)
print("-- after Sub.append_field('c', Integer)")
for n, c in (('Base', Base), ('BaseM', BaseM), ('Sub', Sub), ('SubM', SubM)):
    print("   %-6s own=%r flat=%r" % (n, own(c), flat(c)))

if own(Base) != ['a']:
    failures.append("Base changed: %r" % own(Base))
if own(BaseM) != ['a']:
    failures.append("Sub.append_field('c') leaked into BaseM, a customized "
                    "variant of the PARENT class: BaseM fields are %r while "
                    "Base fields are %r" % (own(BaseM), own(Base)))

# step 2: a field is added to the parent only
Base.append_field('z', Unicode)
print("-- after Base.append_field('z', Unicode)")
for n, c in (('Base', Base), ('BaseM', BaseM), ('Sub', Sub), ('SubM', SubM)):
    print("   %-6s own=%r flat=%r" % (n, own(c), flat(c)))

if own(Sub) != own(SubM):
    failures.append("Base.append_field('z') was written into the OWN field "
                    "table of SubM (variant of the subclass): SubM own fields "
                    "%r != Sub own fields %r" % (own(SubM), own(Sub)))


# the same thing seen through the public machinery -----------------------------
import re


def published_type(arg_type, type_name):
    class Svc(ServiceBase):
        @rpc(arg_type, _returns=Unicode)
        def put(ctx, s):
            return 'ok'

    app = Application([Svc], 'tns', in_protocol=Soap11(),
                                    out_protocol=Soap11())
    w = Wsdl11(app.interface)
    w.build_interface_document('http://localhost/')
    doc = w.get_interface_document().decode('utf8')
    m = re.search(r'<xs:complexType name="%s">.*?</xs:complexType>' % type_name,
                                                                  doc, re.S)
    return m.group(0)


plain = published_type(Base, 'Base')
variant = published_type(BaseM, 'Base')
names = lambda x: re.findall(r'<xs:element name="(\w+)"', x)
print("-- WSDL: elements of complexType Base for a method taking Base :",
                                                                  names(plain))
print("-- WSDL: elements of complexType Base for a method taking BaseM:",
                                                                names(variant))
if names(plain) != names(variant):
    failures.append("WSDL of a method taking Base.customize(min_occurs=1) "
        "publishes Base with elements %r; with Base itself it is %r"
                                            % (names(variant), names(plain)))


class Svc2(ServiceBase):
    @rpc(SubM, _returns=Unicode)
    def put(ctx, s):
        return 'ok'


try:
    app2 = Application([Svc2], 'tns', in_protocol=Soap11(validator='lxml'),
                                     out_protocol=Soap11())
    w = Wsdl11(app2.interface)
    w.build_interface_document('http://localhost/')
    doc = w.get_interface_document().decode('utf8')
    m = re.search(r'<xs:complexType name="Sub">.*?</xs:complexType>', doc,
                                                                         re.S)
    sub_schema = m.group(0)
    print("-- schema of Sub as published for a method taking SubM:")
    print("   ", sub_schema)
    if 'name="z"' in sub_schema:
        failures.append("the schema of Sub (built from SubM) declares the "
                         "parent's field 'z' again in the extension sequence")
except Exception as e:
    print("-- building the interface for a method taking SubM raised:", repr(e))
    failures.append("interface for SubM could not be built: %r" % (e,))

print()
if failures:
    print("PROPERTY C15 VIOLATED:")
    for f in failures:
        print("  *", f)
    sys.exit(1)

print("ok")
