"""C16 / 1: a root class without fields of its own is not a link of the
inheritance chain, so its subclasses are never registered for substitution.

    class Shape(ComplexModel): pass          # abstract root, no fields
    class Circle(Shape): r = Integer         # same namespace
    class Ring(Circle): w = Integer

With polymorphic=True, a Circle/Ring sent or returned where Shape is declared
 - XmlDocument/Soap11/Soap12: is written with xsi:type="s0:Circle", a marker the
   receiver (same classes, same interface) rejects with a ValidationError;
 - JSON/YAML/MessagePack (ignore_wrappers=False): is written as {"Circle": ...}
   and the receiver silently builds an empty Shape: class and fields are lost.
"""
from __future__ import print_function

import sys
import logging
logging.basicConfig(level=logging.CRITICAL)

import spyne
assert spyne.__file__.startswith('/tmp/wth/C16/'), spyne.__file__

from spyne import Application, Service, rpc, ComplexModel, Integer, MethodContext
from spyne.server import ServerBase
from spyne.client import ClientBase, RemoteProcedureBase, RemoteService
from spyne.protocol.xml import XmlDocument
from spyne.protocol.soap import Soap11, Soap12
from spyne.protocol.json import JsonDocument
from spyne.protocol.yaml import YamlDocument
from spyne.protocol.msgpack import MessagePackDocument


class Shape(ComplexModel):
    __namespace__ = 'ns.shapes'


class Circle(Shape):
    __namespace__ = 'ns.shapes'
    r = Integer


class Ring(Circle):
    __namespace__ = 'ns.shapes'
    w = Integer


received = []


class ShapeService(Service):
    @rpc(Shape, _returns=Shape)
    def echo(ctx, shape):
        received.append(shape)
        return shape


class _LoopbackProcedure(RemoteProcedureBase):
    """Client half of a loopback: serialize the request with the client
    application, hand the bytes to a ServerBase, deserialize its response."""

    def __call__(self, *args, **kwargs):
        server = self.url
        ctx, = self.contexts
        self.get_out_object(ctx, args, kwargs)
        self.get_out_string(ctx)
        server.last_request = b''.join(ctx.out_string)

        sctx = MethodContext(server, MethodContext.SERVER)
        sctx.in_string = [server.last_request]
        sctx, = server.generate_contexts(sctx)
        if sctx.in_error is None:
            server.get_in_object(sctx)
        if sctx.in_error is None:
            server.get_out_object(sctx)
        server.get_out_string(sctx)
        server.last_response = b''.join(sctx.out_string)
        if sctx.in_error is not None:
            raise sctx.in_error
        if sctx.out_error is not None:
            raise sctx.out_error

        ctx.in_string = [server.last_response]
        self.get_in_object(ctx)
        if ctx.in_error is not None:
            raise ctx.in_error
        return ctx.in_object


class LoopbackClient(ClientBase):
    def __init__(self, server, app):
        super(LoopbackClient, self).__init__(server, app)
        self.service = RemoteService(_LoopbackProcedure, server, app)


PROTOCOLS = [
    ('XmlDocument', lambda: XmlDocument(polymorphic=True)),
    ('Soap11', lambda: Soap11(polymorphic=True)),
    ('Soap12', lambda: Soap12(polymorphic=True)),
    ('JsonDocument', lambda: JsonDocument(polymorphic=True,
                                                       ignore_wrappers=False)),
    ('YamlDocument', lambda: YamlDocument(polymorphic=True,
                                                       ignore_wrappers=False)),
    ('MessagePackDocument', lambda: MessagePackDocument(polymorphic=True,
                                                       ignore_wrappers=False)),
]


def describe(o):
    if o is None:
        return None
    cls = o.__class__
    return cls.__name__, [(k, getattr(o, k, None))
                                       for k in cls.get_flat_type_info(cls)]


print("Circle.__extends__ =", Circle.__extends__,
                                      "(expected: Shape, the class it inherits)")
print("Shape registered subclasses =", Shape.Attributes._subclasses,
                                                           "(expected: [Circle])")
print()

failures = 0
for name, factory in PROTOCOLS:
    server_app = Application([ShapeService], 'tns', name='ShapeApp',
                                in_protocol=factory(), out_protocol=factory())
    client_app = Application([ShapeService], 'tns', name='ShapeApp',
                                in_protocol=factory(), out_protocol=factory())
    server = ServerBase(server_app)
    client = LoopbackClient(server, client_app)

    for sent in (Circle(r=3), Ring(r=3, w=1)):
        del received[:]
        want = describe(sent)
        try:
            got_back = describe(client.service.echo(sent))
            got_srv = describe(received[0]) if received else None
            problem = None
        except Exception as e:
            got_back = got_srv = None
            problem = repr(e)

        ok = (problem is None and got_srv == want and got_back == want)
        if not ok:
            failures += 1
        print("%-20s sent %r" % (name, want))
        print("    request on the wire :", server.last_request[-160:])
        if problem is not None:
            print("    receiver raised     :", problem)
        else:
            print("    service received    :", got_srv)
            print("    client got back     :", got_back)
        print("    =>", "ok" if ok else "VIOLATION")

print()
if failures:
    print("%d round trips lost the runtime class of a subclass of a field-less "
          "root class" % failures)
    sys.exit(1)
print("all round trips preserved class and fields")
