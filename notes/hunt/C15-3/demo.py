"""C15 / 3: append_field()/insert_field() walk the live weak set of variants.
When the new field's type is the class itself (the usual way to close a
self-referential model after the class statement) and one variant was made
with child_attrs_all, propagating the field into that variant customizes the
field type -- i.e. registers a NEW variant of the same class in the set that is
being iterated. The walk dies with RuntimeError half way: the class and some
variants have the new field, the remaining variants never get it.

History:
    class Category(ComplexModel): name
    CatA = Category.customize(min_occurs=1)
    CatB = Category.customize(child_attrs_all=dict(min_occurs=1))
    CatC = Category.customize(nillable=False)
    Category.append_field('parent', Category)
"""

import re
import sys
import logging
logging.disable(logging.CRITICAL)

import spyne
print("spyne from", spyne.__file__)

from spyne import Application, rpc, ServiceBase
from spyne.model.complex import ComplexModel
from spyne.model.primitive import Unicode
from spyne.protocol.soap import Soap11
from spyne.interface.wsdl import Wsdl11

failures = []


class Category(ComplexModel):
    __namespace__ = 'tns'
    name = Unicode


CatA = Category.customize(min_occurs=1)
CatB = Category.customize(child_attrs_all=dict(min_occurs=1))
CatC = Category.customize(nillable=False)

pool = (('Category', Category), ('CatA', CatA), ('CatB', CatB), ('CatC', CatC))

try:
    Category.append_field('parent', Category)
    print("Category.append_field('parent', Category) returned normally")
except Exception as e:
    print("Category.append_field('parent', Category) raised %r" % (e,))
    failures.append("append_field raised %r" % (e,))

for n, c in pool:
    print("   %-9s fields=%r" % (n, list(c._type_info.keys())))

lacking = [n for n, c in pool if 'parent' not in c._type_info]
if lacking:
    failures.append("the field was added to Category but not to its "
                    "customized variant(s) %r" % (lacking,))


# what a served application publishes for each of them
def published_elements(arg_type):
    class Svc(ServiceBase):
        @rpc(arg_type, _returns=Unicode)
        def put(ctx, c):
            return 'ok'

    app = Application([Svc], 'tns', in_protocol=Soap11(),
                                    out_protocol=Soap11())
    w = Wsdl11(app.interface)
    w.build_interface_document('http://localhost/')
    doc = w.get_interface_document().decode('utf8')
    m = re.search(r'<xs:complexType name="Category">.*?</xs:complexType>',
                                                                  doc, re.S)
    return re.findall(r'<xs:element name="(\w+)"', m.group(0))


ref = published_elements(Category)
for n, c in pool:
    got = published_elements(c)
    print("   WSDL complexType Category for a method taking %-9s: %r" % (n, got))
    if got != ref:
        failures.append("WSDL for a method taking %s lists %r, for Category "
                        "itself %r" % (n, got, ref))

print()
if failures:
    print("PROPERTY C15 VIOLATED:")
    for f in failures:
        print("  *", f)
    sys.exit(1)

print("ok")
