# -*- coding: utf-8 -*-
"""C09 / 1 -- a method written as a generator that raises before its first
``yield`` makes the exception escape from WsgiApplication.__call__: no fault
document is produced, start_response is never called, and the raw exception
(with its text) is handed to whatever WSGI server hosts the application.

Run: cd /tmp/wth/C09 && PYTHONPATH=/tmp/wth/C09 /venv/bin/python /tmp/hunt/C09/1/demo.py
"""
from __future__ import print_function

import json
import logging
import sys
import warnings
from io import BytesIO

warnings.simplefilter('ignore')
logging.disable(logging.CRITICAL)

import spyne
from spyne import Application, Service, srpc, Fault, Unicode, Iterable
from spyne.protocol.http import HttpRpc
from spyne.protocol.json import JsonDocument
from spyne.server.wsgi import WsgiApplication

print("spyne loaded from", spyne.__file__)

SECRET = "s3cr3t-TOKEN-5d1f0c"
DETAIL = {'quota': {'limit': u'10', 'used': [u'7', u'3']}}


class Svc(Service):
    @srpc(Unicode, _returns=Iterable(Unicode))
    def items(kind):
        # argument checking at the top of a generator method: the body only
        # starts running when the transport pulls the first item.
        if kind == 'fault':
            raise Fault('Client.Quota.Exceeded', u'kota doldu ü中',
                                                                 detail=DETAIL)
        if kind == 'exc':
            raise RuntimeError(SECRET)
        yield u'one'
        yield u'two'


def call(kind):
    app = Application([Svc], 'tns', in_protocol=HttpRpc(),
                                                   out_protocol=JsonDocument())
    seen = {}

    def start_response(status, headers, exc_info=None):
        seen['status'] = status

    env = {
        'REQUEST_METHOD': 'GET', 'PATH_INFO': '/items',
        'QUERY_STRING': 'kind=' + kind, 'CONTENT_TYPE': '',
        'CONTENT_LENGTH': '0', 'wsgi.input': BytesIO(b''),
        'SERVER_NAME': 'localhost', 'SERVER_PORT': '80',
        'wsgi.url_scheme': 'http',
    }
    try:
        body = b''.join(WsgiApplication(app)(env, start_response))
    except Exception as e:
        return seen.get('status'), None, e
    return seen.get('status'), body, None


failures = []

# sanity: the happy path works
status, body, exc = call('ok')
print("ok    ->", status, body, exc)
assert status.startswith('200') and json.loads(body.decode()) == ['one', 'two']

# 1. a Fault raised by the method
status, body, exc = call('fault')
print("fault ->", status, body, "escaped exception: %r" % (exc,))
if exc is not None:
    failures.append("Fault raised by the generator method escaped from "
                    "WsgiApplication.__call__ as %r; start_response status: %r"
                                                               % (exc, status))
else:
    doc = json.loads(body.decode())
    if not (status.startswith('400')
            and doc.get('faultcode') == 'Client.Quota.Exceeded'
            and doc.get('faultstring') == u'kota doldu ü中'
            and doc.get('detail') == DETAIL):
        failures.append("fault not intact: %r %r" % (status, doc))

# 2. any other exception raised by the method
status, body, exc = call('exc')
print("exc   ->", status, body, "escaped exception: %r" % (exc,))
if exc is not None:
    failures.append("RuntimeError raised by the generator method escaped from "
                    "WsgiApplication.__call__ as %r (carrying the secret: %s); "
                    "no 'Server'/'Internal Error' fault was produced"
                                            % (exc, SECRET in repr(exc)))
else:
    doc = json.loads(body.decode())
    if not (status.startswith('500') and doc.get('faultcode') == 'Server'
            and doc.get('faultstring') == 'Internal Error'
            and SECRET.encode() not in body and b'RuntimeError' not in body):
        failures.append("generic fault expected, got %r %r" % (status, body))

print()
if failures:
    print("PROPERTY C09 VIOLATED:")
    for f in failures:
        print("  -", f)
    sys.exit(1)

print("OK: faults raised before the first yield reach the client as faults")
