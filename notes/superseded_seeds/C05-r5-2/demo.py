"""C05 demo 2: fixed-width unsigned integer slots take whole numbers inside
their bounds only. A fractional number (1.5, 254.5 ...) is refused under soft
validation by every protocol and in every nesting position, just as the signed
fixed-width types and the unbounded integer types refuse it.

Exits 0 when the property holds, 1 when it is violated.
"""
import io, json, logging, sys, warnings
warnings.simplefilter('ignore')
logging.disable(logging.CRITICAL)

import spyne
assert spyne.__file__.startswith('/tmp/wt5/C05/'), spyne.__file__

import msgpack, yaml

from spyne import Application, ServiceBase, rpc, Unicode, ComplexModel, Array
from spyne import UnsignedByte, UnsignedShort, UnsignedInt, UnsignedLong, \
    Byte, Integer, UnsignedInteger
from spyne.protocol.xml import XmlDocument
from spyne.protocol.soap import Soap11
from spyne.protocol.json import JsonDocument
from spyne.protocol.yaml import YamlDocument
from spyne.protocol.msgpack import MessagePackRpc
from spyne.protocol.http import HttpRpc
from spyne.server.wsgi import WsgiApplication

calls = []

TYPES = {
    'ubyte': UnsignedByte, 'ushort': UnsignedShort, 'uint': UnsignedInt,
    'ulong': UnsignedLong,
    # reference types whose verdict the unsigned ones must share
    'byte': Byte, 'integer': Integer, 'uinteger': UnsignedInteger,
}


def build():
    attrs = {}
    for name, t in TYPES.items():
        Box = type('Box_' + name, (ComplexModel,),
                        {'__namespace__': 'tns', 'v': t, 'note': Unicode})

        def top(ctx, v):
            calls.append(v)
            return 'ok'

        def nested(ctx, box):
            calls.append(box.v)
            return 'ok'

        def arr(ctx, vs):
            calls.append(list(vs))
            return 'ok'

        top.__name__ = 'top_' + name
        nested.__name__ = 'nested_' + name
        arr.__name__ = 'arr_' + name

        attrs[top.__name__] = rpc(t, _returns=Unicode)(top)
        attrs[nested.__name__] = rpc(Box, _returns=Unicode)(nested)
        attrs[arr.__name__] = rpc(Array(t), _returns=Unicode)(arr)

    return type('Svc', (ServiceBase,), attrs)


Svc = build()


def mkapp(prot):
    return WsgiApplication(Application([Svc], 'tns', in_protocol=prot,
                                                  out_protocol=JsonDocument()))


def call(app, body=b'', ctype='text/plain', method='POST', path='/', qs=''):
    st = {}
    env = {'REQUEST_METHOD': method, 'PATH_INFO': path, 'QUERY_STRING': qs,
           'CONTENT_TYPE': ctype, 'CONTENT_LENGTH': str(len(body)),
           'wsgi.input': io.BytesIO(body), 'SERVER_NAME': 'x',
           'SERVER_PORT': '80', 'wsgi.url_scheme': 'http', 'SCRIPT_NAME': ''}
    out = b''.join(app(env, lambda s, h, e=None: st.setdefault('s', s)))
    return st['s'], out


APPS = {
    'xml': mkapp(XmlDocument(validator='soft')),
    'soap': mkapp(Soap11(validator='soft')),
    'json': mkapp(JsonDocument(validator='soft')),
    'yaml': mkapp(YamlDocument(validator='soft')),
    'msgpack': mkapp(MessagePackRpc(validator='soft')),
    'http': mkapp(HttpRpc(validator='soft')),
}

SOAP = ('<s:Envelope xmlns:s="http://schemas.xmlsoap.org/soap/envelope/">'
        '<s:Body>%s</s:Body></s:Envelope>')


def send(prot, pos, name, num):
    app = APPS[prot]
    meth = '%s_%s' % (pos, name)
    text = repr(num)

    if prot in ('xml', 'soap'):
        inner = {
            'top': '<v>%s</v>' % text,
            'nested': '<box><v>%s</v><note>x</note></box>' % text,
            'arr': '<vs><i>1</i><i>%s</i></vs>' % text,
        }[pos]
        doc = '<%s xmlns="tns">%s</%s>' % (meth, inner, meth)
        if prot == 'soap':
            doc = SOAP % doc
        return call(app, doc.encode(), 'text/xml')

    args = {
        'top': {'v': num},
        'nested': {'box': {'v': num, 'note': 'x'}},
        'arr': {'vs': [1, num]},
    }[pos]

    if prot == 'json':
        return call(app, json.dumps({meth: args}).encode(), 'application/json')
    if prot == 'yaml':
        return call(app, yaml.safe_dump({meth: args}).encode(), 'text/yaml')
    if prot == 'msgpack':
        return call(app, msgpack.packb([0, 0, meth, list(args.values())]),
                                                     'application/x-msgpack')
    if prot == 'http':
        qs = {
            'top': 'v=%s' % text,
            'nested': 'box.v=%s&box.note=x' % text,
            'arr': 'vs=1&vs=%s' % text,
        }[pos]
        return call(app, method='GET', path='/' + meth, qs=qs)


failures = []
for name in TYPES:
    for num, accept in ((1, True), (1.5, False), (0.25, False)):
        for pos in ('top', 'nested', 'arr'):
            row = []
            for prot in APPS:
                del calls[:]
                status, out = send(prot, pos, name, num)
                invoked = len(calls) > 0
                fault = b'Client.ValidationError' in out
                ok = (invoked and not fault) if accept else \
                                                      (fault and not invoked)
                row.append('%s=%s' % (prot, 'accepted' if invoked else
                                    ('refused' if fault else 'ERR ' + status)))
                if not ok:
                    failures.append((name, prot, pos, num))
            print('%-8s %-6s %-5r expected=%-6s %s' % (name, pos, num,
                            'accept' if accept else 'refuse', ' '.join(row)))

if failures:
    print('PROPERTY VIOLATED for %d cases, e.g.:' % len(failures),
                                                                 failures[:6])
    sys.exit(1)

print('property holds')
