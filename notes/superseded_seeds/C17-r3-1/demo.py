"""C17 / change 1

An XmlDocument service behind WSGI receives a request whose Content-Type names
a charset and whose body starts with an XML declaration that names an encoding
(what most HTTP clients send).  The body defines an internal entity and
references it inside a string argument.

With safe parser defaults the reference must stay unexpanded: neither the user
function nor the response may ever see the replacement text.
"""

import io
import sys
import logging

logging.basicConfig(level=logging.CRITICAL)

import spyne
assert spyne.__file__.startswith('/tmp/wt3/C17/'), spyne.__file__

from spyne import Application, ServiceBase, rpc, Unicode
from spyne.protocol.xml import XmlDocument
from spyne.server.wsgi import WsgiApplication

SECRET = 'REPLACEMENT-TEXT-c17'
SEEN = []


class EchoService(ServiceBase):
    @rpc(Unicode, _returns=Unicode)
    def echo(ctx, s):
        SEEN.append(s)
        return s


def call(body, content_type):
    app = Application([EchoService], 'tns', in_protocol=XmlDocument(),
                                                    out_protocol=XmlDocument())
    env = {
        'REQUEST_METHOD': 'POST', 'PATH_INFO': '/', 'SCRIPT_NAME': '',
        'QUERY_STRING': '', 'CONTENT_TYPE': content_type,
        'CONTENT_LENGTH': str(len(body)), 'wsgi.input': io.BytesIO(body),
        'SERVER_NAME': 'localhost', 'SERVER_PORT': '80',
        'SERVER_PROTOCOL': 'HTTP/1.1', 'wsgi.url_scheme': 'http',
        'wsgi.errors': sys.stderr,
    }
    status = []
    out = b''.join(WsgiApplication(app)(env,
                                    lambda s, h, exc_info=None: status.append(s)))
    return status[0], out


DOCTYPE = '<!DOCTYPE echo [<!ENTITY a "%s">]>' % SECRET
BODY = '<echo xmlns="tns"><s>before-&a;-after</s></echo>'

failures = []
for decl, ctype in [
    ('', 'text/xml'),
    ('', 'text/xml; charset=utf-8'),
    ('<?xml version="1.0"?>', 'text/xml; charset=utf-8'),
    ('<?xml version="1.0" encoding="UTF-8"?>', 'text/xml'),
    ('<?xml version="1.0" encoding="UTF-8"?>', 'text/xml; charset=utf-8'),
    ('<?xml version="1.0" encoding="UTF-8"?>', 'text/xml; charset="UTF-8"'),
]:
    del SEEN[:]
    doc = (decl + DOCTYPE + BODY).encode('utf8')
    status, out = call(doc, ctype)
    leaked_arg = any(s is not None and SECRET in s for s in SEEN)
    leaked_out = SECRET.encode('ascii') in out
    print("%-40s %-28s -> %s args=%r" % (decl, ctype, status, SEEN))
    if leaked_arg or leaked_out:
        failures.append((decl, ctype, leaked_arg, leaked_out))

if failures:
    for f in failures:
        print("VIOLATION: entity replacement text reached %s for decl=%r "
              "content-type=%r" % (
               "user code" if f[2] else "the response", f[0], f[1]))
    sys.exit(1)

print("OK: entity references were never expanded")
