"""C13 / change 2: with chunked=False the response must carry a Content-Length
header that equals the number of body bytes actually handed to the server --
also when the output protocol serialises lazily (JsonDocument produces a
generator in ctx.out_string)."""

import io
import json
import logging
import sys
from wsgiref.validate import validator

logging.disable(logging.CRITICAL)

import spyne
assert spyne.__file__.startswith('/tmp/wt3/C13/'), spyne.__file__

from spyne import Application, ServiceBase, rpc, Unicode, Integer, Iterable
from spyne.protocol.json import JsonDocument
from spyne.protocol.soap import Soap11
from spyne.server.wsgi import WsgiApplication


class Svc(ServiceBase):
    @rpc(Unicode, _returns=Unicode)
    def echo(ctx, s):
        return s

    @rpc(Integer, _returns=Iterable(Unicode))
    def gen(ctx, n):
        def _g():
            for i in range(n):
                yield u"item-%d" % i
        return _g()


def env(body, ctype):
    return {
        'REQUEST_METHOD': 'POST', 'SCRIPT_NAME': '', 'PATH_INFO': '/',
        'QUERY_STRING': '', 'SERVER_NAME': 'localhost', 'SERVER_PORT': '80',
        'SERVER_PROTOCOL': 'HTTP/1.1', 'CONTENT_TYPE': ctype,
        'CONTENT_LENGTH': str(len(body)), 'wsgi.version': (1, 0),
        'wsgi.url_scheme': 'http', 'wsgi.input': io.BytesIO(body),
        'wsgi.errors': io.StringIO(), 'wsgi.multithread': False,
        'wsgi.multiprocess': False, 'wsgi.run_once': False,
    }


def call(wsgi_app, body, ctype):
    seen = {}

    def start_response(status, headers, exc_info=None):
        assert 'status' not in seen, "start_response called twice"
        seen['status'] = status
        seen['headers'] = dict(headers)
        return lambda data: None

    ret = validator(wsgi_app)(env(body, ctype), start_response)
    try:
        chunks = list(ret)
    finally:
        ret.close()

    return seen['status'], seen['headers'], b''.join(chunks)


SOAP_REQ = (b'<soap:Envelope '
    b'xmlns:soap="http://schemas.xmlsoap.org/soap/envelope/" xmlns:t="tns">'
    b'<soap:Body><t:echo><t:s>hello</t:s></t:echo></soap:Body>'
    b'</soap:Envelope>')


def main():
    failures = []

    def check(label, status, headers, body, expect):
        clen = headers.get('Content-Length')
        print("%-28s %s Content-Length=%s body=%d bytes"
                                          % (label, status, clen, len(body)))
        if clen is not None and int(clen) != len(body):
            failures.append("%s: Content-Length %s but %d body bytes"
                                                  % (label, clen, len(body)))
        if not expect(body):
            failures.append("%s: unexpected body %r" % (label, body[:60]))

    for chunked in (True, False):
        app = Application([Svc], 'tns', in_protocol=JsonDocument(),
                                                  out_protocol=JsonDocument())
        w = WsgiApplication(app, chunked=chunked)

        s, h, b = call(w, b'{"echo": {"s": "hello"}}', 'application/json')
        check("json echo chunked=%s" % chunked, s, h, b,
                                  lambda b: b and json.loads(b) == "hello")
        if not chunked and 'Content-Length' not in h:
            failures.append("json echo chunked=False: no Content-Length")

        s, h, b = call(w, b'{"gen": {"n": 3}}', 'application/json')
        check("json gen chunked=%s" % chunked, s, h, b,
               lambda b: b and json.loads(b) == ["item-0", "item-1", "item-2"])

        s, h, b = call(w, b'{"nope": {}}', 'application/json')
        check("json 404 chunked=%s" % chunked, s, h, b,
                                      lambda b: b'ResourceNotFound' in b)

        app = Application([Svc], 'tns', in_protocol=Soap11(),
                                                        out_protocol=Soap11())
        w = WsgiApplication(app, chunked=chunked)
        s, h, b = call(w, SOAP_REQ, 'text/xml; charset=utf-8')
        check("soap echo chunked=%s" % chunked, s, h, b,
                                          lambda b: b'hello</tns:echoResult' in b)

    for f in failures:
        print("FAIL:", f)
    return 1 if failures else 0


if __name__ == '__main__':
    sys.exit(main())
