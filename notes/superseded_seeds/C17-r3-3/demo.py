"""C17 / change 3

A service takes a free-form AnyDict argument.  The request defines internal
entities in its DOCTYPE and references them in the middle of a leaf value of
that dict.  With safe parser defaults entity references are never expanded:
user code and the response must not see the replacement text.  A leaf value
that consists of nothing but the reference, and a plain leaf value, are sent
as controls.
"""

import io
import sys
import logging

logging.basicConfig(level=logging.CRITICAL)

import spyne
assert spyne.__file__.startswith('/tmp/wt3/C17/'), spyne.__file__

from spyne import Application, ServiceBase, rpc, Unicode, AnyDict, \
    MethodContext
from spyne.protocol.xml import XmlDocument
from spyne.protocol.soap import Soap11, Soap12
from spyne.server import ServerBase
from spyne.server.wsgi import WsgiApplication
from spyne.const.xml import NS_SOAP11_ENV, NS_SOAP12_ENV

SECRET = 'REPLACEMENT-TEXT-c17'
SEEN = []


class DictService(ServiceBase):
    @rpc(AnyDict, _returns=Unicode)
    def put(ctx, d):
        SEEN.append(d)
        return repr(d)[:200]


def via_wsgi(app, body, content_type):
    env = {
        'REQUEST_METHOD': 'POST', 'PATH_INFO': '/', 'SCRIPT_NAME': '',
        'QUERY_STRING': '', 'CONTENT_TYPE': content_type,
        'CONTENT_LENGTH': str(len(body)), 'wsgi.input': io.BytesIO(body),
        'SERVER_NAME': 'localhost', 'SERVER_PORT': '80',
        'SERVER_PROTOCOL': 'HTTP/1.1', 'wsgi.url_scheme': 'http',
        'wsgi.errors': sys.stderr,
    }
    return b''.join(WsgiApplication(app)(env, lambda s, h, exc_info=None: None))


def via_base(app, body, content_type):
    server = ServerBase(app)
    server.transport = 'test'
    ctx = MethodContext(server, MethodContext.SERVER)
    ctx.in_string = [body]
    ctx, = server.generate_contexts(ctx)
    if ctx.in_error is None:
        server.get_in_object(ctx)
    if ctx.in_error is None:
        server.get_out_object(ctx)
    server.get_out_string(ctx)
    return b''.join(ctx.out_string)


def wrap(prot_cls, doctype, body):
    if prot_cls is XmlDocument:
        return doctype + body
    ns = NS_SOAP12_ENV if prot_cls is Soap12 else NS_SOAP11_ENV
    return '%s<e:Envelope xmlns:e="%s"><e:Body>%s</e:Body></e:Envelope>' % (
                                                              doctype, ns, body)


LEAK = ('<!DOCTYPE doc [<!ENTITY a "%s">]>' % SECRET,
        '<t:put xmlns:t="tns"><t:d><user><name>john &a; doe</name>'
        '<role>admin</role></user></t:d></t:put>')

ONLY_REF = (LEAK[0],
        '<t:put xmlns:t="tns"><t:d><user><name>&a;</name>'
        '<role>admin</role></user></t:d></t:put>')

PLAIN = ('',
        '<t:put xmlns:t="tns"><t:d><user><name>john doe</name>'
        '<role>admin</role></user></t:d></t:put>')

failures = []
for prot_cls, ctype in ((XmlDocument, 'text/xml'), (Soap11, 'text/xml'),
                                    (Soap12, 'application/soap+xml')):
    for transport in (via_wsgi, via_base):
        for name, (doctype, body) in (('mid-text', LEAK), ('only-ref', ONLY_REF),
                                                        ('plain', PLAIN)):
            del SEEN[:]
            app = Application([DictService], 'tns', in_protocol=prot_cls(),
                                                       out_protocol=prot_cls())
            request = wrap(prot_cls, doctype, body).encode('utf8')
            out = transport(app, request, ctype)
            tag = "%-11s %-8s %-8s" % (prot_cls.__name__, transport.__name__,
                                                                          name)
            print(tag, '->', SEEN)

            if SECRET in repr(SEEN) or SECRET.encode('ascii') in out:
                failures.append(tag + ": entity replacement text reached "
                                              "user code / the response")

if failures:
    for f in failures:
        print("VIOLATION:", f)
    sys.exit(1)

print("OK: entity references were never expanded")
