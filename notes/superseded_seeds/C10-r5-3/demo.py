"""C10 demo 3: an xs:duration whose seconds field has more digits than a float
can hold is just an ill-typed leaf value. Whatever the input protocol, the
request must be answered with a Client fault and must not reach user code."""

import sys
import json
import logging
from io import BytesIO

logging.disable(logging.CRITICAL)

import spyne
assert spyne.__file__.startswith('/tmp/wt5/C10/'), spyne.__file__

from spyne import Application, rpc, ServiceBase, Duration, Unicode
from spyne.protocol.soap import Soap11
from spyne.protocol.json import JsonDocument
from spyne.protocol.http import HttpRpc
from spyne.server.wsgi import WsgiApplication

calls = []


class Svc(ServiceBase):
    @rpc(Duration, _returns=Unicode)
    def wait(ctx, d):
        calls.append(d)
        return str(d)


def call(wsgi_app, method='POST', body=b'', content_type='text/xml',
                                              path='/', query_string=''):
    env = {
        'REQUEST_METHOD': method, 'PATH_INFO': path,
        'QUERY_STRING': query_string,
        'SERVER_NAME': 'localhost', 'SERVER_PORT': '80',
        'wsgi.url_scheme': 'http', 'CONTENT_TYPE': content_type,
        'CONTENT_LENGTH': str(len(body)), 'wsgi.input': BytesIO(body),
    }
    status = []
    ret = wsgi_app(env, lambda s, h, e=None: status.append(s))
    return status[0], b''.join(ret)


SOAP = ('<soap:Envelope xmlns:soap="http://schemas.xmlsoap.org/soap/envelope/"'
        ' xmlns:t="tns"><soap:Body><t:wait><t:d>%s</t:d></t:wait></soap:Body>'
        '</soap:Envelope>')

failures = []


def check(name, expect_prefix, fn):
    n = len(calls)
    try:
        status, out = fn()
    except Exception as e:
        failures.append("%s: escaped as %r" % (name, e))
        return
    if len(calls) != n:
        failures.append("%s: user function was run" % name)
    if not status.startswith(expect_prefix):
        failures.append("%s: status %r" % (name, status))
    if b'Client.ValidationError' not in out:
        failures.append("%s: not a Client fault: %r" % (name, out[:200]))


def soap_case(w, text):
    return lambda: call(w, body=(SOAP % text).encode('ascii'),
                                    content_type='text/xml; charset=utf-8')


def json_case(w, text):
    return lambda: call(w, body=json.dumps({'wait': {'d': text}}).encode(),
                                              content_type='application/json')


def http_case(w, text):
    return lambda: call(w, method='GET', path='/wait', query_string='d=' + text)


for validator in (None, 'soft'):
    ws = WsgiApplication(Application([Svc], 'tns',
             in_protocol=Soap11(validator=validator), out_protocol=Soap11()))
    wj = WsgiApplication(Application([Svc], 'tns',
             in_protocol=JsonDocument(validator=validator),
                                                 out_protocol=JsonDocument()))
    wh = WsgiApplication(Application([Svc], 'tns',
             in_protocol=HttpRpc(validator=validator),
                                                 out_protocol=JsonDocument()))

    # sanity: ordinary durations are read
    st, out = call(ws, body=(SOAP % 'PT1.5S').encode(),
                                       content_type='text/xml; charset=utf-8')
    assert st.startswith('200') and b'0:00:01.5' in out, (st, out)
    st, out = call(wj, body=b'{"wait": {"d": "P1DT2S"}}',
                                              content_type='application/json')
    assert st.startswith('200') and b'1 day, 0:00:02' in out, (st, out)

    # leaf text corruption: the seconds field grows, one case per magnitude
    for digits in (20, 300, 309, 400):
        text = 'PT' + '9' * digits + 'S'
        tag = '%d-digits/%s' % (digits, validator)
        check('soap/' + tag, '500', soap_case(ws, text))   # soap: always 500
        check('json/' + tag, '400', json_case(wj, text))
        check('http/' + tag, '400', http_case(wh, text))

if failures:
    print("FAIL")
    for f in failures:
        print("  ", f)
    sys.exit(1)

print("OK")
