"""C06 demo: the schema Spyne generates for an application must compile, and
what Spyne writes must be valid against it -- also when a model class lists a
plain python helper class before ComplexModel among its bases.

Exits 0 when the property holds, 1 otherwise.
"""

import sys
import logging
logging.disable(logging.CRITICAL)

from lxml import etree

import spyne
assert spyne.__file__.startswith('/tmp/wt6/C06/'), spyne.__file__

from spyne import Application, Service, rpc, ComplexModel, Unicode, Integer, \
    Array
from spyne import MethodContext
from spyne.protocol.xml import XmlDocument
from spyne.protocol.soap import Soap11
from spyne.server import ServerBase
from spyne.util.xml import get_schema_documents


class Audited(object):
    """Plain python behaviour shared by some models. Not a spyne type."""

    def describe(self):
        return "%s #%s" % (self.__class__.__name__, getattr(self, 'id', None))


class Item(Audited, ComplexModel):
    __namespace__ = 'tns'

    id = Integer
    name = Unicode(max_len=16)


class Order(ComplexModel):
    __namespace__ = 'tns'

    id = Integer
    main = Item
    items = Array(Item)


class OrderService(Service):
    @rpc(Order, _returns=Order)
    def put_order(ctx, order):
        return order


def call(app, doc):
    server = ServerBase(app)
    initial_ctx = MethodContext(server, MethodContext.SERVER)
    initial_ctx.in_string = [doc]
    ctx, = server.generate_contexts(initial_ctx)
    if ctx.in_error is None:
        server.get_in_object(ctx)
    if ctx.in_error is not None:
        return False, ctx.in_error
    server.get_out_object(ctx)
    assert ctx.out_error is None, ctx.out_error
    server.get_out_string(ctx)
    return True, b''.join(ctx.out_string)


def main():
    failures = []

    # 1. every type the published schema refers to is defined in it
    docs = get_schema_documents([Order], 'tns')
    tns = docs['tns']
    defined = set(tns.xpath('xs:complexType/@name | xs:simpleType/@name',
                       namespaces={'xs': 'http://www.w3.org/2001/XMLSchema'}))
    referred = set(t.split(':', 1)[1] for t in tns.xpath('//@type')
                                                    if t.startswith('tns:'))
    if not referred <= defined:
        failures.append("schema refers to types it does not define: %r"
                                               % sorted(referred - defined))

    # 2. the schema compiles (validator='lxml' compiles it when the protocol is
    #    bound to the application)
    schema = None
    try:
        app = Application([OrderService], 'tns',
                                     in_protocol=XmlDocument(validator='lxml'),
                                     out_protocol=XmlDocument())
        schema = app.in_protocol.validation_schema

    except etree.XMLSchemaParseError as e:
        failures.append("generated schema does not compile: %s" % e)

    # 3. what spyne writes for conformant values is valid against it
    if schema is not None:
        request = b'<put_order xmlns="tns"><order><id>1</id>' \
                  b'<main><id>10</id><name>bolt</name></main>' \
                  b'<items><Item><id>11</id><name>nut</name></Item>' \
                  b'<Item><id>12</id><name>washer</name></Item></items>' \
                  b'</order></put_order>'

        ok, response = call(app, request)
        if not ok:
            failures.append("conformant request rejected: %r" % (response,))

        elif not schema.validate(etree.fromstring(response)):
            failures.append("response rejected by the schema: %s"
                                                % schema.error_log.last_error)

    # the same holds for the soap flavour of the application
    try:
        Application([OrderService], 'tns',
                                          in_protocol=Soap11(validator='lxml'),
                                          out_protocol=Soap11())
    except etree.XMLSchemaParseError as e:
        failures.append("generated schema does not compile (soap11): %s" % e)

    for f in failures:
        print("FAIL:", f)

    if failures:
        return 1

    print("OK: schema compiles and spyne's own output is valid against it")
    return 0


if __name__ == '__main__':
    sys.exit(main())
