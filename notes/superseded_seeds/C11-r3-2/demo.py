"""C11 demo 2: two services exposing the same request name must be rejected at
construction, and which function runs must never depend on service order.

Two API generations live in sibling private modules (shop/_v1.py, shop/_v2.py).
Both define a service class called ``Accounts`` with a ``lookup`` method whose
request/response messages live in a per-version XML namespace.  Putting both in
one application makes the request name 'lookup' ambiguous, so the Application
constructor must refuse it -- whatever the listing order.
"""
import importlib
import logging
import os
import sys
import tempfile
import textwrap

logging.disable(logging.CRITICAL)

import spyne
assert spyne.__file__.startswith('/tmp/wt3/C11/'), spyne.__file__

from spyne import Application
from spyne.protocol.soap import Soap11
from spyne.server.null import NullServer

_SRC = textwrap.dedent('''
    from spyne import Service, srpc, Unicode

    calls = []

    class Accounts(Service):
        @srpc(Unicode, _returns=Unicode,
                   _in_message_name='{urn:demo:shop:%(tag)s}lookup',
                   _out_message_name='{urn:demo:shop:%(tag)s}lookupResponse')
        def lookup(s):
            calls.append(%(tag)r)
            return %(tag)r
''')


def make_package():
    root = tempfile.mkdtemp(prefix='c11demo')
    pkg = os.path.join(root, 'shop')
    os.mkdir(pkg)
    open(os.path.join(pkg, '__init__.py'), 'w').close()
    for tag in ('v1', 'v2'):
        with open(os.path.join(pkg, '_%s.py' % tag), 'w') as f:
            f.write(_SRC % {'tag': tag})
    sys.path.insert(0, root)
    return importlib.import_module('shop._v1'), \
                                           importlib.import_module('shop._v2')


def attempt(services):
    try:
        app = Application(services, 'urn:demo:shop',
                                   in_protocol=Soap11(), out_protocol=Soap11())
    except Exception as e:
        return None, "%s: %s" % (type(e).__name__, " ".join(str(e).split())[:70])

    ret = NullServer(app).service.lookup('bob')
    return ret, None


def main():
    v1, v2 = make_package()

    r12, e12 = attempt([v1.Accounts, v2.Accounts])
    r21, e21 = attempt([v2.Accounts, v1.Accounts])

    if e12 is not None and e21 is not None:
        print("OK: ambiguous 'lookup' rejected in both orders (%s, %s)"
                                                                  % (e12, e21))
        return 0

    print("FAIL: application with two 'lookup' methods was accepted.")
    print("  services=[v1, v2] -> request 'lookup' answered by %r" % (r12,))
    print("  services=[v2, v1] -> request 'lookup' answered by %r" % (r21,))
    print("  invocation log: v1=%r v2=%r" % (v1.calls, v2.calls))
    if r12 != r21:
        print("  the function that runs depends on the order of the service "
                                                                        "list")
    return 1


if __name__ == '__main__':
    sys.exit(main())
