"""C05 / change 1 -- occurrence constraints over XML and SOAP.

A member declared with max_occurs=2 must be refused when it occurs three times,
and a member declared with min_occurs=1 must be accepted when it is present --
whether or not the child elements carry XML attributes of their own.
"""

import logging
import sys

logging.disable(logging.CRITICAL)

import spyne
assert spyne.__file__.startswith('/tmp/wt/C05/'), spyne.__file__

from spyne import Application, Service, srpc, MethodContext, ComplexModel, \
    Integer, Unicode
from spyne.server import ServerBase
from spyne.protocol.xml import XmlDocument
from spyne.protocol.soap import Soap11

calls = []


class Order(ComplexModel):
    __namespace__ = 'tns'

    id = Integer(min_occurs=1)
    tag = Unicode(max_occurs=2)


class OrderService(Service):
    @srpc(Order)
    def place(order):
        calls.append(order)


def run(in_protocol, body):
    del calls[:]
    app = Application([OrderService], 'tns', in_protocol=in_protocol,
                                                    out_protocol=XmlDocument())
    server = ServerBase(app)
    ctx = MethodContext(server, MethodContext.SERVER)
    ctx.in_string = [body.encode('utf8')]
    ctx, = server.generate_contexts(ctx, in_string_charset='utf8')
    if ctx.in_error is None:
        server.get_in_object(ctx)
    if ctx.in_error is None:
        server.get_out_object(ctx)
    err = ctx.in_error or ctx.out_error
    return (None if err is None else err.faultcode), list(calls)


def xml(order):
    return '<place xmlns="tns"><order>%s</order></place>' % order


def soap(order):
    return ('<e:Envelope xmlns:e="http://schemas.xmlsoap.org/soap/envelope/">'
            '<e:Body>%s</e:Body></e:Envelope>' % xml(order))


failures = []


def check(what, cond):
    print('%-4s %s' % ('ok' if cond else 'FAIL', what))
    if not cond:
        failures.append(what)


for name, prot, wrap in (('xml', lambda: XmlDocument(validator='soft'), xml),
                         ('soap', lambda: Soap11(validator='soft'), soap)):
    # plain children: 2 accepted, 3 refused
    code, seen = run(prot(), wrap('<id>1</id><tag>a</tag><tag>b</tag>'))
    check('%s: two plain <tag>s accepted' % name,
                           code is None and len(seen) == 1
                                        and seen[0].tag == ['a', 'b'])

    code, seen = run(prot(), wrap('<id>1</id><tag>a</tag><tag>b</tag>'
                                                              '<tag>c</tag>'))
    check('%s: three plain <tag>s refused' % name,
                    code == 'Client.ValidationError' and seen == [])

    # the same two requests, children annotated with an attribute
    code, seen = run(prot(), wrap('<id>1</id><tag lang="en">a</tag>'
                                                   '<tag lang="en">b</tag>'))
    check('%s: two annotated <tag>s accepted' % name,
                           code is None and len(seen) == 1
                                        and seen[0].tag == ['a', 'b'])

    code, seen = run(prot(), wrap('<id>1</id><tag lang="en">a</tag>'
                          '<tag lang="en">b</tag><tag lang="en">c</tag>'))
    check('%s: three annotated <tag>s refused (max_occurs=2), got %r / %r'
                                                        % (name, code, seen),
                    code == 'Client.ValidationError' and seen == [])

    # mandatory member present, annotated
    code, seen = run(prot(), wrap('<id unit="n">7</id>'))
    check('%s: annotated mandatory <id> accepted, got %r' % (name, code),
                    code is None and len(seen) == 1 and seen[0].id == 7)

    # mandatory member really missing
    code, seen = run(prot(), wrap('<tag>a</tag>'))
    check('%s: missing mandatory <id> refused' % name,
                    code == 'Client.ValidationError' and seen == [])

sys.exit(1 if failures else 0)
