"""C04 demo 1: an enum slot must only ever receive one of the enum's own
EnumValue objects (or None). Any other literal has to be answered with a
Client.ValidationError when soft validation is on."""

import logging
logging.disable(logging.CRITICAL)

import sys
from io import BytesIO

import spyne
from spyne import Application, rpc, ServiceBase, Unicode, ComplexModel
from spyne.model.enum import Enum
from spyne.protocol.xml import XmlDocument
from spyne.server.wsgi import WsgiApplication

print("spyne from", spyne.__file__)

Color = Enum('Red', 'Green', type_name='Color')
LEGAL = (Color.Red, Color.Green)


class Paint(ComplexModel):
    __namespace__ = 'tns'
    color = Color
    name = Unicode


seen = []


class S(ServiceBase):
    @rpc(Color, Paint, _returns=Unicode)
    def f(ctx, color, paint):
        seen.append((color, paint.color if paint is not None else None))
        return 'ok'


app = Application([S], 'tns', in_protocol=XmlDocument(validator='soft'),
                                                    out_protocol=XmlDocument())
wsgi = WsgiApplication(app)


def call(data):
    env = {
        'REQUEST_METHOD': 'POST', 'PATH_INFO': '/', 'QUERY_STRING': '',
        'CONTENT_TYPE': 'text/xml', 'CONTENT_LENGTH': str(len(data)),
        'wsgi.input': BytesIO(data), 'SERVER_NAME': 'x', 'SERVER_PORT': '80',
        'wsgi.url_scheme': 'http',
    }
    status = []
    body = b''.join(wsgi(env, lambda s, h: status.append(s)))
    return status[0], body


REQ = '<tns:f xmlns:tns="tns">%s</tns:f>'

bad = 0
for literal in ('Red', 'Green', 'Blue', 'red', '__values__', 'Attributes',
                'validate_string', '__doc__', '__type_name__', 'customize'):
    for body in ('<tns:color>%s</tns:color>' % literal,
         '<tns:paint><tns:color>%s</tns:color></tns:paint>' % literal):
        del seen[:]
        status, ret = call((REQ % body).encode('utf8'))
        if seen:
            for v in seen[0]:
                if v is None or any(v is l for l in LEGAL):
                    continue
                bad += 1
                print("VIOLATION: literal %r delivered %s %r to an enum slot "
                      "(http status %s)" % (literal, type(v).__name__, v, status))
        else:
            assert status.startswith('400'), (literal, status, ret)
            assert b'Client.ValidationError' in ret, (literal, ret)

if bad:
    print("FAIL: %d foreign values reached user code" % bad)
    sys.exit(1)

print("OK: only Color members reached user code")
