"""C17 demo 3: the replacement text of an entity declared in the request's DTD
must never reach user code or the response. The parser options stay safe here
(the entity reference survives parsing as an unexpanded node); the demo checks
what the service actually receives, through ServerBase and through WSGI."""

import sys
from io import BytesIO

import spyne
assert spyne.__file__.startswith('/tmp/wt/C17/'), spyne.__file__

from spyne import Application, ServiceBase, rpc, Unicode, MethodContext
from spyne.protocol.xml import XmlDocument
from spyne.protocol.soap import Soap11, Soap12
from spyne.server import ServerBase
from spyne.server.wsgi import WsgiApplication
from spyne.const.xml import NS_SOAP11_ENV, NS_SOAP12_ENV

TNS = 'urn:c17'
SECRET = 'REPLACEMENT-TEXT-0451'
CAPTURED = []


class Svc(ServiceBase):
    @rpc(Unicode, _returns=Unicode)
    def echo(ctx, s):
        CAPTURED.append(s)
        return 'got[%s]' % (s,)


DTD = '<!DOCTYPE d [<!ENTITY x "%s">]>' % SECRET
TEXTS = ['&x;', 'a&x;', '&x;b', 'a&x;b&x;c']


def request(ns, text):
    call = '<t:echo xmlns:t="%s"><t:s>%s</t:s></t:echo>' % (TNS, text)
    if ns is None:
        return (DTD + call).encode()
    return ('%s<e:Envelope xmlns:e="%s"><e:Body>%s</e:Body></e:Envelope>'
                                                    % (DTD, ns, call)).encode()


def via_wsgi(app, body, ctype):
    env = {
        'REQUEST_METHOD': 'POST', 'PATH_INFO': '/', 'QUERY_STRING': '',
        'SERVER_NAME': 'localhost', 'SERVER_PORT': '80',
        'wsgi.url_scheme': 'http', 'CONTENT_TYPE': ctype,
        'CONTENT_LENGTH': str(len(body)), 'wsgi.input': BytesIO(body),
    }
    ret = WsgiApplication(app)(env, lambda s, h, e=None: None)
    return b''.join(ret)


def via_server_base(app, body, ctype):
    server = ServerBase(app)
    server.transport = 'urn:c17.transport'
    initial_ctx = MethodContext(server, MethodContext.SERVER)
    initial_ctx.in_string = [body]
    ctx, = server.generate_contexts(initial_ctx)
    if ctx.in_error is None:
        server.get_in_object(ctx)
    if ctx.in_error is None:
        server.get_out_object(ctx)
    server.get_out_string(ctx)
    return b''.join(ctx.out_string)


failures = []
for name, prot, ns, ctype in (
            ('XmlDocument', XmlDocument, None, 'text/xml'),
            ('Soap11', Soap11, NS_SOAP11_ENV, 'text/xml; charset=utf-8'),
            ('Soap12', Soap12, NS_SOAP12_ENV, 'application/soap+xml')):

    for tname, transport in (('ServerBase', via_server_base),
                                                        ('WSGI', via_wsgi)):
        for text in TEXTS:
            del CAPTURED[:]
            in_prot = prot()
            app = Application([Svc], TNS, in_protocol=in_prot,
                                                          out_protocol=prot())
            assert in_prot.parser_kwargs['resolve_entities'] is False

            resp = transport(app, request(ns, text), ctype)
            print(name, tname, repr(text), CAPTURED, resp[-120:])

            if any(SECRET in (c or '') for c in CAPTURED):
                failures.append('%s/%s %r: replacement text reached user '
                               'code: %r' % (name, tname, text, CAPTURED))
            if SECRET.encode() in resp:
                failures.append('%s/%s %r: replacement text is in the '
                                           'response' % (name, tname, text))

if failures:
    print('PROPERTY VIOLATED:')
    for f in failures:
        print('  ' + f)
    sys.exit(1)

print('OK')
