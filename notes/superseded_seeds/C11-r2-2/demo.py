"""C11 demo 2: two methods that answer to the same request name must be
rejected when the application is built, and which function runs must never
depend on the order of the service list.

Two service classes are published under one exposed service name
(``__service_name__``) and both define a bare-style ``ping`` that takes a
string.  Both would answer to '{tns}ping'.
"""

import sys
import json
from io import BytesIO

import spyne
from spyne import Application, Service, srpc, Unicode
from spyne.protocol.json import JsonDocument
from spyne.server.wsgi import WsgiApplication

assert spyne.__file__.startswith('/tmp/wt/C11/'), spyne.__file__

calls = []


class UserOps(Service):
    __service_name__ = 'Backoffice'

    @srpc(Unicode, _returns=Unicode, _body_style='bare')
    def ping(s):
        calls.append('UserOps.ping')
        return 'user'

    @srpc(Unicode, _returns=Unicode)
    def user_name(s):
        calls.append('UserOps.user_name')
        return s


class ItemOps(Service):
    __service_name__ = 'Backoffice'

    @srpc(Unicode, _returns=Unicode, _body_style='bare')
    def ping(s):
        calls.append('ItemOps.ping')
        return 'item'

    @srpc(Unicode, _returns=Unicode)
    def item_name(s):
        calls.append('ItemOps.item_name')
        return s


def request(app, doc):
    body = json.dumps(doc).encode('utf8')
    status = []
    ret = b''.join(WsgiApplication(app)({
        'CONTENT_LENGTH': str(len(body)),
        'CONTENT_TYPE': 'application/json',
        'PATH_INFO': '/',
        'QUERY_STRING': '',
        'SERVER_NAME': 'localhost',
        'SERVER_PORT': '7000',
        'REQUEST_METHOD': 'POST',
        'wsgi.url_scheme': 'http',
        'wsgi.input': BytesIO(body),
    }, lambda code, headers: status.append(code)))
    return status[0], ret


ran = {}
for order in ([UserOps, ItemOps], [ItemOps, UserOps]):
    names = [s.__name__ for s in order]
    try:
        app = Application(order, 'tns', in_protocol=JsonDocument(),
                                                  out_protocol=JsonDocument())
    except Exception as e:
        print("%r: rejected at construction: %r" % (names, e))
        continue

    handles = app.interface.service_method_map['{tns}ping']
    print("%r: ACCEPTED, '{tns}ping' -> %d handler(s)" % (names, len(handles)))

    del calls[:]
    print("   ", request(app, {"ping": "x"}))
    print("    ran:", calls)
    ran[tuple(names)] = list(calls)

if ran:
    print("FAIL: two methods answering to '{tns}ping' were accepted; "
          "function that runs per service order: %r" % (ran,))
    sys.exit(1)

# a single one of them is of course fine
app = Application([ItemOps], 'tns', in_protocol=JsonDocument(),
                                                  out_protocol=JsonDocument())
del calls[:]
print(request(app, {"ping": "x"}))
assert calls == ['ItemOps.ping'], calls

print("OK: duplicate request name rejected for every service order")
