"""C16 demo 3: every xsi:type marker emitted by a polymorphic XmlDocument must
resolve (prefix -> namespace -> registered class) *in the transmitted
document*, so that the receiver rebuilds the same subclass with equal values.

The instances here are nested: a holder object living in the namespace of the
class tree carries a field of the base type, an array of the base type with
mixed subclasses and an unbounded customized variant of the base.  The holder
makes a full loop: client -> wire -> server user code -> wire -> client.

Exits 0 when the property holds, 1 otherwise.
"""

from __future__ import print_function

import sys
import logging
logging.disable(logging.CRITICAL)

from lxml import etree

import spyne
print("spyne from", spyne.__file__)

from spyne import Application, Service, rpc, ComplexModel, Unicode, Integer, \
    Array, MethodContext
from spyne.server import ServerBase
from spyne.client import RemoteProcedureBase
from spyne.protocol.xml import XmlDocument

NS = 'urn:demo:tree'
XSI_TYPE = '{http://www.w3.org/2001/XMLSchema-instance}type'


class Base(ComplexModel):
    __namespace__ = NS
    a1 = Unicode
    a2 = Integer


class Mid(Base):
    __namespace__ = NS
    b1 = Unicode


class Leaf(Mid):
    __namespace__ = NS
    c1 = Integer


class Other(Base):
    __namespace__ = NS
    d1 = Unicode


class Holder(ComplexModel):
    __namespace__ = NS
    label = Unicode
    one = Base
    arr = Array(Base)
    many = Base.customize(max_occurs='unbounded')


def make_holder():
    return Holder(
        label='h',
        one=Leaf(a1='x', a2=3, b1='bb', c1=7),
        arr=[Base(a1='w', a2=6), Mid(a1='y', a2=4, b1='m'),
                                             Other(a1='z', a2=5, d1='dd')],
        many=[Other(a1='q', a2=8, d1='e'), Leaf(a1='r', a2=9, b1='s', c1=1)],
    )


SEEN = []


class Svc(Service):
    @rpc(Holder, _returns=Holder)
    def echo(ctx, h):
        SEEN.append(h)
        return h


def state(o):
    if o is None:
        return None
    if isinstance(o, (list, tuple)):
        return [state(x) for x in o]
    if isinstance(o, ComplexModel):
        cls = o.__class__
        return cls.__name__, [(k, state(getattr(o, k, None)))
                                        for k in cls.get_flat_type_info(cls)]
    return o


failures = []


def check(label, ok, detail=''):
    if ok:
        print("ok   %s" % label)
    else:
        failures.append(label)
        print("FAIL %s %s" % (label, detail))


def check_markers(app, label, wire, expected):
    doc = etree.fromstring(wire)
    markers = [e for e in doc.iter() if e.get(XSI_TYPE) is not None]
    check("%s: %d subclass instances carry a type marker" % (label, expected),
                                       len(markers) == expected, len(markers))
    bad = 0
    for e in markers:
        qname = e.get(XSI_TYPE)
        prefix, _, local = qname.rpartition(':')
        ns = e.nsmap.get(prefix or None)
        ok = ns is not None and '{%s}%s' % (ns, local) in app.interface.classes
        bad += 0 if ok else 1
        check("%s: marker %r on <%s> resolves to a registered class"
                            % (label, qname, etree.QName(e).localname), ok,
                         "- prefix %r is bound to %r there" % (prefix, ns))
    if bad:
        print("     document: %s" % wire.decode('utf8'))


class Loopback(RemoteProcedureBase):
    """client -> bytes -> server pipeline -> bytes -> client"""

    def __call__(self, *args, **kwargs):
        ctx, = self.contexts
        self.get_out_object(ctx, args, kwargs)
        self.get_out_string(ctx)
        request = b''.join(ctx.out_string)
        check_markers(self.app, "request", request, 5)

        server = ServerBase(self.app)
        ictx = MethodContext(server, MethodContext.SERVER)
        ictx.in_string = [request]
        sctx, = server.generate_contexts(ictx, in_string_charset='utf8')
        if sctx.in_error is None:
            server.get_in_object(sctx)
        check("server accepts the request", sctx.in_error is None,
                                                                sctx.in_error)
        if sctx.in_error is not None:
            return None

        server.get_out_object(sctx)
        server.get_out_string(sctx)
        response = b''.join(sctx.out_string)
        check_markers(self.app, "response", response, 5)

        ctx.in_string = [response]
        self.get_in_object(ctx)
        check("client accepts the response", ctx.in_error is None,
                                                                 ctx.in_error)
        return ctx.in_object


app = Application([Svc], 'urn:demo:app',
                            in_protocol=XmlDocument(polymorphic=True),
                            out_protocol=XmlDocument(polymorphic=True))

ret = Loopback('', app, 'echo')(make_holder())

check("user code receives the same subclasses and values",
      len(SEEN) == 1 and state(SEEN[0]) == state(make_holder()),
                                                   state(SEEN and SEEN[0]))
check("client receives the same subclasses and values",
                              state(ret) == state(make_holder()), state(ret))

print()
if failures:
    print("%d check(s) failed" % len(failures))
    sys.exit(1)

print("all checks passed")
