"""C10 demo 1: a non-finite JSON number in an Integer slot under soft validation.

Python's json module accepts ``1e999`` (parsed as float('inf')), ``Infinity``
and ``NaN``.  With validator='soft' such a value in an Integer parameter must be
answered with a Client.ValidationError fault (HTTP 400) and the user function
must not run.  The request must never escape as an unhandled exception.
"""
import io
import sys
import logging

logging.disable(logging.CRITICAL)

import spyne
assert spyne.__file__.startswith('/tmp/wt3/C10/'), spyne.__file__

from spyne import Application, rpc, ServiceBase, Integer, Unicode
from spyne.protocol.json import JsonDocument
from spyne.server.wsgi import WsgiApplication

CALLS = []


class Svc(ServiceBase):
    @rpc(Integer, _returns=Unicode)
    def count(ctx, n):
        CALLS.append(n)
        return 'ok'


app = Application([Svc], 'tns', in_protocol=JsonDocument(validator='soft'),
                                out_protocol=JsonDocument())
wsgi = WsgiApplication(app)


def post(body):
    status = {}

    def start_response(code, headers, exc_info=None):
        status['code'] = code

    env = {
        'REQUEST_METHOD': 'POST', 'PATH_INFO': '/', 'QUERY_STRING': '',
        'CONTENT_TYPE': 'application/json', 'CONTENT_LENGTH': str(len(body)),
        'wsgi.input': io.BytesIO(body), 'SERVER_NAME': 'localhost',
        'SERVER_PORT': '80', 'wsgi.url_scheme': 'http',
    }
    ret = b''.join(wsgi(env, start_response))
    return status['code'], ret


failures = []

# sanity: a proper request works
code, body = post(b'{"count": {"n": 3}}')
assert code.startswith('200') and CALLS == [3], (code, body)
del CALLS[:]

for payload in (b'{"count": {"n": 1e999}}',
                b'{"count": {"n": Infinity}}',
                b'{"count": {"n": -Infinity}}',
                b'{"count": {"n": NaN}}'):
    try:
        code, body = post(payload)
    except Exception as e:
        failures.append("%r escaped as unhandled %r" % (payload, e))
        continue

    if not code.startswith('400') or b'"Client.' not in body:
        failures.append("%r answered with %r %r" % (payload, code, body))
    if CALLS:
        failures.append("%r: user function was run with %r" % (payload, CALLS))
        del CALLS[:]

if failures:
    print("PROPERTY VIOLATED:")
    for f in failures:
        print("  ", f)
    sys.exit(1)

print("OK: non-finite numbers in an Integer slot are client faults")
