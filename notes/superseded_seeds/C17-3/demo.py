"""C17 demo 3: a protocol instance with default settings must never resolve
entities, regardless of what other protocol instances living in the same
process were configured with or which requests the worker thread has served
before."""

import io
import os
import sys
import tempfile
import threading

import spyne
assert spyne.__file__.startswith('/tmp/wt/C17/'), spyne.__file__

from spyne import Application, rpc, ServiceBase, Unicode
from spyne.protocol.xml import XmlDocument
from spyne.server.wsgi import WsgiApplication

SECRET = "CANARY-7f3a9c-SECRET"
fd, CANARY = tempfile.mkstemp(prefix="c17-canary-", suffix=".txt")
os.write(fd, SECRET.encode())
os.close(fd)

SEEN = []


class Svc(ServiceBase):
    @rpc(Unicode, _returns=Unicode)
    def echo(ctx, s):
        SEEN.append(s)
        return s


# a back-office endpoint that trusts its (authenticated) peers and lets them use
# entities, and the public endpoint that runs with spyne's defaults.
backoffice = WsgiApplication(Application([Svc], 'tns', name='BackOffice',
    in_protocol=XmlDocument(resolve_entities=True), out_protocol=XmlDocument()))
public = WsgiApplication(Application([Svc], 'tns', name='Public',
    in_protocol=XmlDocument(), out_protocol=XmlDocument()))


def post(server, body):
    status = []
    resp = b''.join(server({
        'QUERY_STRING': '', 'PATH_INFO': '/', 'SCRIPT_NAME': '',
        'SERVER_NAME': 'localhost', 'SERVER_PORT': '80',
        'wsgi.url_scheme': 'http', 'REQUEST_METHOD': 'POST',
        'CONTENT_TYPE': 'text/xml', 'CONTENT_LENGTH': str(len(body)),
        'wsgi.input': io.BytesIO(body), 'wsgi.errors': sys.stderr,
    }, lambda s, h, e=None: status.append(s)))
    return status[0], resp


BENIGN = b'<tns:echo xmlns:tns="tns"><tns:s>hello</tns:s></tns:echo>'
ATTACK = ('<!DOCTYPE echo [<!ENTITY int "INTERNAL-ENTITY-TEXT">'
          '<!ENTITY ext SYSTEM "file://%s">]>'
          '<tns:echo xmlns:tns="tns"><tns:s>[&int;|&ext;]</tns:s></tns:echo>'
                                                          % CANARY).encode()

failures = []


def attack_public(label):
    del SEEN[:]
    status, resp = post(public, ATTACK)
    leaked = [m for m in (SECRET, "INTERNAL-ENTITY-TEXT")
                if m.encode() in resp or any(m in (s or '') for s in SEEN)]
    print("%-28s %s user code saw %r" % (label, status, SEEN))
    if leaked:
        failures.append((label, leaked))


def worker():
    # a thread that only ever served the public endpoint
    post(public, BENIGN)
    attack_public("fresh thread, public only")


t = threading.Thread(target=worker)
t.start()
t.join()

# a thread that served the back-office endpoint before the public one
status, resp = post(backoffice, BENIGN)
assert status.startswith('200'), (status, resp)
attack_public("after back-office request")

os.unlink(CANARY)

if failures:
    print("FAIL: default-configured XmlDocument expanded entities:", failures)
    sys.exit(1)

print("OK: default-configured endpoint never expanded entities")
