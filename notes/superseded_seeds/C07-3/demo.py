"""C07 / change 3: every QName in the WSDL must resolve, also when the
deployer pins a namespace prefix by hand.

Pinning a prefix on ``app.interface.nsmap`` / ``prefmap`` before the document
is built is the usual recipe for keeping prefixes stable for legacy consumers.
Here the pinned prefix happens to look like an auto-generated one ("s1"), and
the application uses enough other namespaces for the automatic allocator to
reach that number.
"""
import sys

import spyne
assert spyne.__file__.startswith('/tmp/wt/C07/'), spyne.__file__

from lxml import etree

from spyne import Application, rpc, ServiceBase, Unicode, Integer, ComplexModel
from spyne.protocol.soap import Soap11
from spyne.interface.wsdl import Wsdl11

NS_WSDL = 'http://schemas.xmlsoap.org/wsdl/'
NS_XSD = 'http://www.w3.org/2001/XMLSchema'
TNS = 'urn:demo:hr'
NS_LEGACY = 'urn:demo:legacy'


class Badge(ComplexModel):
    __namespace__ = NS_LEGACY
    code = Unicode


class Dept(ComplexModel):
    __namespace__ = 'urn:demo:org'
    name = Unicode


class Salary(ComplexModel):
    __namespace__ = 'urn:demo:payroll'
    amount = Integer


class Employee(ComplexModel):
    __namespace__ = TNS
    badge = Badge
    dept = Dept
    salary = Salary


class HrService(ServiceBase):
    @rpc(Employee, _returns=Employee)
    def hire(ctx, e):
        return e


def build():
    app = Application([HrService], TNS, name='Hr',
                      in_protocol=Soap11(), out_protocol=Soap11())
    app.transport = 'http://schemas.xmlsoap.org/soap/http'

    # legacy consumers have "s1" hard-wired for this namespace
    app.interface.nsmap['s1'] = NS_LEGACY
    app.interface.prefmap[NS_LEGACY] = 's1'

    w = Wsdl11(app.interface)
    w.build_interface_document('http://localhost:8000/')
    return w.get_interface_document()


def main():
    root = etree.fromstring(build())

    defined = set()
    schemas = list(root.iter('{%s}schema' % NS_XSD))
    tnss = [s.get('targetNamespace') for s in schemas]
    for s in schemas:
        for c in s:
            if c.get('name') and c.tag != '{%s}import' % NS_XSD:
                kind = 'element' if c.tag.endswith('}element') else 'type'
                defined.add((kind, s.get('targetNamespace'), c.get('name')))

    problems = []
    if len(set(tnss)) != len(tnss) or \
           set(tnss) != set([TNS, NS_LEGACY, 'urn:demo:org', 'urn:demo:payroll']):
        problems.append("schemas emitted for %r" % (sorted(tnss),))

    # the server (de)serializes each class under its own namespace, so the
    # document has to define it there.
    for cls in (Badge, Dept, Salary, Employee):
        key = ('type', cls.get_namespace(), cls.get_type_name())
        if key not in defined:
            problems.append("{%s}%s is not defined in the document"
                                                            % (key[1], key[2]))

    def check(elt, attr, kind):
        qn = elt.get(attr)
        if qn is None:
            return
        pref, _, local = qn.rpartition(':')
        ns = elt.nsmap.get(pref or None)
        if ns == NS_XSD:
            return
        if (kind, ns, local) not in defined:
            problems.append("<%s %s=%r> -> {%s}%s is not defined" % (
                         etree.QName(elt).localname, attr, qn, ns, local))

    for elt in root.iter():
        if not isinstance(elt.tag, str):
            continue
        if elt.tag.startswith('{%s}' % NS_XSD):
            check(elt, 'type', 'type')
            check(elt, 'base', 'type')
            check(elt, 'ref', 'element')
        elif elt.tag == '{%s}part' % NS_WSDL:
            check(elt, 'element', 'element')

    if problems:
        print("WSDL is not closed:")
        for p in problems:
            print("  -", p)
        return 1

    print("ok: %d schemas, all type/base/element references resolve"
                                                                 % len(schemas))
    return 0


if __name__ == '__main__':
    sys.exit(main())
