"""C07 demo 1: every QName in the WSDL must resolve -- including its prefix.

A service whose SOAP headers live in a namespace of their own, served by an
application that does NOT use lxml schema validation (so nothing has built the
schema -- and hence allocated the s0, s1, ... prefixes -- before the WSDL is
requested).  The wsdl:message parts for the headers are rendered as
element="s0:Credentials"; that prefix must be declared in scope.
"""
import sys

import spyne
assert spyne.__file__.startswith('/tmp/wt/C07/'), spyne.__file__

from lxml import etree

from spyne import Application, Service, rpc, ComplexModel, Unicode, Integer
from spyne.protocol.soap import Soap11

NS_XS = 'http://www.w3.org/2001/XMLSchema'
NS_WSDL = 'http://schemas.xmlsoap.org/wsdl/'


class Credentials(ComplexModel):
    __namespace__ = 'urn:demo:headers'
    user = Unicode
    token = Unicode


class Trace(ComplexModel):
    __namespace__ = 'urn:demo:headers'
    hop = Integer


class Payload(ComplexModel):
    __namespace__ = 'urn:demo:types'
    text = Unicode


class HeaderService(Service):
    @rpc(Payload, _returns=Payload, _in_header=(Credentials, Trace),
                                                            _out_header=Trace)
    def relay(ctx, p):
        return p

    @rpc(Unicode, _returns=Unicode)
    def plain(ctx, s):
        return s


def build():
    app = Application([HeaderService], 'urn:demo:tns', name='HeaderApp',
                                  in_protocol=Soap11(), out_protocol=Soap11())
    app.transport = 'http://schemas.xmlsoap.org/soap/http'
    doc = app.interface.docs.wsdl11
    doc.build_interface_document('http://localhost:9999/app/?wsdl')
    return doc.get_interface_document()


def main():
    wsdl = build()
    root = etree.fromstring(wsdl)  # well-formed?

    # global element declarations, keyed by (namespace, name)
    elements = set()
    for schema in root.iter('{%s}schema' % NS_XS):
        for elt in schema.findall('{%s}element' % NS_XS):
            elements.add((schema.get('targetNamespace'), elt.get('name')))

    errors = []
    nparts = 0
    for msg in root.findall('{%s}message' % NS_WSDL):
        for part in msg.findall('{%s}part' % NS_WSDL):
            nparts += 1
            qname = part.get('element')
            prefix, _, local = qname.rpartition(':')
            ns = part.nsmap.get(prefix or None)
            if ns is None:
                errors.append("message %r: part element=%r uses prefix %r "
                              "which is not declared in scope"
                                            % (msg.get('name'), qname, prefix))
            elif (ns, local) not in elements:
                errors.append("message %r: part element=%r has no xs:element"
                                                  % (msg.get('name'), qname))

    assert nparts >= 7, nparts
    for e in errors:
        print("VIOLATION:", e)

    if errors:
        return 1

    print("OK: all %d message parts resolve" % nparts)
    return 0


if __name__ == '__main__':
    sys.exit(main())
