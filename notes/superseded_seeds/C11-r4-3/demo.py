"""Two methods that would answer to the same public name must be rejected when
the application is constructed -- wherever they are defined and whatever their
signatures look like.
"""

import logging
logging.disable(logging.CRITICAL)

import sys

import spyne
assert spyne.__file__.startswith('/tmp/wt4/C11/'), spyne.__file__

from spyne import Application, Service, rpc, Unicode, Integer
from spyne.protocol.json import JsonDocument
from spyne.server.null import NullServer

calls = []


def scenario_same_service_no_args():
    class Sessions(Service):
        @rpc(_returns=Unicode)
        def open_session(ctx):
            calls.append('open_session')
            return 'open_session'

        # custom in-message name that shadows the sibling above
        @rpc(_returns=Unicode, _in_message_name='open_session')
        def reopen_session(ctx):
            calls.append('reopen_session')
            return 'reopen_session'

    return [Sessions], 'open_session', ()


def scenario_same_service_same_args():
    class Sessions(Service):
        @rpc(Unicode, _returns=Unicode, _in_message_name='touch')
        def touch_session(ctx, key):
            calls.append('touch_session')
            return 'touch_session'

        @rpc(Unicode, _returns=Unicode, _in_message_name='touch')
        def touch_user(ctx, key):
            calls.append('touch_user')
            return 'touch_user'

    return [Sessions], 'touch', ('k',)


def scenario_same_service_other_args():
    class Sessions(Service):
        @rpc(Unicode, _returns=Unicode, _in_message_name='drop')
        def drop_session(ctx, key):
            calls.append('drop_session')
            return 'drop_session'

        @rpc(Integer, _returns=Unicode, _in_message_name='drop')
        def drop_user(ctx, uid):
            calls.append('drop_user')
            return 'drop_user'

    return [Sessions], 'drop', (1,)


def scenario_two_services():
    class Sessions(Service):
        @rpc(_returns=Unicode)
        def ping(ctx):
            calls.append('Sessions.ping')
            return 'Sessions.ping'

    class Users(Service):
        @rpc(_returns=Unicode)
        def ping(ctx):
            calls.append('Users.ping')
            return 'Users.ping'

    return [Sessions, Users], 'ping', ()


failures = []

for scenario in (scenario_same_service_no_args, scenario_same_service_same_args,
                      scenario_same_service_other_args, scenario_two_services):
    services, name, args = scenario()

    for svcs in (services, services[::-1]):
        try:
            app = Application(svcs, 'urn:sessions',
                      in_protocol=JsonDocument(), out_protocol=JsonDocument())

        except Exception as e:
            continue  # rejected, as it should be

        # the application was accepted: see who answers
        del calls[:]
        NullServer(app).service[name](*args)
        registered = sorted(
            d.function.__name__ for s in svcs for d in s.public_methods.values()
                                                            if d.name == name)
        failures.append((scenario.__name__, [s.__name__ for s in svcs],
                "methods %r all answer to %r; accepted; a request ran %r" %
                                                (registered, name, list(calls))))

for f in failures:
    print("FAIL", f)

if failures:
    sys.exit(1)

print("OK")
