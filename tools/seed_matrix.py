#!/venv/bin/python
"""For every seeded change: apply it in a scratch worktree, run every claimed
quick check against that tree (SPYNE_REPO), record which properties fire.
usage: seed_matrix.py <seed root> [--store] [--tag r2]   (seed root has <ID>/<n>/patch.diff)
"""
import json, os, subprocess, sys, glob, shutil
from concurrent.futures import ThreadPoolExecutor
import threading
GIT_LOCK = threading.Lock()
VERIF = os.path.dirname(os.path.dirname(os.path.abspath(__file__)))
root = sys.argv[1]
store = '--store' in sys.argv
tag = sys.argv[sys.argv.index('--tag') + 1] + '-' if '--tag' in sys.argv else ''
ids = [c['property_id'] for c in json.load(open(VERIF + '/MANIFEST.json'))['checks']]
head = subprocess.check_output(['git', '-C', '/repo', 'rev-parse', 'HEAD']).decode().strip()
seeds = sorted(glob.glob(root + '/C*/[0-9]*/patch.diff'))

def run(seed):
    d = os.path.dirname(seed)
    prop = os.path.basename(os.path.dirname(d)); n = os.path.basename(d)
    wt = '/tmp/sm/%s-%s' % (prop, n)
    shutil.rmtree(wt, ignore_errors=True)
    with GIT_LOCK:
        subprocess.run(['git', '-C', '/repo', 'worktree', 'prune'], capture_output=True)
        r = subprocess.run(['git', '-C', '/repo', 'worktree', 'add', '--detach', wt, head], capture_output=True)
    if r.returncode:
        return prop, n, None, r.stderr.decode()[-200:]
    try:
        r = subprocess.run(['git', '-C', wt, 'apply', seed], capture_output=True)
        if r.returncode:
            return prop, n, None, 'apply failed'
        fired = {}
        env = dict(os.environ, SPYNE_REPO=wt)
        p = subprocess.run(['/venv/bin/python', VERIF + '/sa/check.py', ','.join(ids), '--tier', 'quick', '--no-mutants', '--no-evidence'],
                           capture_output=True, env=env)
        block = []
        for l in p.stdout.decode().splitlines():
            if l.startswith('== C') and ' exit=' in l:
                i, rc = l[3:].split(' exit=')
                if rc == '1':
                    fired[i] = [x[8:].split(' at ')[0] for x in block if x.startswith('FINDING ')][:4]
                elif rc == '2':
                    fired[i + '(analysis-error)'] = [x for x in block if x.startswith('ANALYSIS-ERROR')][:2]
                block = []
            else:
                block.append(l)
        return prop, n, fired, ''
    finally:
        with GIT_LOCK:
            subprocess.run(['git', '-C', '/repo', 'worktree', 'remove', '--force', wt], capture_output=True)

with ThreadPoolExecutor(14) as ex:
    results = list(ex.map(run, seeds))
summary = {}
for prop, n, fired, err in results:
    own = fired is not None and prop in fired
    print('%s/%s: %s %s' % (prop, n, 'DETECTED by own check' if own else ('detected only by ' + ','.join(fired) if fired else 'MISSED ' + err),
                            sorted(fired) if fired else ''))
    summary['%s-%s' % (prop, n)] = fired
    if store and fired is not None:
        src = os.path.join(root, prop, n)
        dst = os.path.join(VERIF, 'seeded', '%s-%s%s' % (prop, tag, n))
        os.makedirs(dst, exist_ok=True)
        shutil.copy(src + '/patch.diff', dst + '/patch.diff')
        for f in os.listdir(src):
            if f.startswith('demo') or f.endswith('.py'):
                shutil.copy(os.path.join(src, f), os.path.join(dst, f))
        meta = {}
        try:
            meta = json.load(open(src + '/meta.json'))
        except Exception:
            pass
        meta['property'] = prop
        meta['applies_to_repo_commit'] = head
        meta['verified'] = ('demo exits 0 on the unchanged tree and non-zero with the patch; baseline suite: 696/696 '
                            'stable tests pass with the patch (tools/verify_seed.sh in a scratch worktree at that commit)')
        meta['detected_by'] = fired
        json.dump(meta, open(dst + '/meta.json', 'w'), indent=1, sort_keys=True)
json.dump(summary, open('/tmp/seed_matrix.json', 'w'), indent=1)
