#!/venv/bin/python
"""Regenerate sa/local_names.json (role -> name of every local variable) from
the tree the rules are written against.  usage: gen_local_names.py [--check]"""
import ast, json, os, sys, warnings
VERIF = os.path.dirname(os.path.dirname(os.path.abspath(__file__)))
sys.path.insert(0, VERIF)
from sa import alpha  # noqa: E402
warnings.simplefilter('ignore')
repo = os.environ.get('SPYNE_REPO', '/repo')
from sa import tablenorm  # noqa: E402
out = {}
trees = {}
for root, dirs, files in os.walk(os.path.join(repo, 'spyne')):
    dirs[:] = [d for d in dirs if d != 'test']
    for f in sorted(files):
        if not f.endswith('.py'):
            continue
        p = os.path.join(root, f)
        rel = os.path.relpath(p, repo)
        try:
            trees[rel] = ast.parse(open(p, encoding='utf-8').read())
        except SyntaxError:
            continue
sigs = tablenorm.signature_table(trees.values())
out['__signatures__'] = sigs
for rel, tree in sorted(trees.items()):
    if True:
        tablenorm.kw_to_positional(tree, sigs)
        t = {q: v for q, v in alpha.module_table(tree).items() if v}
        t['__consts__'] = sorted({x.id for st in tree.body
                                  if isinstance(st, (ast.Assign, ast.AugAssign,
                                                     ast.AnnAssign))
                                  for tg in (st.targets if isinstance(
                                      st, ast.Assign) else [st.target])
                                  for x in ast.walk(tg)
                                  if isinstance(x, ast.Name)})
        t['__functions__'] = sorted(q for q, _ in alpha.outer_functions(tree))
        t['__calls__'] = {
            q: sorted({(c.func.attr if isinstance(c.func, ast.Attribute)
                        else c.func.id) for c in ast.walk(fn)
                       if isinstance(c, ast.Call) and isinstance(
                           c.func, (ast.Attribute, ast.Name)) and
                       (c.func.attr if isinstance(c.func, ast.Attribute)
                        else c.func.id).startswith('_')})
            for q, fn in alpha.outer_functions(tree)}
        t['__params__'] = {q: alpha.param_list(fn)
                           for q, fn in alpha.outer_functions(tree)}
        out[rel] = t
txt = json.dumps(out, indent=0, sort_keys=True)
if '--check' in sys.argv:
    cur = open(alpha.TABLE_FILE).read() if os.path.exists(alpha.TABLE_FILE) else ''
    if cur.strip() != txt.strip():
        print('local_names.json is stale relative to %s' % repo)
        sys.exit(1)
    print('local_names.json matches %s' % repo)
else:
    open(alpha.TABLE_FILE, 'w').write(txt + '\n')
    print('%d modules, %d functions, %d locals' % (
        len(out) - 1, sum(len(v['__functions__']) for k_, v in out.items()
                          if k_ != '__signatures__'),
        sum(len(x) for k_, v in out.items() if k_ != '__signatures__'
            for k, x in v.items() if not k.startswith('__'))))
