#!/bin/bash
# usage: verify_seed.sh <seed dir> <worktree dir>
# In a scratch worktree at /repo HEAD: demo passes clean, fails patched, baseline passes patched.
d=$1; wt=$2
id=$(basename $(dirname $(dirname $d)))_$(basename $(dirname $d))_$(basename $d)
out=/tmp/seedverify/$id; rm -rf $out; mkdir -p $out
cd $wt || exit 2
git reset -q --hard; git clean -fdq
PYTHONPATH=$wt timeout 900 /venv/bin/python $d/demo.py > $out/demo_clean.log 2>&1; c0=$?
if ! git apply $d/patch.diff 2>$out/apply.log; then echo "$id APPLY-FAILED clean_demo=$c0"; exit 0; fi
PYTHONPATH=$wt timeout 900 /venv/bin/python $d/demo.py > $out/demo_patched.log 2>&1; c1=$?
/venv/bin/python -m pytest -q -p no:cacheprovider --timeout=900 --continue-on-collection-errors --junitxml=$out/junit.xml > $out/pytest.log 2>&1
miss=$(/venv/bin/python /verif/tools/baseline_cmp.py $out/junit.xml 2>/dev/null | sed -n 1p)
git diff > $out/rebased.diff
git reset -q --hard; git clean -fdq
echo "$id clean_demo=$c0 patched_demo=$c1 $miss"
