#!/venv/bin/python
"""Regenerate MANIFEST.json from the rule modules' metadata."""
import importlib, json, os, sys
HERE = os.path.dirname(os.path.dirname(os.path.abspath(__file__)))
sys.path.insert(0, HERE)
sys.dont_write_bytecode = True
PY = '/venv/bin/python'
NA = {
 'C03': 'HttpRpc flat key/value fidelity is index bookkeeping and percent-encoding over runtime strings and indices; the only structural facts in reach (writer notation matches reader regex) are not a telling necessary condition, so no sound static rule is claimed (DESIGN.md section 5)',
}
checks = []
na = []
for i in range(1, 19):
    pid = 'C%02d' % i
    try:
        mod = importlib.import_module('sa.rules.%s' % pid.lower())
    except ImportError:
        na.append({'property_id': pid, 'reason': NA.get(pid, 'no static rule built yet for this property (see DESIGN.md)')})
        continue
    if getattr(mod, 'NOT_APPLICABLE', None):
        na.append({'property_id': pid, 'reason': mod.NOT_APPLICABLE})
        continue
    checks.append({
        'property_id': pid,
        'quick_cmd': '%s /verif/sa/check.py %s --tier quick' % (PY, pid),
        'thorough_cmd': '%s /verif/sa/check.py %s --tier thorough' % (PY, pid),
        'evidence_file': '/verif/evidence/%s.json' % pid,
        'replay_cmd_template': '%s /verif/sa/check.py --replay {path}' % PY,
        'engine': 'sa',
        'level_claimed': {'category': 'other', 'text': mod.LEVEL_TEXT,
                          'design_ref': 'DESIGN.md section 4, ' + pid},
        'level_note': mod.LEVEL_NOTE,
        'technique': mod.TECHNIQUE,
    })
doc = {
 'version': 1,
 'setup_cmd': 'true',
 'hooks': {'guard': 'SPYNE_VERIF', 'enable': 'none needed: the checks parse /repo with ast and never import or run it',
           'baseline_off_cmd': 'cd /repo && /venv/bin/python -m pytest -q -p no:cacheprovider --timeout=900 --continue-on-collection-errors',
           'source_commits': [], 'add_only': True},
 'engines': [{'name': 'sa', 'path': '/verif/sa', 'serves_properties': [c['property_id'] for c in checks],
              'kind_free_text': 'repository-specific static analysis over the stdlib ast: symbol/hierarchy index, resolved call graph, syntax-directed path/event-sequence enumeration with exceptional edges, dominating-guard analysis, exception-escape analysis, constant folding, effect/freshness analysis; overlay mutants as positive controls and benign twins'}],
 'checks': checks,
 'not_applicable': na,
 'notes': 'Static analysis only: no check imports or executes spyne. Exit 0 ok / 1 VIOLATION / 2 ANALYSIS-ERROR. Known findings: /verif/KNOWN_FINDINGS.txt. fix: commits in /repo are listed there as fixed: lines.',
}
json.dump(doc, open(os.path.join(HERE, 'MANIFEST.json'), 'w'), indent=1)
print('checks', [c['property_id'] for c in checks], 'n/a', [n['property_id'] for n in na])
