#!/venv/bin/python
"""List mutants whose edit no longer applies to /repo (stale fragments)."""
import sys, os, importlib
VERIF = os.path.dirname(os.path.dirname(os.path.abspath(__file__)))
sys.path.insert(0, VERIF)
from sa.mutate import NotApplicable
bad = 0
for i in range(1, 19):
    try:
        m = importlib.import_module('sa.rules.c%02d' % i)
    except Exception as e:
        continue
    for mu in getattr(m, 'MUTANTS', []):
        p = os.path.join(os.environ.get('SPYNE_REPO', '/repo'), mu.path)
        try:
            src = open(p, encoding='utf-8').read()
            out = mu.edit(src)
            if out == src:
                print('C%02d %s: NO CHANGE' % (i, mu.name)); bad += 1
        except NotApplicable as e:
            print('C%02d %s: %s' % (i, mu.name, e)); bad += 1
        except Exception as e:
            print('C%02d %s: ERROR %r' % (i, mu.name, e)); bad += 1
print('%d stale mutants' % bad)
