import json,sys,xml.etree.ElementTree as ET
base=set(json.load(open('/root/.vp/BASELINE.json'))['stable_pass'])
t=ET.parse(sys.argv[1]); ok=set()
for tc in t.iter('testcase'):
    if not any(c.tag in('failure','error','skipped') for c in tc):
        ok.add(tc.get('classname')+'::'+tc.get('name'))
print('baseline',len(base),'passed now',len(ok),'missing',len(base-ok))
for x in sorted(base-ok)[:20]: print('  MISSING',x)
