#!/bin/bash
# usage: try_seed.sh <dir with patch.diff> [ids...]  -- apply to /repo, run quick checks, revert
d=$1; shift
ids="$@"
[ -z "$ids" ] && ids=$(python3 -c "import json;print(' '.join(c['property_id'] for c in json.load(open('/verif/MANIFEST.json'))['checks']))")
cd /repo || exit 2
git diff --quiet || { echo "REPO DIRTY"; exit 2; }
git apply $d/patch.diff || { echo "PATCH FAILED"; exit 2; }
for i in $ids; do
  out=$(/venv/bin/python /verif/sa/check.py $i --tier quick --no-mutants --no-evidence 2>&1); rc=$?
  if [ $rc -ne 0 ]; then echo "== $i exit=$rc"; echo "$out" | grep -E "^FINDING|^ANALYSIS-ERROR|Traceback|Error" | head -6; fi
done
git checkout -- . ; git status --short | head -3
