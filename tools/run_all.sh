#!/bin/bash
# run every claimed check (quick by default) on /repo as it is; print exit codes
tier=${1:-quick}
for i in $(python3 -c "import json;print(' '.join(c['property_id'] for c in json.load(open('/verif/MANIFEST.json'))['checks']))"); do
  /venv/bin/python /verif/sa/check.py $i --tier $tier > /tmp/runall.$i 2>&1; rc=$?
  echo "$i exit=$rc $(grep -c '^KNOWN-FINDING' /tmp/runall.$i) known $(grep '^SELFTEST-WARN' /tmp/runall.$i | wc -l) selftest-warn"
  [ $rc -ne 0 ] && grep -E "^FINDING|^ANALYSIS-ERROR|Error" /tmp/runall.$i | head -5
done
