#!/venv/bin/python
"""Behaviour-preserving edits must leave every check silent.  For every
<root>/<ID>/<n>/patch.diff: apply in a scratch worktree, run every claimed quick
check there (SPYNE_REPO); report any exit code other than 0.
usage: benign_matrix.py <root> [ID ...]"""
import json, os, subprocess, sys, glob, shutil
from concurrent.futures import ThreadPoolExecutor
import threading
GIT_LOCK = threading.Lock()
VERIF = os.path.dirname(os.path.dirname(os.path.abspath(__file__)))
root = sys.argv[1]
only = sys.argv[2:]
ids = [c['property_id'] for c in json.load(open(VERIF + '/MANIFEST.json'))['checks']]
head = subprocess.check_output(['git', '-C', '/repo', 'rev-parse', 'HEAD']).decode().strip()
seeds = sorted(glob.glob(root + '/C*/[0-9]*/patch.diff') +
               glob.glob(root + '/C*-[0-9]*/patch.diff'))
if only:
    seeds = [s for s in seeds if s.split('/')[-3] in only or
             s.split('/')[-2].split('-')[0] in only]

def run(seed):
    d = os.path.dirname(seed)
    prop = os.path.basename(os.path.dirname(d)); n = os.path.basename(d)
    if '-' in n and n.startswith('C'):
        prop, n = n.split('-', 1)
    wt = '/tmp/bm/%s-%s' % (prop, n)
    shutil.rmtree(wt, ignore_errors=True)
    with GIT_LOCK:
        subprocess.run(['git', '-C', '/repo', 'worktree', 'prune'], capture_output=True)
        r = subprocess.run(['git', '-C', '/repo', 'worktree', 'add', '--detach', wt, head], capture_output=True)
    if r.returncode:
        return prop, n, None, r.stderr.decode()[-200:]
    try:
        r = subprocess.run(['git', '-C', wt, 'apply', seed], capture_output=True)
        if r.returncode:
            return prop, n, None, 'apply failed'
        bad = {}
        env = dict(os.environ, SPYNE_REPO=wt)
        p = subprocess.run(['/venv/bin/python', VERIF + '/sa/check.py', ','.join(ids), '--tier', 'quick', '--no-mutants', '--no-evidence'],
                           capture_output=True, env=env)
        block = []
        seen_ids = 0
        for l in p.stdout.decode().splitlines():
            if l.startswith('== C') and ' exit=' in l:
                i, rc = l[3:].split(' exit=')
                seen_ids += 1
                if rc != '0':
                    bad['%s rc=%s' % (i, rc)] = [x[:230] for x in block if x.startswith(('FINDING', 'ANALYSIS-ERROR'))][:4]
                block = []
            else:
                block.append(l)
        if seen_ids != len(ids):
            bad['driver'] = ['only %d of %d checks reported: %s' % (seen_ids, len(ids), p.stderr.decode()[-300:])]
        return prop, n, bad, ''
    finally:
        with GIT_LOCK:
            subprocess.run(['git', '-C', '/repo', 'worktree', 'remove', '--force', wt], capture_output=True)

with ThreadPoolExecutor(14) as ex:
    results = list(ex.map(run, seeds))
nbad = 0
for prop, n, bad, err in results:
    if bad is None:
        print('%s/%s: NOT RUN %s' % (prop, n, err))
    elif bad:
        nbad += 1
        print('%s/%s: FALSE ALARM' % (prop, n))
        for k, v in bad.items():
            print('   ', k)
            for l in v:
                print('       ', l)
    else:
        print('%s/%s: silent' % (prop, n))
print('%d edits, %d with a non-zero check' % (len(results), nbad))
