"""Overlay mutants: single edits of the real sources, computed on the parsed
tree (located by role: module path + function qualname + a predicate or a code
fragment inside that function), unparsed into an in-memory overlay.  Nothing is
written to /repo.

kind 'fire'   - breaks a rule's clause; the rule must report a finding that the
                unmutated tree does not have (positive control).
kind 'benign' - behaviour-preserving refactoring; the findings must not change.
"""
import ast
import os
import re

from .core import REPO


class NotApplicable(Exception):
    pass


class Mutant(object):
    def __init__(self, name, rule, kind, path, edit, expect='', note='',
                 also=()):
        self.name = name
        self.rule = rule
        self.kind = kind
        self.path = path
        self.edit = edit          # f(source) -> new source
        self.expect = expect or ''  # substring of the expected finding ident
        self.note = note
        self.also = list(also)    # [(path, edit)]: cooperating sites

    def overlay(self, repo=None):
        out = {}
        for path, edit in [(self.path, self.edit)] + self.also:
            full = os.path.join(repo or REPO, path)
            if not os.path.exists(full):
                raise NotApplicable('no such file ' + path)
            with open(full, 'rb') as f:
                src = f.read().decode('utf-8', 'replace')
            new = edit(src)
            if new is None or new == src:
                raise NotApplicable('edit did not apply')
            try:
                ast.parse(new)
            except SyntaxError as e:
                raise NotApplicable('mutant does not parse: %s' % e)
            out[path] = new
        return out


def _find_def(tree, qualname):
    """FunctionDef/ClassDef by dotted path through classes and functions."""
    cur = tree
    for part in qualname.split('.'):
        nxt = None
        todo = list(cur.body)
        while todo:
            n = todo.pop(0)
            if isinstance(n, (ast.FunctionDef, ast.AsyncFunctionDef,
                              ast.ClassDef)):
                if n.name == part:
                    nxt = n
                    # keep looking: later definitions win
                continue
            for fld in ('body', 'orelse', 'finalbody'):
                sub = getattr(n, fld, None)
                if isinstance(sub, list):
                    todo.extend(sub)
            for h in getattr(n, 'handlers', []) or []:
                todo.extend(h.body)
        if nxt is None:
            return None
        cur = nxt
    return cur


def _segment(src, node):
    lines = src.split('\n')
    start = node.lineno - 1
    if getattr(node, 'decorator_list', None):
        start = min(d.lineno for d in node.decorator_list) - 1
    end = node.end_lineno
    return start, end, lines


def in_func(qualname, old, new, count=1, regex=False):
    """Textual edit restricted to the source segment of one function/class
    (located through the AST).  ``old`` must occur there."""
    def edit(src):
        tree = ast.parse(src)
        node = _find_def(tree, qualname) if qualname else None
        if qualname and node is None:
            raise NotApplicable('no def ' + qualname)
        if node is None:
            seg, pre, post = src, '', ''
        else:
            start, end, lines = _segment(src, node)
            pre = '\n'.join(lines[:start])
            seg = '\n'.join(lines[start:end])
            post = '\n'.join(lines[end:])
            if pre:
                pre += '\n'
            if post:
                post = '\n' + post
        if regex:
            seg2, n = re.subn(old, new, seg, count=count, flags=re.S)
            if n == 0:
                raise NotApplicable('pattern not found in ' + str(qualname))
        else:
            if old not in seg:
                raise NotApplicable('fragment not found in ' + str(qualname))
            seg2 = seg.replace(old, new, count)
        return pre + seg2 + post
    return edit


def ast_edit(qualname, transform):
    """AST edit: ``transform(funcnode, tree)`` mutates in place and returns
    True when applied; the whole module is unparsed afterwards."""
    def edit(src):
        tree = ast.parse(src)
        node = _find_def(tree, qualname) if qualname else tree
        if node is None:
            raise NotApplicable('no def ' + str(qualname))
        if not transform(node, tree):
            raise NotApplicable('transform did not apply in ' + str(qualname))
        ast.fix_missing_locations(tree)
        return ast.unparse(tree)
    return edit


def chain(*edits):
    def edit(src):
        for e in edits:
            src = e(src)
        return src
    return edit


# ---- common AST transforms -------------------------------------------------

def delete_stmts(pred, limit=1):
    """Delete statements satisfying pred (replaced by ``pass`` when the block
    would become empty)."""
    def transform(fnode, tree):
        n = [0]

        def visit(owner):
            for fld in ('body', 'orelse', 'finalbody'):
                lst = getattr(owner, fld, None)
                if not isinstance(lst, list):
                    continue
                i = 0
                while i < len(lst):
                    s = lst[i]
                    if isinstance(s, ast.stmt) and n[0] < limit and pred(s):
                        n[0] += 1
                        del lst[i]
                        if not lst and fld == 'body':
                            lst.append(ast.Pass())
                        continue
                    if isinstance(s, ast.AST):
                        visit(s)
                    i += 1
            for h in getattr(owner, 'handlers', []) or []:
                visit(h)
        visit(fnode)
        return n[0] > 0
    return transform


def replace_nodes(pred, make, limit=1):
    """Replace expression nodes satisfying pred with make(node)."""
    def transform(fnode, tree):
        n = [0]

        class T(ast.NodeTransformer):
            def generic_visit(self, node):
                node = ast.NodeTransformer.generic_visit(self, node)
                return node

            def visit(self, node):
                if n[0] < limit and pred(node):
                    n[0] += 1
                    return make(node)
                return self.generic_visit(node)
        T().visit(fnode)
        return n[0] > 0
    return transform


def is_call_named(node, name):
    if isinstance(node, ast.Expr):
        node = node.value
    if not isinstance(node, ast.Call):
        return False
    f = node.func
    return (isinstance(f, ast.Name) and f.id == name) or \
        (isinstance(f, ast.Attribute) and f.attr == name)
