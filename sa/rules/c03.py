"""C03 - HttpRpc flat key/value fidelity: not applicable to this technique."""
NOT_APPLICABLE = ('HttpRpc flat key/value fidelity is index bookkeeping '
                  '(sparse-to-contiguous mapping, nested arrays, pair '
                  'ordering) and percent-encoding over runtime strings and '
                  'indices; the structural facts in reach (the writer\'s '
                  'name[%d] notation matches the reader\'s regex; repeated '
                  'keys are appended) stay true under almost every way of '
                  'breaking the property, so no sound and telling static rule '
                  'is claimed (DESIGN.md section 5)')
