"""C13 - WSGI response protocol and request-size limit."""
import ast

from ..core import (AnalysisError, dotted, unparse, calls_in, call_name,
                    walk_no_defs, parent, ancestors, ClassInfo, FuncInfo)
from ..flow import SeqFlow, RETURN, RAISE, guards_at, flatten_guards, \
    PathExplosion, enclosing_trys, handler_names
from ..constfold import try_fold
from ..mutate import Mutant, in_func
from .. import guardspec

ID = 'C13'
EXPLANATION = (
    'R1: path enumeration (all normal and exceptional paths, callee summary '
    'for the tail-called error handler) over WsgiApplication.__call__ -> '
    'handle_wsdl_request | handle_rpc -> handle_error: start_response occurs '
    'exactly once on every returning path and at most once on every raising '
    'path. R2: the Content-Length value is str(len/sum-of-len) of the very '
    'object handed back as the body, not rebound in between; chunked mode '
    'drops a stale header. R3: body chunks built in the transport are bytes '
    'and header values are str (constant propagation). R4: every read of '
    'wsgi.input is size-bounded by min(block, length - bytes_read), counted, '
    'and dominated by the length > max_content_length -> RequestTooLongError '
    'test. R5: the context finaliser is deferred (passed as a callable to an '
    'iterator that runs it once on exhaustion or close()), never evaluated '
    'before the body is returned. Not decided: behaviour under a real server, '
    'streaming back-pressure, werkzeug form parsing.')
ASSUMPTIONS = ['the WSGI server iterates the returned object and calls its '
               'close() as PEP 3333 requires']
LEVEL_TEXT = (
    'Static path enumeration and dataflow over the WSGI transport: '
    'start_response exactly once per returning path (all try/except paths, '
    'callee summaries), Content-Length tied to the returned object, bytes '
    'chunks / str headers by constant propagation, the bounded-reader shape, '
    'and deferred run-once finalisation. Decides these clauses for every path '
    'of the anchored functions; does not execute a request.')
LEVEL_NOTE = ('Trusted: PEP 3333 server behaviour; calls are assumed able to '
              'raise anywhere; werkzeug parse_form_data (HttpRpc POST) reads '
              'the stream itself and is outside the analysis.')
TECHNIQUE = ('syntax-directed path enumeration with exceptional edges + '
             'dominating guards + constant propagation (ast)')

WSGI = 'spyne.server.wsgi:WsgiApplication'


def _m(prog, name):
    c = prog.cls(WSGI)
    if name.startswith('__') and not name.endswith('__'):
        f = c.methods.get(name)
    else:
        f = prog.find_method(c, name)
    if f is None:
        raise AnalysisError('WsgiApplication.' + name, 'not found')
    return f


# --------------------------------------------------------------------- R1
def sr_sequences(prog, f, sr_name, summaries):
    """Event sequences of start_response calls through f."""
    def classify(call):
        nm = call_name(call)
        if isinstance(call.func, ast.Name) and call.func.id == sr_name:
            return ('SR',), True
        d = dotted(call.func) or ''
        if d.startswith('self.') and nm in summaries:
            # does the call pass start_response on?
            passes = any(isinstance(a, ast.Name) and a.id == sr_name
                         for a in call.args) or any(
                isinstance(k.value, ast.Name) and k.value.id == sr_name
                for k in call.keywords)
            if passes:
                return ('CALL:' + nm,), True
        if d.startswith('logger.') or d.startswith('logging.'):
            return (), False
        if nm in ('isinstance', 'len', 'str', 'iter', 'isgenerator',
                  '_gen_http_headers'):
            return (), False
        # passing start_response to an unknown callee
        for a in list(call.args) + [k.value for k in call.keywords]:
            if isinstance(a, ast.Name) and a.id == sr_name:
                return ('ESCAPE:' + (nm or '?'),), True
        return (), True
    sf = SeqFlow(classify)
    return sf.run(f.node), sf.nodes


def expand(seqs_by_exit, summaries):
    """Inline callee summaries ('CALL:x' events) -> set of (exit, count,
    escaped).  A callee that returned lets the caller continue; a callee that
    raised can only be the last event of a raising path of the caller."""
    out = set()
    for kind, seqs in seqs_by_exit.items():
        k = 'return' if kind == RETURN else 'raise'
        for q in seqs:
            alts = {(0, False)}
            for i, ev in enumerate(q):
                last = (i == len(q) - 1)
                nxt = set()
                if ev == 'SR':
                    nxt = {(n + 1, esc) for n, esc in alts}
                elif ev.startswith('CALL:'):
                    s = summaries[ev[5:]]
                    for n, esc in alts:
                        for (kk, cnt, e2) in s:
                            if kk == 'return' or (last and k == 'raise'):
                                nxt.add((n + cnt, esc or e2))
                elif ev.startswith('ESCAPE:'):
                    nxt = {(n, True) for n, esc in alts}
                else:
                    nxt = alts
                alts = nxt
            for n, esc in alts:
                out.add((k, n, esc))
    return out


def rule_r1(prog, res):
    res.rule('R1', 'start_response exactly once on every returning path '
             '(at most once on raising paths)')
    order = ['handle_error', 'handle_wsdl_request', 'handle_rpc', '__call__']
    summaries = {}
    total_paths = 0
    for name in order:
        f = _m(prog, name)
        params = f.params()
        sr = 'start_response'
        if sr not in params:
            raise AnalysisError('WsgiApplication.%s' % name,
                                'no start_response parameter')
        try:
            seqs, nodes = sr_sequences(prog, f, sr, summaries)
        except PathExplosion as e:
            raise AnalysisError('C13-R1 ' + name, 'path explosion %s' % e)
        res.count('dataflow_nodes', nodes)
        summ = expand(seqs, summaries)
        summaries[name] = summ
        npaths = sum(len(v) for v in seqs.values())
        total_paths += npaths
        bad_ret = sorted({n for (k, n, esc) in summ if k == 'return' and
                          n != 1})
        bad_raise = sorted({n for (k, n, esc) in summ if k == 'raise' and
                            n > 1})
        escapes = any(esc for (k, n, esc) in summ)
        inst = '%s: %d distinct event sequences; start_response counts on ' \
            'return=%s on raise=%s' % (
                name, npaths,
                sorted({n for (k, n, e) in summ if k == 'return'}),
                sorted({n for (k, n, e) in summ if k == 'raise'}))
        if escapes:
            res.unclass('R1', f.where, 'start_response passed to an '
                        'unresolved callee in ' + name)
        if bad_ret:
            res.ob('R1', f.where, inst, 'VIOLATED')
            res.finding('R1', 'WsgiApplication.%s|return|%s' % (name, bad_ret),
                        f.where, 'a returning path of %s calls start_response '
                        '%s times (must be exactly once)' % (name, bad_ret))
        elif bad_raise:
            res.ob('R1', f.where, inst, 'VIOLATED')
            res.finding('R1', 'WsgiApplication.%s|raise|%s' % (name,
                                                               bad_raise),
                        f.where, 'a raising path of %s calls start_response '
                        '%s times' % (name, bad_raise))
        else:
            res.ob('R1', f.where, inst, 'ok')
    res.count('cfg_paths', total_paths)
    # __call__ must return what the handlers return
    f = _m(prog, '__call__')
    for n in walk_no_defs(f.node):
        if isinstance(n, ast.Return):
            v = n.value
            ok = isinstance(v, ast.Call) and (dotted(v.func) or '').startswith(
                'self.handle_')
            res.ob('R1', '%s:%d' % (f.module.relpath, n.lineno),
                   '__call__ returns ' + unparse(v)[:60],
                   'ok' if ok else 'unclassified')
            if not ok:
                res.unclass('R1', f.where, 'return ' + unparse(v)[:60])


# --------------------------------------------------------------------- R2
def _is_len_of(expr, target_text):
    """('len', X) for str(len(X)); ('sum', X) for str(sum(len(s) for s in X))
    / str(sum([len(a) for a in X])); else None."""
    if not (isinstance(expr, ast.Call) and call_name(expr) == 'str' and
            len(expr.args) == 1):
        return None
    inner = expr.args[0]
    if isinstance(inner, ast.Call) and call_name(inner) == 'len' and \
            len(inner.args) == 1:
        return 'len', unparse(inner.args[0])
    if isinstance(inner, ast.Call) and call_name(inner) == 'sum' and \
            len(inner.args) == 1:
        g = inner.args[0]
        if isinstance(g, (ast.GeneratorExp, ast.ListComp)) and \
                len(g.generators) == 1 and not g.generators[0].ifs:
            gen = g.generators[0]
            elt = g.elt
            if isinstance(elt, ast.Call) and call_name(elt) == 'len' and \
                    len(elt.args) == 1 and isinstance(elt.args[0], ast.Name) \
                    and isinstance(gen.target, ast.Name) and \
                    elt.args[0].id == gen.target.id:
                return 'sum', unparse(gen.iter)
    return None


def _cl_stores(fnode):
    out = []
    for n in walk_no_defs(fnode):
        if isinstance(n, ast.Assign):
            for t in n.targets:
                if isinstance(t, ast.Subscript) and isinstance(
                        t.slice, ast.Constant) and isinstance(
                        t.slice.value, str) and \
                        t.slice.value.lower() == 'content-length':
                    out.append(n)
    return out


def _returned_body_exprs(fnode):
    """[(Return node, text of the object that becomes the body)]"""
    out = []
    assigns = {}
    for n in walk_no_defs(fnode):
        if isinstance(n, ast.Assign) and len(n.targets) == 1 and \
                isinstance(n.targets[0], ast.Name):
            assigns.setdefault(n.targets[0].id, []).append(n)
    for n in walk_no_defs(fnode):
        if not isinstance(n, ast.Return) or n.value is None:
            continue
        v = n.value
        hops = 0
        while isinstance(v, ast.Name) and v.id in assigns and hops < 3:
            prev = [a for a in assigns[v.id] if a.lineno < n.lineno]
            if not prev:
                break
            v = prev[-1].value
            hops += 1
        out.append((n, v))
    return out


def _body_object(v, assigns_lookup):
    """The expression whose chunks are sent: first argument of the wrapping
    iterator, the list literal itself, ..."""
    if isinstance(v, ast.Call) and v.args and call_name(v) in (
            '_ClosingIterator', 'chain', 'iter', 'list', 'tuple'):
        return v.args[0]
    return v


def rule_r2(prog, res):
    res.rule('R2', 'Content-Length is computed from the object returned as '
             'the body')
    n = 0
    for name in ('handle_error', 'handle_rpc', 'handle_wsdl_request'):
        f = _m(prog, name)
        stores = _cl_stores(f.node)
        rets = _returned_body_exprs(f.node)
        for st in stores:
            n += 1
            where = '%s:%d' % (f.module.relpath, st.lineno)
            lf = _is_len_of(st.value, None)
            if lf is None:
                res.ob('R2', where, '%s: Content-Length = %s' % (
                    name, unparse(st.value)[:60]), 'VIOLATED')
                res.finding('R2', 'WsgiApplication.%s|value|%s' % (
                    name, unparse(st.value)), where,
                    'Content-Length is not str(len(...)) / str(sum(len ...)) '
                    'of the body: ' + unparse(st.value)[:80])
                continue
            form, src = lf
            # the returns that follow this store
            later = [(r, v) for r, v in rets if r.lineno > st.lineno]
            if not later:
                res.unclass('R2', where, 'no return after Content-Length '
                            'store in ' + name)
                continue
            ok_any = False
            for r, v in later:
                body = _body_object(v, None)
                btxt = unparse(body)
                # [retval] where retval = X  -> element X
                elems = None
                if isinstance(body, ast.List) and len(body.elts) == 1:
                    e = body.elts[0]
                    elems = unparse(e)
                    if isinstance(e, ast.Name):
                        for a in walk_no_defs(f.node):
                            if isinstance(a, ast.Assign) and len(
                                    a.targets) == 1 and isinstance(
                                    a.targets[0], ast.Name) and \
                                    a.targets[0].id == e.id and \
                                    a.lineno < r.lineno:
                                elems = unparse(a.value)
                if (src == btxt and form == 'sum') or (
                        elems is not None and src == elems and form == 'len'):
                    ok_any = True
                    # rebinding between store and return?
                    rebound = []
                    for a in walk_no_defs(f.node):
                        if isinstance(a, (ast.Assign, ast.AugAssign)) and \
                                st.lineno < a.lineno < r.lineno:
                            tgts = a.targets if isinstance(a, ast.Assign) \
                                else [a.target]
                            flat = []
                            for t in tgts:
                                flat.extend(t.elts if isinstance(
                                    t, ast.Tuple) else [t])
                            for t in flat:
                                if unparse(t) == src:
                                    rebound.append(a)
                    if rebound:
                        res.ob('R2', where, '%s: %s rebound after '
                               'Content-Length' % (name, src), 'VIOLATED')
                        res.finding(
                            'R2', 'WsgiApplication.%s|rebound|%s' % (name,
                                                                     src),
                            '%s:%d' % (f.module.relpath, rebound[0].lineno),
                            '%s is reassigned after Content-Length was '
                            'computed from it and before it is returned' % src)
                    else:
                        res.ob('R2', where, '%s: Content-Length from %s == '
                               'returned body' % (name, src), 'ok')
                    break
            if not ok_any:
                res.ob('R2', where, '%s: Content-Length from %s' % (name, src),
                       'VIOLATED')
                res.finding('R2', 'WsgiApplication.%s|mismatch|%s' % (name,
                                                                      src),
                            where, 'Content-Length is %s over %s but '
                            'the body returned is %s (need the byte count of '
                            'exactly that object)' % (form, src, ', '.join(sorted(
                                {unparse(_body_object(v, None))[:50]
                                 for r, v in later}))))
    res.floor('R2', 'Content-Length stores', n, 3)
    # chunked mode drops a stale header
    f = _m(prog, 'handle_rpc')
    found = False
    for node in walk_no_defs(f.node):
        drop = False
        if isinstance(node, ast.Delete):
            for t in node.targets:
                if isinstance(t, ast.Subscript) and isinstance(
                        t.slice, ast.Constant) and \
                        t.slice.value == 'Content-Length':
                    drop = True
        if isinstance(node, ast.Call) and call_name(node) == 'pop' and \
                node.args and isinstance(node.args[0], ast.Constant) and \
                node.args[0].value == 'Content-Length':
            drop = True
        if drop:
            g = flatten_guards(guards_at(node, stop=f.node))
            if any(unparse(e) == 'self.chunked' and pol for e, pol in g):
                found = True
    where = f.where
    if found:
        res.ob('R2', where, 'handle_rpc: chunked mode deletes a stale '
               'Content-Length', 'ok')
    else:
        res.ob('R2', where, 'handle_rpc: chunked mode keeps a stale '
               'Content-Length', 'VIOLATED')
        res.finding('R2', 'WsgiApplication.handle_rpc|stale-content-length',
                    where, 'in chunked mode a Content-Length set earlier is '
                    'not removed although the body is an iterable of unknown '
                    'length')


# --------------------------------------------------------------------- R3
def _kind(prog, f, expr, depth=0):
    """'bytes' | 'str' | 'unknown' for an expression in function f."""
    if isinstance(expr, ast.Constant):
        if isinstance(expr.value, bytes):
            return 'bytes'
        if isinstance(expr.value, str):
            return 'str'
        return 'unknown'
    if isinstance(expr, ast.JoinedStr):
        return 'str'
    if isinstance(expr, ast.BinOp) and isinstance(expr.op, ast.Mod):
        return _kind(prog, f, expr.left, depth + 1)
    if isinstance(expr, ast.BinOp) and isinstance(expr.op, ast.Add):
        a = _kind(prog, f, expr.left, depth + 1)
        b = _kind(prog, f, expr.right, depth + 1)
        return a if a == b else (a if b == 'unknown' else b)
    if isinstance(expr, ast.Call):
        nm = call_name(expr)
        if nm in ('str', 'format', 'text_type', 'unicode', 'repr'):
            return 'str'
        if nm in ('bytes', 'encode', 'tostring', 'b64encode'):
            if nm == 'tostring':
                # lxml: bytes unless encoding='unicode' / str is requested
                for k_ in expr.keywords:
                    if k_.arg == 'encoding':
                        if isinstance(k_.value, ast.Constant) and \
                                k_.value.value == 'unicode' or (
                                isinstance(k_.value, ast.Name) and
                                k_.value.id in ('str', 'unicode')):
                            return 'str'
                        return 'bytes'
                return 'bytes'
            return 'bytes'
        # a function of the repository: the kind of what it returns
        if depth < 3:
            tgt = None
            try:
                tgt = prog.resolve_expr(f.module, expr.func)
            except Exception:
                tgt = None
            if isinstance(tgt, FuncInfo):
                ks = {_kind(prog, tgt, r.value, depth + 1)
                      for r in walk_no_defs(tgt.node)
                      if isinstance(r, ast.Return) and r.value is not None}
                if len(ks) == 1:
                    return ks.pop()
        if nm == 'decode':
            return 'str'
        if nm == 'join' and isinstance(expr.func, ast.Attribute):
            return _kind(prog, f, expr.func.value, depth + 1)
        return 'unknown'
    if isinstance(expr, (ast.Name, ast.Attribute)) and depth < 4:
        ok, v = try_fold(prog, f.module, expr)
        if ok:
            if isinstance(v, bytes):
                return 'bytes'
            if isinstance(v, str):
                return 'str'
        if isinstance(expr, ast.Name):
            vals = []
            for a in walk_no_defs(f.node):
                if isinstance(a, ast.Assign) and len(a.targets) == 1 and \
                        isinstance(a.targets[0], ast.Name) and \
                        a.targets[0].id == expr.id:
                    vals.append(_kind(prog, f, a.value, depth + 1))
            if vals and all(v == vals[0] for v in vals):
                return vals[0]
    return 'unknown'


def rule_r3(prog, res, tier):
    res.rule('R3', 'body chunks are bytes, header values are str')
    n_chunks = 0
    n_joins = 0
    for name in ('handle_error', 'handle_rpc', 'handle_wsdl_request'):
        f = _m(prog, name)
        for node in walk_no_defs(f.node):
            rv = _body_object(node.value, None) if isinstance(
                node, ast.Return) and node.value is not None else None
            if isinstance(node, ast.Return) and isinstance(
                    rv, (ast.List, ast.Tuple)):
                for e in rv.elts:
                    n_chunks += 1
                    k = _kind(prog, f, e)
                    where = '%s:%d' % (f.module.relpath, node.lineno)
                    inst = '%s returns chunk %s : %s' % (name, unparse(e)[:40],
                                                         k)
                    if k == 'str':
                        res.ob('R3', where, inst, 'VIOLATED')
                        res.finding('R3', 'WsgiApplication.%s|chunk|%s' % (
                            name, unparse(e)), where, 'a text (str) chunk is '
                            'returned as response body: ' + unparse(e)[:60])
                    elif k == 'bytes':
                        res.ob('R3', where, inst, 'ok')
                    else:
                        res.ob('R3', where, inst, 'unclassified',
                               nontrivial=False)
            # joiner for out_string
            if isinstance(node, ast.Call) and call_name(node) == 'join' and \
                    isinstance(node.func, ast.Attribute) and node.args and \
                    'out_string' in unparse(node.args[0]):
                n_joins += 1
                k = _kind(prog, f, node.func.value)
                where = '%s:%d' % (f.module.relpath, node.lineno)
                inst = '%s joins out_string with %s : %s' % (
                    name, unparse(node.func.value), k)
                if k == 'str':
                    res.ob('R3', where, inst, 'VIOLATED')
                    res.finding('R3', 'WsgiApplication.%s|join|%s' % (
                        name, unparse(node.func.value)), where,
                        'the bytes chunks of out_string are joined with a '
                        'text separator (TypeError / str body)')
                else:
                    res.ob('R3', where, inst, 'ok' if k == 'bytes' else
                           'unclassified')
    # chunks stored into ctx.out_string by the HTTP helpers
    hm = prog.module('spyne.server.http')
    for f in hm.functions.values():
        for node in walk_no_defs(f.node):
            if isinstance(node, ast.Assign) and any(
                    isinstance(t, ast.Attribute) and t.attr == 'out_string'
                    for t in node.targets) and isinstance(
                    node.value, (ast.List, ast.Tuple)):
                for e in node.value.elts:
                    n_chunks += 1
                    k = _kind(prog, f, e)
                    where = '%s:%d' % (hm.relpath, node.lineno)
                    inst = '%s stores chunk %s : %s' % (f.qualname,
                                                        unparse(e)[:40], k)
                    if k == 'str':
                        res.ob('R3', where, inst, 'VIOLATED')
                        res.finding('R3', '%s|chunk|%s' % (
                            f.qualname, unparse(e)[:40]), where,
                            '%s puts a text (str) chunk into ctx.out_string '
                            '(%s): the WSGI body must be bytes, and '
                            'Content-Length would count characters' % (
                                f.qualname, unparse(e)[:50]))
                    else:
                        res.ob('R3', where, inst, 'ok' if k == 'bytes' else
                               'unclassified', nontrivial=(k == 'bytes'))
    res.floor('R3', 'literal chunks', n_chunks, 1)
    res.floor('R3', 'out_string joins', n_joins, 1)
    # header values
    mods = ['spyne.server.wsgi', 'spyne.server.http']
    if tier == 'thorough':
        mods += ['spyne.protocol.http', 'spyne.server._base']
    n_hdr = 0
    for mn in mods:
        m = prog.module(mn)
        for f in m.functions.values():
            for node in walk_no_defs(f.node):
                if not isinstance(node, ast.Assign):
                    continue
                for t in node.targets:
                    if isinstance(t, ast.Subscript) and \
                            unparse(t.value).endswith('resp_headers'):
                        n_hdr += 1
                        k = _kind(prog, f, node.value)
                        where = '%s:%d' % (m.relpath, node.lineno)
                        inst = '%s: header %s = %s : %s' % (
                            f.qualname, unparse(t.slice)[:30],
                            unparse(node.value)[:40], k)
                        if k == 'bytes':
                            res.ob('R3', where, inst, 'VIOLATED')
                            res.finding('R3', '%s|header|%s' % (
                                f.qualname, unparse(t.slice)), where,
                                'a bytes value is stored as response header')
                        else:
                            res.ob('R3', where, inst, 'ok' if k == 'str' else
                                   'unclassified', nontrivial=(k == 'str'))
    res.floor('R3', 'header stores', n_hdr, 3)
    # status constants are str starting with their number
    m = prog.module('spyne.const.http')
    n_status = 0
    for nm, v in sorted(m.consts.items()):
        if not nm.startswith('HTTP_'):
            continue
        ok, val = try_fold(prog, m, v)
        n_status += 1
        if ok and isinstance(val, str) and val.startswith(nm[5:] + ' '):
            res.ob('R3', m.relpath, '%s = %r' % (nm, val), 'ok',
                   nontrivial=False)
        elif ok:
            res.ob('R3', m.relpath, '%s = %r' % (nm, val), 'VIOLATED')
            res.finding('R3', 'const|%s' % nm, m.relpath,
                        'status constant %s does not start with its code: %r'
                        % (nm, val))
    res.floor('R3', 'HTTP status constants', n_status, 20)


# --------------------------------------------------------------------- R4
def _is_generator(f):
    return any(isinstance(x, (ast.Yield, ast.YieldFrom))
               for x in walk_no_defs(f.node))


def rule_r4(prog, res):
    res.rule('R4', 'wsgi.input reads are bounded, counted and guarded by the '
             'max_content_length test, which raises inside the fault funnel')
    c = prog.cls(WSGI)
    m = c.module
    readers = []
    for f in m.functions.values():
        for node in walk_no_defs(f.node):
            if isinstance(node, ast.Constant) and node.value == 'wsgi.input':
                readers.append(f)
    readers = list(dict.fromkeys(readers))
    res.floor('R4', 'functions touching wsgi.input', len(readers), 1)
    n_reads = 0
    # (function, stream variable names, {param: caller expr text}) work list:
    # the stream is followed into helpers of the same class it is passed to
    work = []
    for f in readers:
        svars = set()
        for node in walk_no_defs(f.node):
            if isinstance(node, ast.Assign) and any(
                    isinstance(x, ast.Constant) and x.value == 'wsgi.input'
                    for x in ast.walk(node.value)):
                for t in node.targets:
                    if isinstance(t, ast.Name):
                        svars.add(t.id)
        if not svars:
            res.unclass('R4', f.where, 'wsgi.input used without a local in '
                        + f.qualname)
            continue
        work.append((f, svars, None))
    done = set()
    guard_sites = []      # (function, node) where the limit test must hold
    while work:
        f, svars, via = work.pop(0)
        if f in done:
            continue
        done.add(f)
        locals_ = {}
        for node in walk_no_defs(f.node):
            if isinstance(node, ast.Assign) and len(node.targets) == 1 and \
                    isinstance(node.targets[0], ast.Name):
                locals_.setdefault(node.targets[0].id, []).append(node)
        for node in walk_no_defs(f.node):
            # any use of the stream other than .read(n) is an unbounded read
            if isinstance(node, ast.Name) and node.id in svars and \
                    isinstance(node.ctx, ast.Load):
                p = parent(node)
                pp = parent(p) if p is not None else None
                is_read = isinstance(p, ast.Attribute) and p.attr == 'read' \
                    and isinstance(pp, ast.Call) and pp.func is p
                where = '%s:%d' % (m.relpath, node.lineno)
                if not is_read:
                    if isinstance(p, ast.Compare):
                        continue
                    # passed on to a helper method of the same class: follow
                    if isinstance(p, ast.Call) and node in p.args and \
                            isinstance(p.func, ast.Attribute) and \
                            dotted(p.func.value) == 'self':
                        h = c.methods.get(p.func.attr) or \
                            prog.find_method(c, p.func.attr)
                        if h is not None:
                            hp = h.params()[1:]
                            i = p.args.index(node)
                            if i < len(hp):
                                work.append((h, {hp[i]}, (f, p)))
                                res.ob('R4', where, '%s passes the stream to '
                                       '%s' % (f.qualname, h.qualname), 'ok',
                                       nontrivial=False)
                                continue
                    res.ob('R4', where, '%s: stream used as %s' % (
                        f.qualname, unparse(pp if pp is not None else p)[:50]),
                        'VIOLATED')
                    res.finding('R4', '%s|stream-use|%s' % (
                        f.qualname, unparse(p)[:40]), where,
                        'wsgi.input is consumed other than through a sized '
                        'read(): ' + unparse(pp if pp is not None else p)[:60])
                    continue
                n_reads += 1
                call = pp
                inst = '%s: %s' % (f.qualname, unparse(call))
                if len(call.args) != 1 or call.keywords:
                    res.ob('R4', where, inst, 'VIOLATED')
                    res.finding('R4', '%s|unsized-read' % f.qualname, where,
                                'read() on wsgi.input without a size bound')
                    continue
                size = call.args[0]
                if isinstance(size, ast.Name) and size.id in locals_:
                    prev = [a for a in locals_[size.id]
                            if a.lineno <= call.lineno]
                    if prev:
                        size = prev[-1].value
                bounded = False
                lenvar = cntvar = None
                if isinstance(size, ast.Call) and call_name(size) == 'min':
                    for a in size.args:
                        if isinstance(a, ast.BinOp) and isinstance(
                                a.op, ast.Sub) and isinstance(
                                a.left, ast.Name) and isinstance(
                                a.right, ast.Name):
                            bounded = True
                            lenvar, cntvar = a.left.id, a.right.id
                if not bounded:
                    res.ob('R4', where, inst + ' size=' + unparse(size)[:40],
                           'VIOLATED')
                    res.finding('R4', '%s|size|%s' % (f.qualname,
                                                      unparse(size)), where,
                                'read size is not min(..., length - '
                                'bytes_read): ' + unparse(size)[:60])
                    continue
                # counter is advanced by len(data) in the same loop
                loop = None
                for a in ancestors(call):
                    if isinstance(a, (ast.While, ast.For)):
                        loop = a
                        break
                    if isinstance(a, (ast.FunctionDef,)):
                        break
                dvar = None
                st = parent(call)
                if isinstance(st, ast.Assign) and isinstance(
                        st.targets[0], ast.Name):
                    dvar = st.targets[0].id
                adv = False
                if loop is not None and dvar:
                    for a in ast.walk(loop):
                        if isinstance(a, ast.AugAssign) and isinstance(
                                a.op, ast.Add) and isinstance(
                                a.target, ast.Name) and \
                                a.target.id == cntvar and \
                                unparse(a.value) == 'len(%s)' % dvar:
                            adv = True
                if not adv:
                    res.ob('R4', where, inst + ' counter', 'VIOLATED')
                    res.finding('R4', '%s|counter|%s' % (f.qualname, cntvar),
                                where, 'the byte counter %s is not advanced '
                                'by len(%s) after the read, so the bound '
                                '%s - %s never shrinks' % (cntvar, dvar,
                                                           lenvar, cntvar))
                    continue
                # guard: length > self.max_content_length -> raise; when
                # the read lives in a helper the test must dominate the call
                # that hands the stream over (argument names mapped back)
                gf, gnode, glen = f, call, lenvar
                if via is not None:
                    gf, gnode = via
                    hp = f.params()[1:]
                    if lenvar in hp and hp.index(lenvar) < len(gnode.args):
                        glen = unparse(gnode.args[hp.index(lenvar)])
                g = flatten_guards(guards_at(gnode, stop=gf.node)) + (
                    flatten_guards(guards_at(call, stop=f.node))
                    if via is not None else [])
                lenvar_local = lenvar
                lenvar = glen
                verdict = None
                for e, pol in g:
                    if not isinstance(e, ast.Compare) or len(e.ops) != 1:
                        continue
                    l, r = unparse(e.left), unparse(e.comparators[0])
                    op = type(e.ops[0])
                    if l == lenvar and r.endswith('max_content_length'):
                        pass
                    elif r == lenvar and l.endswith('max_content_length'):
                        op = {ast.Lt: ast.Gt, ast.Gt: ast.Lt, ast.LtE: ast.GtE,
                              ast.GtE: ast.LtE}.get(op, op)
                    else:
                        continue
                    # we need: NOT (length > max) holds at the read
                    if (op is ast.Gt and not pol) or (op is ast.LtE and pol):
                        verdict = 'ok'
                    else:
                        verdict = 'wrong:%s %s' % (unparse(e), pol)
                if verdict == 'ok':
                    # the failing branch raises RequestTooLongError
                    raises = False
                    for a in walk_no_defs(gf.node):
                        if isinstance(a, ast.If) and isinstance(
                                a.test, ast.Compare) and lenvar in unparse(
                                a.test) and 'max_content_length' in unparse(
                                a.test):
                            for s in a.body:
                                if isinstance(s, ast.Raise) and \
                                        'RequestTooLongError' in unparse(s):
                                    raises = True
                                    guard_sites.append((gf, s))
                    if raises:
                        res.ob('R4', where, inst + ' bounded by min(.., %s-%s)'
                               ', counted, guarded by %s > max_content_length'
                               % (lenvar, cntvar, lenvar), 'ok')
                    else:
                        res.ob('R4', where, inst, 'VIOLATED')
                        res.finding('R4', '%s|guard-no-raise' % f.qualname,
                                    where, 'the over-length branch does not '
                                    'raise RequestTooLongError')
                elif verdict is None:
                    res.ob('R4', where, inst, 'VIOLATED')
                    res.finding('R4', '%s|guard-missing' % f.qualname, where,
                                'the read is not dominated by a %s > '
                                'max_content_length test that raises' % lenvar)
                else:
                    res.ob('R4', where, inst, 'VIOLATED')
                    res.finding('R4', '%s|guard-boundary' % f.qualname, where,
                                'the request-size test has the wrong '
                                'boundary (%s); must be %s > '
                                'max_content_length' % (verdict, lenvar))
    res.floor('R4', 'sized reads', n_reads, 1)
    # the refusal must be raised where it becomes a fault: lazily, inside the
    # generator that the input protocol consumes within generate_contexts'
    # try/except Fault (an eager raise in handle_rpc escapes the callable)
    for gf, rs in list(dict.fromkeys(guard_sites)):
        where = '%s:%d' % (gf.module.relpath, rs.lineno)
        if _is_generator(gf):
            res.ob('R4', where, '%s raises RequestTooLongError lazily (it is '
                   'the generator consumed as ctx.in_string)' % gf.qualname,
                   'ok')
            continue
        # eager: every caller chain up to handle_rpc must sit in a try that
        # catches Fault
        from ..flow import enclosing_trys, handler_names
        covered = True
        chain_txt = gf.qualname
        cur = gf
        hops = 0
        while cur is not None and hops < 4:
            hops += 1
            callers = []
            for h in c.methods.values():
                for cc in calls_in(h.node):
                    if isinstance(cc.func, ast.Attribute) and dotted(
                            cc.func.value) == 'self' and \
                            cc.func.attr == cur.name:
                        callers.append((h, cc))
            if not callers:
                break
            h, cc = callers[0]
            chain_txt += ' <- ' + h.qualname
            caught = False
            for t, region in enclosing_trys(cc, stop=h.node):
                if region == 'body' and any(
                        not handler_names(x) or set(handler_names(x)) & {
                            'Fault', 'Exception', 'RequestTooLongError'}
                        for x in t.handlers):
                    caught = True
            if caught:
                break
            if h.name in ('handle_rpc', '__call__'):
                covered = False
                break
            cur = h
        res.ob('R4', where, 'RequestTooLongError raised eagerly in %s' %
               chain_txt, 'ok' if covered else 'VIOLATED')
        if not covered:
            res.finding('R4', '%s|eager-refusal' % gf.qualname, where,
                        'RequestTooLongError is raised eagerly (%s) outside '
                        'any try/except Fault: it escapes the WSGI callable '
                        'instead of becoming the request-too-long fault '
                        '(start_response is never called)' % chain_txt)
    # the configured limits reach the reader unmodified
    n_cfg = 0
    for k in prog.subclasses(prog.cls('spyne.server.http:HttpBase')):
        for f in k.methods.values():
            for n in walk_no_defs(f.node):
                if not isinstance(n, ast.Assign):
                    continue
                for t in n.targets:
                    if isinstance(t, ast.Attribute) and t.attr in (
                            'max_content_length', 'block_length') and \
                            dotted(t.value) == 'self':
                        n_cfg += 1
                        where = '%s:%d' % (f.module.relpath, n.lineno)
                        v = n.value
                        inst = '%s: self.%s = %s' % (f.qualname, t.attr,
                                                     unparse(v)[:50])
                        if isinstance(v, ast.Name) and v.id == t.attr:
                            res.ob('R4', where, inst, 'ok')
                        elif isinstance(v, ast.Call) and call_name(v) == 'int' \
                                and len(v.args) == 1 and isinstance(
                                v.args[0], ast.Name) and \
                                v.args[0].id == t.attr:
                            res.ob('R4', where, inst, 'ok')
                        elif isinstance(v, (ast.BinOp, ast.IfExp)) or (
                                isinstance(v, ast.Call) and call_name(v) in (
                                    'max', 'min', 'abs', 'round')) or (
                                isinstance(v, ast.Name) and
                                v.id != t.attr) or isinstance(v,
                                                              ast.Constant):
                            res.ob('R4', where, inst, 'VIOLATED')
                            res.finding('R4', '%s|config|%s' % (f.qualname,
                                                                t.attr),
                                        where, 'the configured %s is altered '
                                        'before it is stored (%s); the '
                                        'request-size guard then enforces a '
                                        'different limit than the one the '
                                        'deployer set' % (t.attr,
                                                          unparse(v)[:60]))
                        else:
                            res.unclass('R4', where, inst)
    res.floor('R4', 'limit configuration stores', n_cfg, 2)
    # content-length parse: CONTENT_LENGTH default is the limit itself
    for f in readers:
        for call in calls_in(f.node):
            if call_name(call) == 'get' and call.args and isinstance(
                    call.args[0], ast.Constant) and \
                    call.args[0].value == 'CONTENT_LENGTH':
                if len(call.args) > 1:
                    d = unparse(call.args[1])
                    where = '%s:%d' % (m.relpath, call.lineno)
                    if d.endswith('max_content_length') or d in ('0', "''",
                                                                 'None'):
                        res.ob('R4', where, 'absent CONTENT_LENGTH defaults '
                               'to ' + d, 'ok')
                    else:
                        res.unclass('R4', where, 'CONTENT_LENGTH default ' + d)
    # parse_form_data is recorded only
    for f in m.functions.values():
        for call in calls_in(f.node):
            if call_name(call) == 'parse_form_data':
                res.note('%s calls werkzeug parse_form_data, which reads '
                         'wsgi.input itself (not analysed; werkzeug is not '
                         'part of the repository)' % f.qualname)


# --------------------------------------------------------------------- R5
def rule_r5(prog, res):
    res.rule('R5', 'context finalisation is deferred, run once, reachable '
             'from exhaustion and close()')
    c = prog.cls(WSGI)
    fin = c.methods.get('__finalize')
    if fin is None:
        raise AnalysisError('WsgiApplication.__finalize', 'not found')
    # __finalize closes the context exactly once
    closes = [x for x in calls_in(fin.node) if call_name(x) == 'close']
    if len(closes) == 1:
        res.ob('R5', fin.where, '__finalize calls %s once' %
               unparse(closes[0]), 'ok')
    else:
        res.ob('R5', fin.where, '__finalize close() calls: %d' % len(closes),
               'VIOLATED')
        res.finding('R5', 'WsgiApplication.__finalize|close-count|%d' %
                    len(closes), fin.where, '__finalize must close the '
                    'context exactly once, found %d close() calls' %
                    len(closes))
    n_sites = 0
    for name in ('handle_error', 'handle_rpc'):
        f = _m(prog, name)
        # eager finalisation: a call of __finalize / ctx.close() that is
        # evaluated in the function body itself (not inside a lambda/def)
        for call in calls_in(f.node):   # does not enter lambdas
            nm = call_name(call)
            d = dotted(call.func) or ''
            where = '%s:%d' % (f.module.relpath, call.lineno)
            if nm == '__finalize' or (nm == 'close' and 'ctx' in d):
                res.ob('R5', where, '%s evaluates %s eagerly' % (
                    name, unparse(call)), 'VIOLATED')
                res.finding('R5', 'WsgiApplication.%s|eager|%s' % (
                    name, unparse(call)), where, '%s is evaluated before the '
                    'response body is returned, so the request context is '
                    'closed before the body has been handed over' %
                    unparse(call))
        # the returned object carries a deferred finaliser
        for r, v in _returned_body_exprs(f.node):
            if isinstance(v, ast.Call) and (dotted(v.func) or '').startswith(
                    'self.handle_'):
                continue
            n_sites += 1
            where = '%s:%d' % (f.module.relpath, r.lineno)
            deferred = None
            wrapper = None
            if isinstance(v, ast.Call):
                wrapper = prog.resolve_expr(f.module, v.func)
                for a in list(v.args) + [k.value for k in v.keywords]:
                    if isinstance(a, ast.Lambda):
                        inner = [x for x in ast.walk(a.body) if isinstance(
                            x, ast.Call) and call_name(x) == '__finalize']
                        if inner:
                            deferred = a
                    elif isinstance(a, ast.Attribute) and \
                            a.attr == '__finalize':
                        deferred = a
            if deferred is None:
                res.ob('R5', where, '%s returns %s' % (name, unparse(v)[:60]),
                       'VIOLATED')
                res.finding('R5', 'WsgiApplication.%s|no-finaliser' % name,
                            where, 'the returned body %s does not carry a '
                            'deferred call of __finalize, so the context is '
                            'never (or not lazily) closed' % unparse(v)[:60])
                continue
            if isinstance(wrapper, FuncInfo) and any(
                    isinstance(x, (ast.Yield, ast.YieldFrom))
                    for x in walk_no_defs(wrapper.node)):
                res.ob('R5', where, '%s returns generator %s(...)' % (
                    name, wrapper.name), 'VIOLATED')
                res.finding('R5', '%s|generator-wrapper' % wrapper.name,
                            wrapper.where, 'the body is wrapped in a '
                            'generator function: close() on a generator that '
                            'was never started does not run its finally '
                            'block, so a response closed before the first '
                            'chunk is pulled never finalises the context')
                continue
            if not isinstance(wrapper, ClassInfo):
                res.ob('R5', where, '%s returns %s' % (name, unparse(v)[:60]),
                       'unclassified')
                res.unclass('R5', where, 'finaliser wrapper ' +
                            unparse(v.func))
                continue
            problems = check_closing_iterator(prog, wrapper, v, deferred)
            if problems:
                for key, msg in problems:
                    res.ob('R5', where, '%s: %s' % (wrapper.name, msg),
                           'VIOLATED')
                    res.finding('R5', '%s|%s' % (wrapper.name, key),
                                wrapper.where, msg)
            else:
                res.ob('R5', where, '%s returns %s(body, deferred finaliser):'
                       ' runs once, on exhaustion and on close()' % (
                           name, wrapper.name), 'ok')
    res.floor('R5', 'returns with a finaliser', n_sites, 2)


def check_closing_iterator(prog, cls, call, deferred):
    """The wrapper class must (a) store the finaliser passed in, (b) run it
    from close() behind a run-once flag, (c) reach close() when the body is
    exhausted (StopIteration in __next__), (d) iterate the body it was given.
    """
    problems = []
    init = cls.methods.get('__init__')
    nxt = cls.methods.get('__next__')
    close = cls.methods.get('close')
    if init is None or nxt is None or close is None:
        return [('shape', '%s lacks __init__/__next__/close' % cls.name)]
    params = init.params()[1:]
    # which parameter receives the finaliser at this call site
    fin_param = None
    for i, a in enumerate(call.args):
        if a is deferred and i < len(params):
            fin_param = params[i]
    for k in call.keywords:
        if k.value is deferred:
            fin_param = k.arg
    fin_attr = None
    body_attr = None
    for n in walk_no_defs(init.node):
        if isinstance(n, ast.Assign) and isinstance(
                n.targets[0], ast.Attribute) and dotted(
                n.targets[0].value) == 'self':
            names = {x.id for x in ast.walk(n.value) if isinstance(x,
                                                                   ast.Name)}
            if fin_param in names:
                fin_attr = n.targets[0].attr
            elif params and params[0] in names:
                body_attr = n.targets[0].attr
    if fin_attr is None:
        return [('finaliser-not-stored', '%s.__init__ does not keep the '
                 'finaliser' % cls.name)]
    # (b) close(): finaliser call guarded by a run-once flag
    fcalls = [x for x in calls_in(close.node)
              if dotted(x.func) == 'self.' + fin_attr]
    if not fcalls:
        problems.append(('close-no-finaliser', '%s.close() does not run the '
                         'finaliser' % cls.name))
    for fc in fcalls:
        g = flatten_guards(guards_at(fc, stop=close.node))
        flag = None
        for e, pol in g:
            if isinstance(e, ast.Attribute) and dotted(e.value) == 'self' \
                    and not pol:
                flag = e.attr
        if flag is None:
            problems.append(('close-unguarded', '%s.close() runs the '
                             'finaliser without a run-once flag, so '
                             'exhaustion followed by close() finalises twice'
                             % cls.name))
            continue
        sets = False
        for n in walk_no_defs(close.node):
            if isinstance(n, ast.Assign) and isinstance(
                    n.targets[0], ast.Attribute) and \
                    n.targets[0].attr == flag and isinstance(
                    n.value, ast.Constant) and n.value.value is True:
                g2 = flatten_guards(guards_at(n, stop=close.node))
                if any(isinstance(e, ast.Attribute) and e.attr == flag and
                       not pol for e, pol in g2):
                    sets = True
        if not sets:
            problems.append(('flag-not-set', '%s.close() tests %s but never '
                             'sets it, so the finaliser can run twice' % (
                                 cls.name, flag)))
        # the flag starts False
        init_false = False
        for n in walk_no_defs(init.node):
            if isinstance(n, ast.Assign) and isinstance(
                    n.targets[0], ast.Attribute) and \
                    n.targets[0].attr == flag and isinstance(
                    n.value, ast.Constant) and n.value.value is False:
                init_false = True
        if not init_false:
            problems.append(('flag-init', '%s.__init__ does not initialise '
                             '%s to False' % (cls.name, flag)))
    # (c) exhaustion reaches close()
    reaches = False
    for n in ast.walk(nxt.node):
        if isinstance(n, ast.ExceptHandler):
            names = []
            if n.type is not None:
                names = [unparse(n.type)]
            if n.type is None or 'StopIteration' in names[0] or \
                    names[0] in ('Exception', 'BaseException'):
                for x in n.body:
                    for cc in calls_in(x):
                        if dotted(cc.func) in ('self.close',
                                               'self.' + fin_attr):
                            reaches = True
        if isinstance(n, ast.Try) and n.finalbody:
            pass
    if not reaches:
        problems.append(('exhaustion', '%s.__next__ does not finalise when '
                         'the body is exhausted (StopIteration)' % cls.name))
    # StopIteration must still propagate
    reraises = False
    for n in ast.walk(nxt.node):
        if isinstance(n, ast.ExceptHandler):
            for x in n.body:
                if isinstance(x, ast.Raise):
                    reraises = True
    if reaches and not reraises:
        problems.append(('swallow', '%s.__next__ swallows StopIteration' %
                         cls.name))
    # (d) chunks come from the wrapped body
    if body_attr is not None:
        uses = [x for x in ast.walk(nxt.node) if isinstance(x, ast.Attribute)
                and x.attr == body_attr]
        if not uses:
            problems.append(('body', '%s.__next__ does not read the wrapped '
                             'body' % cls.name))
    return problems


# --------------------------------------------------------------------- R6
def rule_r6(prog, res):
    res.rule('R6', 'no listener runs between the Content-Length computation '
             'and the return of the body')
    n = 0
    for name in ('handle_error', 'handle_rpc', 'handle_wsdl_request'):
        f = _m(prog, name)
        stores = _cl_stores(f.node)
        rets = [r for r in walk_no_defs(f.node) if isinstance(r, ast.Return)]
        for st in stores:
            later = [r.lineno for r in rets if r.lineno > st.lineno]
            if not later:
                continue
            end = min(later)
            n += 1
            fires = [c for c in calls_in(f.node)
                     if call_name(c) == 'fire_event' and
                     st.lineno < c.lineno <= end]
            where = '%s:%d' % (f.module.relpath, st.lineno)
            res.ob('R6', where, '%s: %d listener event(s) between the '
                   'Content-Length store (line %d) and the return (line %d)'
                   % (name, len(fires), st.lineno, end),
                   'VIOLATED' if fires else 'ok')
            for c in fires:
                ev = unparse(c.args[0]) if c.args else '?'
                res.finding('R6', 'WsgiApplication.%s|event-after-length|%s'
                            % (name, ev),
                            '%s:%d' % (f.module.relpath, c.lineno),
                            '%s fires %s after Content-Length was computed: '
                            'a listener that rewrites ctx.out_string (the '
                            'documented use of that hook) makes the header '
                            'disagree with the bytes that are sent' % (
                                name, ev))
    res.floor('R6', 'Content-Length stores followed by a return', n, 3)


# --------------------------------------------------------------------- R7
BROAD = ('Exception', 'BaseException', 'Fault')


def rule_r7(prog, res):
    res.rule('R7', 'the request-too-long fault raised while the lazy body '
             'is consumed is not swallowed by the document parsers')
    n = 0
    for c in prog.all_classes():
        if not c.module.name.startswith('spyne.protocol'):
            continue
        f = c.methods.get('create_in_document')
        if f is None:
            continue
        for node in walk_no_defs(f.node):
            uses = None
            if isinstance(node, ast.Call) and call_name(node) in (
                    'join', 'list', 'tuple', 'next', 'feed', 'fromstring',
                    'parse') and any('in_string' in unparse(a)
                                     for a in node.args):
                uses = node
            if isinstance(node, (ast.For, ast.comprehension)) and \
                    'in_string' in unparse(node.iter):
                uses = node.iter
            if uses is None:
                continue
            n += 1
            where = '%s:%d' % (f.module.relpath, uses.lineno)
            bad = None
            for t, region in enclosing_trys(uses, stop=f.node):
                if region != 'body':
                    continue
                for h in t.handlers:
                    names = handler_names(h)
                    broad = not names or any(x in BROAD for x in names)
                    if not broad:
                        continue
                    reraises = any(isinstance(x, ast.Raise) and x.exc is None
                                   for x in ast.walk(h))
                    if not reraises:
                        bad = (h, names or ['(bare)'])
            res.ob('R7', where, '%s: the body is consumed by %s %s' % (
                f.qualname, unparse(uses)[:40],
                'inside a handler for %s' % bad[1] if bad else
                'under handlers for parse errors only'),
                'VIOLATED' if bad else 'ok')
            if bad:
                res.finding('R7', '%s|too-long-swallowed|%s' % (
                    f.qualname, ','.join(bad[1])),
                    '%s:%d' % (f.module.relpath, bad[0].lineno),
                    '%s consumes ctx.in_string (a lazy reader that raises '
                    'RequestTooLongError once max_content_length is '
                    'exceeded) inside "except %s", which replaces that fault '
                    'with the parser\'s own: an over-long body is answered '
                    'with a 400 decode error instead of 413, after the '
                    'parser error path ran' % (f.qualname,
                                               ', '.join(bad[1])))
    res.floor('R7', 'sites consuming ctx.in_string in create_in_document',
              n, 5)


# --------------------------------------------------------------------- R8
def rule_r8(prog, res):
    res.rule('R8', 'the WSDL endpoint closes its context exactly once on '
             'every path, through the returned iterator; the body iterator '
             'is built from the object that is finally sent')
    f = _m(prog, 'handle_wsdl_request')

    def classify(call):
        nm = call_name(call)
        d = dotted(call.func) or ''
        if nm == 'start_response':
            return ('SR',), False
        if nm == 'close' and d.endswith('ctx.close'):
            return ('CLOSE',), False
        if nm == '_ClosingIterator':
            fin = [unparse(a) for a in call.args[1:]] + [
                unparse(k.value) for k in call.keywords]
            if any(x.endswith('.close') or 'close()' in x or
                   '__finalize' in x for x in fin):
                return ('DEFER',), False
        return (), False
    seqs = SeqFlow(classify).run(f.node)
    paths = seqs.get(RETURN, set())
    res.floor('R8', 'distinct event sequences of handle_wsdl_request', len(paths), 1)
    bad = []
    for q in sorted(paths):
        closes = q.count('CLOSE') + q.count('DEFER')
        eager = 'CLOSE' in q
        ok = closes == 1 and not eager and q.count('SR') == 1
        res.ob('R8', f.where, 'handle_wsdl_request path: %s' % (
            ' > '.join(q) or '(no events)'), 'ok' if ok else 'VIOLATED')
        if not ok:
            bad.append(q)
    for q in bad[:3]:
        res.finding('R8', 'WsgiApplication.handle_wsdl_request|close|%s' %
                    '>'.join(q), f.where, 'on the path [%s] the context is '
                    'closed %d time(s)%s: it must be closed exactly once, by '
                    'the returned iterator, after the body was handed over' %
                    (' > '.join(q), q.count('CLOSE') + q.count('DEFER'),
                     ', eagerly before the body is returned' if 'CLOSE' in q
                     else ''))
    # handle_rpc / handle_error: no re-binding of the body between the
    # creation of the iterator that wraps it and the return
    n = 0
    for name in ('handle_rpc', 'handle_error'):
        g = _m(prog, name)
        for c in calls_in(g.node):
            if call_name(c) != '_ClosingIterator' or not c.args:
                continue
            n += 1
            src = unparse(c.args[0])
            rets = [r.lineno for r in walk_no_defs(g.node)
                    if isinstance(r, ast.Return) and r.lineno >= c.lineno]
            end = min(rets) if rets else c.lineno
            reb = []
            for a in walk_no_defs(g.node):
                if isinstance(a, (ast.Assign, ast.AugAssign)) and \
                        c.lineno < a.lineno <= end:
                    tg = a.targets if isinstance(a, ast.Assign) else \
                        [a.target]
                    if any(unparse(t) == src for t in tg):
                        reb.append(a)
            where = '%s:%d' % (g.module.relpath, c.lineno)
            res.ob('R8', where, '%s: iterator over %s created at line %d, '
                   '%d re-binding(s) of it before the return' % (
                       name, src, c.lineno, len(reb)),
                   'VIOLATED' if reb else 'ok')
            for a in reb:
                res.finding('R8', 'WsgiApplication.%s|iterator-stale|%s' % (
                    name, src), '%s:%d' % (g.module.relpath, a.lineno),
                    '%s wraps %s in the closing iterator and re-binds %s '
                    'afterwards (line %d): the iterator keeps the old, '
                    'possibly exhausted object, so the bytes sent differ '
                    'from those Content-Length was computed over' % (
                        name, src, src, a.lineno))
    res.floor('R8', 'closing iterators in handle_rpc/handle_error', n, 2)


# --------------------------------------------------------------------- R9
def rule_r9(prog, res):
    res.rule('R9', 'the error body is always materialised before its length '
             'is taken; header values written by HttpRpc are text')
    f = _m(prog, 'handle_error')
    n = 0
    for a in walk_no_defs(f.node):
        if isinstance(a, ast.Assign) and unparse(a.targets[0]).endswith(
                'out_string') and isinstance(a.value, ast.Call) and \
                call_name(a.value) in ('list', 'tuple'):
            n += 1
            guardspec.check(res, 'R9', f, a, 'materialisation of the error '
                            'body (%s)' % unparse(a)[:40], allowed=[],
                            key='WsgiApplication.handle_error|materialise')
    res.floor('R9', 'materialisation of out_string in handle_error', n, 1)
    hp = prog.module('spyne.protocol.http')
    g = hp.functions.get('_header_to_bytes')
    if g is None:
        raise AnalysisError('spyne.protocol.http._header_to_bytes',
                            'not found')
    vparam = g.params()[1] if len(g.params()) > 1 else 'val'
    k = 0
    for r in walk_no_defs(g.node):
        if not isinstance(r, ast.Return) or r.value is None:
            continue
        k += 1
        raw = isinstance(r.value, ast.Name) and r.value.id == vparam
        atoms = guardspec.atoms_at(r, g.node)
        bytes_ok = raw and any(pol and 'isinstance' in t and (
            'binary_type' in t or 'bytes' in t) for t, pol in atoms)
        unguarded = raw and not any(pol and 'isinstance' in t
                                    for t, pol in atoms)
        bad = bytes_ok or unguarded
        where = '%s:%d' % (hp.relpath, r.lineno)
        res.ob('R9', where, '_header_to_bytes returns %s under %s' % (
            unparse(r.value)[:40], atoms), 'VIOLATED' if bad else 'ok')
        if bad:
            res.finding('R9', '_header_to_bytes|raw-bytes', where,
                        '_header_to_bytes hands back its argument unchanged '
                        'where it may be a byte string: the value reaches '
                        'start_response as a bytes header value, which '
                        'PEP 3333 forbids')
    res.floor('R9', 'returns of _header_to_bytes', k, 2)


# ------------------------------------------------------------------ R10
def rule_r10(prog, res):
    res.rule('R10', 'the finaliser closes the context before it runs any '
             'listener; header parameters that are not ASCII take the RFC '
             '2231 form; nothing but Faults escapes the request phases '
             '(C10-R2/R9)')
    w = prog.cls('spyne.server.wsgi:WsgiApplication')
    fins = set()
    for f in w.methods.values():
        for c in calls_in(f.node):
            if call_name(c) == '_ClosingIterator' and len(c.args) >= 2:
                for x in ast.walk(c.args[1]):
                    if isinstance(x, ast.Attribute) and isinstance(
                            x.value, ast.Name) and x.value.id == 'self':
                        nm = x.attr
                        cand = [m for k, m in w.methods.items()
                                if k == nm or k.endswith(nm)]
                        fins.update(cand)
    n = 0
    for g in sorted(fins, key=lambda m: m.qualname):
        closes = [c for c in calls_in(g.node) if call_name(c) == 'close' and
                  isinstance(c.func, ast.Attribute) and
                  'ctx' in unparse(c.func.value)]
        events = [c for c in calls_in(g.node) if call_name(c) == 'fire_event']
        if not closes:
            continue
        n += 1
        in_finally = []
        for t in walk_no_defs(g.node):
            if isinstance(t, ast.Try):
                for st in t.finalbody:
                    in_finally += [c for c in ast.walk(st) if c in closes]
        ok = bool(in_finally) or not events or \
            min(c.lineno for c in closes) < min(e.lineno for e in events)
        res.ob('R10', g.where, '%s: context closed at line %s, listeners '
               'fired at %s' % (g.qualname, [c.lineno for c in closes],
                                [e.lineno for e in events]),
               'ok' if ok else 'VIOLATED')
        if not ok:
            res.finding('R10', '%s|close-after-listener' % g.qualname,
                        g.where, '%s fires a listener event before it closes '
                        'the context: the closing iterator marks itself '
                        'finalised before calling the finaliser, so when the '
                        'listener raises the context is never closed '
                        '(method_context_closed never fires)' % g.qualname)
    res.floor('R10', 'finalisers handed to the closing iterator', n, 1)
    # header parameter probe
    m = prog.module('spyne.server.http')
    fp = m.functions.get('_formatparam')
    if fp is None:
        raise AnalysisError('_formatparam', 'not found')
    k = 0
    for t in walk_no_defs(fp.node):
        if not isinstance(t, ast.Try):
            continue
        enc = [c for st in t.body for c in ast.walk(st) if isinstance(
            c, ast.Call) and call_name(c) == 'encode' and c.args and
            isinstance(c.args[0], ast.Constant)]
        if not enc or not any('UnicodeEncodeError' in unparse(h.type or
                              ast.Constant(value='')) for h in t.handlers):
            continue
        k += 1
        codec = str(enc[0].args[0].value).lower().replace('_', '-')
        ok = codec in ('ascii', 'us-ascii', 'latin-1', 'latin1',
                       'iso-8859-1', 'iso8859-1')
        where = '%s:%d' % (m.relpath, enc[0].lineno)
        res.ob('R10', where, '_formatparam probes the value with %r' % codec,
               'ok' if ok else 'VIOLATED')
        if not ok:
            res.finding('R10', '_formatparam|probe-codec|%s' % codec, where,
                        'the probe that sends non-ASCII parameter values to '
                        'the RFC 2231 branch encodes with %r, which never '
                        'fails for text: values with characters above U+00FF '
                        'go into the header verbatim and the WSGI server '
                        'cannot encode the header as ISO-8859-1' % codec)
    res.floor('R10', 'header parameter probes', k, 1)
    # request phases raise Faults only
    from . import c10
    from ..report import Result
    from ..callgraph import CallGraph
    from ..excflow import ExcFlow
    ef = ExcFlow(prog, CallGraph(prog))
    res.share('R10', 'request phases raise Faults only (C10-R9)', 'C10',
              c10.rule_r9, prog, Result, ef)
    res.share('R10', 'request phases raise Faults only (C10-R2)', 'C10',
              c10.rule_r2, prog, Result, ef)


# ------------------------------------------------------------------ R11
def rule_r11(prog, res):
    res.rule('R11', 'every step of handle_rpc that runs user code or lazy '
             'serialization sits in a try that funnels any exception into '
             'handle_error (one start_response, context closed)')
    w = prog.cls('spyne.server.wsgi:WsgiApplication')
    f = w.methods.get('handle_rpc')
    if f is None:
        raise AnalysisError('WsgiApplication.handle_rpc', 'not found')
    sites = []
    for c in calls_in(f.node):
        nm = call_name(c)
        if nm == 'next' and isinstance(c.func, ast.Name) and c.args and \
                unparse(c.args[0]) == 'g':
            sites.append((c, 'the prefetch of a generator result'))
        elif nm == 'get_out_string':
            sites.append((c, 'serialization of the response'))
        elif nm == 'join' and c.args and 'out_string' in unparse(c.args[0]):
            sites.append((c, 'materialisation of a lazy out_string'))
    res.floor('R11', 'steps of handle_rpc that run user code', len(sites), 3)
    for c, what in sites:
        funnel = None
        p_ = c
        while p_ is not None and p_ is not f.node:
            par = getattr(p_, '_parent', None)
            if isinstance(par, ast.Try) and p_ in par.body:
                for h in par.handlers:
                    names = unparse(h.type) if h.type is not None else ''
                    if h.type is None or 'Exception' in names.split(
                            '.')[-1:] or names in ('Exception',
                                                   'BaseException'):
                        if any(call_name(x) == 'handle_error'
                               for st in h.body for x in ast.walk(st)
                               if isinstance(x, ast.Call)):
                            funnel = h
            p_ = par
        where = '%s:%d' % (f.module.relpath, c.lineno)
        res.ob('R11', where, 'handle_rpc: %s %s' % (what, (
            'is funnelled into handle_error') if funnel is not None else
            'is outside every funnelling try'),
            'ok' if funnel is not None else 'VIOLATED')
        if funnel is None:
            res.finding('R11', 'WsgiApplication.handle_rpc|unfunnelled|%s' %
                        unparse(c)[:30], where, '%s (%s) runs user code '
                        'outside every try that hands the exception to '
                        'handle_error: a generator body or a lazy serializer '
                        'that raises escapes the WSGI callable - '
                        'start_response is never called and the context '
                        'stays open' % (unparse(c)[:40], what))


# ------------------------------------------------------------------ R12
def rule_r12(prog, res):
    res.rule('R12', 'the request body reader raises Faults only: it is a '
             'generator consumed inside create_in_document, where only a '
             'Fault reaches handle_error')
    from ..callgraph import CallGraph
    from ..excflow import ExcFlow
    ef = ExcFlow(prog, CallGraph(prog))
    w = prog.cls('spyne.server.wsgi:WsgiApplication')
    f = w.methods.get('__wsgi_input_to_iterable')
    if f is None:
        raise AnalysisError('WsgiApplication.__wsgi_input_to_iterable',
                            'not found')
    esc = ef.escapes(f)
    res.floor('R12', 'raise sites of the body reader', len(esc), 1)
    for r in esc:
        ok = r.exc == 'Fault'
        res.ob('R12', r.where, 'the body reader raises %s (%s)' % (
            r.exc, r.why[:50]), 'ok' if ok else 'VIOLATED')
        if not ok:
            res.finding('R12', 'WsgiApplication.__wsgi_input_to_iterable|%s'
                        % r.exc, r.where, 'the body reader can raise %s (%s): '
                        'the generator runs inside create_in_document, '
                        'generate_contexts only catches Fault, so the '
                        'exception leaves the WSGI callable before '
                        'start_response (a Content-Length that is not a '
                        'number)' % (r.exc, r.why[:60]))


# ------------------------------------------------------------------ R13
def rule_r13(prog, res):
    from . import c09, c12
    from ..report import Result
    res.share('R13', 'fault serialisation cannot raise on plain fault codes: '
              'handle_error serialises before start_response (C09-R13)',
              'C09', c09.rule_r13, prog, Result)
    res.share('R13', 'response headers and status are per-request state '
              '(C12-R5)', 'C12', c12.rule_r5, prog, Result)


# ------------------------------------------------------------------ R14
def rule_r14(prog, res):
    res.rule('R14', 'the transport keeps the size limits it was given: '
             'HttpBase.__init__ stores max_content_length and block_length '
             'as the parameters themselves (0 is a limit, not "unset")')
    h = prog.cls('spyne.server.http:HttpBase')
    f = h.methods.get('__init__')
    if f is None:
        raise AnalysisError('HttpBase.__init__', 'not found')
    n = 0
    for a in walk_no_defs(f.node):
        if not isinstance(a, ast.Assign):
            continue
        for t in a.targets:
            if isinstance(t, ast.Attribute) and unparse(t.value) == 'self' \
                    and t.attr in ('max_content_length', 'block_length'):
                n += 1
                ok = isinstance(a.value, ast.Name) and a.value.id == t.attr
                where = '%s:%d' % (f.module.relpath, a.lineno)
                res.ob('R14', where, 'HttpBase.__init__ stores %s = %s' % (
                    t.attr, unparse(a.value)), 'ok' if ok else 'VIOLATED')
                if not ok:
                    res.finding('R14', 'HttpBase.__init__|limit-rewritten|%s'
                                % t.attr, where, 'self.%s is stored as %s, '
                                'not as the configured value: with '
                                'max_content_length=0 (accept no body) the '
                                'guards of the bounded reader compare with '
                                'another number, the body is read and the '
                                'method runs' % (t.attr, unparse(a.value)))
    res.floor('R14', 'limit stores in HttpBase.__init__', n, 2)


def rule_r15(prog, res):
    res.rule('R15', 'rebuilding the request URL never indexes a WSGI variable '
             'that may be empty outside the branch for a non-conforming '
             'SCRIPT_NAME; every sequence kind of a multi-valued header is '
             'expanded into string pairs')
    m = prog.module('spyne.server.wsgi')
    f = m.functions.get('_reconstruct_url')
    g = m.functions.get('_gen_http_headers')
    if f is None or g is None:
        raise AnalysisError('_reconstruct_url / _gen_http_headers',
                            'not found')

    def origin(e, fn):
        """text of e with one level of local aliases replaced"""
        if isinstance(e, ast.Name):
            vs = [a.value for a in walk_no_defs(fn.node)
                  if isinstance(a, ast.Assign) and any(
                      isinstance(t, ast.Name) and t.id == e.id
                      for t in a.targets)]
            if len(vs) == 1:
                return unparse(vs[0])
        return unparse(e)
    n = 0
    for sub in walk_no_defs(f.node):
        if not (isinstance(sub, ast.Subscript) and isinstance(
                sub.slice, ast.Constant) and isinstance(
                sub.slice.value, int) and isinstance(sub.ctx, ast.Load)):
            continue
        src = origin(sub.value, f)
        if 'environ.get(' not in src and 'environ[' not in src:
            continue
        key = 'PATH_INFO' if 'PATH_INFO' in src else (
            'SCRIPT_NAME' if 'SCRIPT_NAME' in src else src[:30])
        n += 1
        safe = False
        for e, pol in flatten_guards(guards_at(sub, stop=f.node)):
            if not pol:
                continue
            if isinstance(e, ast.Compare) and isinstance(
                    e.ops[0], ast.Eq) and isinstance(
                    e.comparators[0], ast.Constant) and \
                    e.comparators[0].value == '/' and \
                    'SCRIPT_NAME' in origin(e.left, f):
                safe = True         # outside the WSGI contract altogether
            if origin(e, f) == src or unparse(e) == unparse(sub.value):
                safe = True         # tested for being non-empty
        where = '%s:%d' % (m.relpath, sub.lineno)
        res.ob('R15', where, '_reconstruct_url indexes %s[%d] %s' % (
            key, sub.slice.value, 'only for SCRIPT_NAME == "/" or a '
            'non-empty value' if safe else 'for every request'),
            'ok' if safe else 'VIOLATED')
        if not safe:
            res.finding('R15', '_reconstruct_url|index-of-empty|%s' % key,
                        where, '%s is evaluated for every request: an empty '
                        'or absent %s (a mount point requested without a '
                        'trailing path) raises IndexError before '
                        'start_response is called' % (unparse(sub)[:60], key))
    res.floor('R15', 'indexed WSGI variables in _reconstruct_url', n, 1)
    k = 0
    for c in calls_in(g.node):
        if call_name(c) != 'isinstance' or len(c.args) != 2:
            continue
        k += 1
        kinds = {unparse(x) for x in (c.args[1].elts if isinstance(
            c.args[1], ast.Tuple) else [c.args[1]])}
        ok = {'list', 'tuple'} <= kinds
        where = '%s:%d' % (m.relpath, c.lineno)
        res.ob('R15', where, '_gen_http_headers expands values of kind %s' %
               sorted(kinds), 'ok' if ok else 'VIOLATED')
        if not ok:
            res.finding('R15', '_gen_http_headers|sequence-kind-not-expanded',
                        where, 'only %s values are expanded into one pair per '
                        'item: a %s of values is handed to start_response as '
                        'the header value, which is not a string' % (
                            sorted(kinds), sorted({'list', 'tuple'} -
                                                  kinds)[0]))
    res.floor('R15', 'sequence tests in _gen_http_headers', k, 1)


# ------------------------------------------------------------------ R16
def rule_r16(prog, res):
    res.rule('R16', 'the eager part of handle_rpc outside any try cannot '
             'refuse a request by raising: a private helper of the transport '
             'that handle_rpc calls unprotected contains no raise statement '
             'of its own (a refusal there would leave the WSGI callable '
             'without start_response, body or context close); refusals are '
             'raised lazily from the body generator or recorded in in_error')
    w = prog.cls(WSGI)
    h = w.methods.get('handle_rpc')
    if h is None:
        raise AnalysisError('WsgiApplication.handle_rpc', 'not found')
    from ..flow import enclosing_trys

    def helper_of(call):
        f = call.func
        if isinstance(f, ast.Attribute) and unparse(f.value) == 'self' and \
                f.attr.startswith('_'):
            return w.methods.get(f.attr)
        return None

    seen = set()
    todo = []
    for c in calls_in(h.node):
        g = helper_of(c)
        if g is None or g.name in seen:
            continue
        if any(reg == 'body' for _t, reg in enclosing_trys(c, stop=h.node)):
            continue
        seen.add(g.name)
        todo.append((g, 'handle_rpc'))
    n = 0
    while todo:
        g, via = todo.pop()
        if _is_generator(g):
            continue            # runs when the body is consumed, not here
        n += 1
        bad = [r for r in walk_no_defs(g.node) if isinstance(r, ast.Raise)
               and not any(reg == 'body' and any(
                   not handler_names_(hd) or 'Exception' in handler_names_(hd)
                   or 'Fault' in handler_names_(hd) for hd in t.handlers)
                   for t, reg in enclosing_trys(r, stop=g.node))]
        res.ob('R16', g.where, '%s (called unprotected via %s) has no raise '
               'statement' % (g.name, via), 'ok' if not bad else 'VIOLATED')
        for r in bad:
            res.finding('R16', 'WsgiApplication.%s|eager-raise|%s' % (
                g.name, unparse(r.exc)[:40] if r.exc is not None else
                'reraise'), '%s:%d' % (g.module.relpath, r.lineno),
                'raised while handle_rpc is outside every try: the exception '
                'leaves the WSGI callable, start_response is never called '
                'and the context is never closed')
        for c in calls_in(g.node):
            k = helper_of(c)
            if k is not None and k.name not in seen and not any(
                    reg == 'body' for _t, reg in
                    enclosing_trys(c, stop=g.node)):
                seen.add(k.name)
                todo.append((k, g.name))
    res.ob('R16', h.where, 'handle_rpc: %d private helper(s) called outside '
           'every try were examined' % n, 'ok')


def handler_names_(hd):
    from ..flow import handler_names
    return handler_names(hd)


def run(prog, res, tier):
    res.run_rule(rule_r1, prog, res)
    res.run_rule(rule_r2, prog, res)
    res.run_rule(rule_r3, prog, res, tier)
    res.run_rule(rule_r4, prog, res)
    res.run_rule(rule_r5, prog, res)
    res.run_rule(rule_r6, prog, res)
    res.run_rule(rule_r7, prog, res)
    res.run_rule(rule_r8, prog, res)
    res.run_rule(rule_r9, prog, res)
    res.run_rule(rule_r10, prog, res)
    res.run_rule(rule_r11, prog, res)
    res.run_rule(rule_r12, prog, res)
    res.run_rule(rule_r13, prog, res)
    res.run_rule(rule_r14, prog, res)
    res.run_rule(rule_r15, prog, res)
    res.run_rule(rule_r16, prog, res)


_W = 'spyne/server/wsgi.py'

MUTANTS = [
    Mutant('charset-refused-eagerly', 'R16', 'fire', _W,
           in_func('WsgiApplication.__reconstruct_wsgi_request',
                   "            charset = content_type[1].get('charset', "
                   "None)\n",
                   "            charset = content_type[1].get('charset', "
                   "None)\n            if charset == 'x-none':\n"
                   "                raise Fault('Client.BadRequest', "
                   "'Unknown charset')\n"), 'eager-raise'),
    Mutant('path-info-indexed-first', 'R15', 'fire', 'spyne/server/wsgi.py',
           in_func('_reconstruct_url',
                   "        if (quote(environ.get('SCRIPT_NAME', '')) == '/' "
                   "and\n            quote(environ.get('PATH_INFO', ''))[0] "
                   "== '/'):",
                   "        if (quote(environ.get('PATH_INFO', ''))[0] == '/' "
                   "and\n            quote(environ.get('SCRIPT_NAME', '')) "
                   "== '/'):"), 'index-of-empty'),
    Mutant('header-tuples-not-expanded', 'R15', 'fire', 'spyne/server/wsgi.py',
           in_func('_gen_http_headers', "isinstance(v, (list, tuple))",
                   "isinstance(v, list)"), 'sequence-kind-not-expanded'),
    Mutant('zero-limit-taken-for-unset', 'R14', 'fire', 'spyne/server/http.py',
           in_func('HttpBase.__init__',
                   "self.max_content_length = max_content_length\n",
                   "self.max_content_length = max_content_length or 2 * 1024 "
                   "* 1024\n"), 'limit-rewritten'),
    Mutant('content-length-unparsed', 'R12', 'fire', _W,
           in_func('WsgiApplication.__wsgi_input_to_iterable',
                   "            except ValueError:\n", "            except "
                   "KeyError:\n"), 'ValueError'),
    Mutant('content-length-error-any', 'R12', 'benign', _W,
           in_func('WsgiApplication.__wsgi_input_to_iterable',
                   "            except ValueError:\n", "            except "
                   "(TypeError, ValueError):\n"), None),
    Mutant('prefetch-outside-funnel', 'R11', 'fire', 'spyne/server/wsgi.py',
           in_func('WsgiApplication.handle_rpc',
                   "            except Exception as e:\n                # the "
                   "body of a generator function starts to run here\n",
                   "            except KeyError as e:\n"), 'unfunnelled'),
    Mutant('join-outside-funnel', 'R11', 'fire', 'spyne/server/wsgi.py',
           in_func('WsgiApplication.handle_rpc',
                   r"(            if not self\.chunked:\n                # a "
                   r"lazy out_string runs \(the rest of\) the user code here"
                   r"\n                p_ctx\.out_string = \[b''\.join\("
                   r"p_ctx\.out_string\)\]\n\n)(.*?)(        if isinstance\("
                   r"p_ctx\.out_protocol, HttpRpc\))",
                   lambda m_: m_.group(2) + m_.group(1).replace(
                       "            if", "        if").replace(
                       "                ", "            ") + m_.group(3),
                   regex=True), 'unfunnelled'),
    Mutant('listener-before-close', 'R10', 'fire', 'spyne/server/wsgi.py',
           in_func('WsgiApplication.__finalize',
                   "        p_ctx.close()\n        self.event_manager."
                   "fire_event('wsgi_close', p_ctx)\n",
                   "        self.event_manager.fire_event('wsgi_close', p_ctx)"
                   "\n        p_ctx.close()\n"), 'close-after-listener'),
    Mutant('close-in-finally', 'R10', 'silent', 'spyne/server/wsgi.py',
           in_func('WsgiApplication.__finalize',
                   "        p_ctx.close()\n        self.event_manager."
                   "fire_event('wsgi_close', p_ctx)\n",
                   "        try:\n            self.event_manager.fire_event("
                   "'wsgi_close_', p_ctx)\n        finally:\n"
                   "            p_ctx.close()\n"), None),
    Mutant('header-param-probe-utf8', 'R10', 'fire', 'spyne/server/http.py',
           in_func('_formatparam', "value.encode('ascii')",
                   "value.encode('utf-8')"), 'probe-codec'),
    Mutant('error-body-materialised-conditionally', 'R9', 'fire', _W,
           in_func('WsgiApplication.handle_error',
                   "        p_ctx.out_string = list(p_ctx.out_string)\n",
                   "        if not isinstance(p_ctx.out_string, list):\n"
                   "            p_ctx.out_string = list(p_ctx.out_string)\n"),
           'extra-guard'),
    Mutant('header-bytes-passed-through', 'R9', 'fire',
           'spyne/protocol/http.py',
           in_func('_header_to_bytes', "    else:\n        # because wsgi_ref",
                   "    elif isinstance(val, (six.text_type, "
                   "six.binary_type)):\n        return val\n"
                   "    else:\n        # because wsgi_ref"), 'raw-bytes'),
    Mutant('wsdl-context-closed-in-finally', 'R8', 'fire', _W,
           in_func('WsgiApplication.handle_wsdl_request',
                   "                self._mtx_build_interface_document."
                   "release()\n",
                   "                self._mtx_build_interface_document."
                   "release()\n                ctx.close()\n"), 'close'),
    Mutant('wsdl-404-plain-list', 'R8', 'fire', _W,
           in_func('WsgiApplication.handle_wsdl_request',
                   "return _ClosingIterator([HTTP_404.encode('ascii')], "
                   "ctx.close)", "return [HTTP_404.encode('ascii')]"),
           'close'),
    Mutant('iterator-before-join', 'R8', 'fire', _W,
           in_func('WsgiApplication.handle_rpc',
                   "        try:\n            self.get_out_string(p_ctx)\n",
                   "        retval = _ClosingIterator(p_ctx.out_string, "
                   "lambda: self.__finalize(p_ctx))\n"
                   "        try:\n            self.get_out_string(p_ctx)\n"),
           'iterator-stale'),
    Mutant('redirect-body-as-text', 'R3', 'fire', 'spyne/const/http.py',
           lambda src: src.replace(
               "            \".\",\n        )\n    ))",
               "            \".\",\n        )\n    ), encoding='unicode')"),
           'chunk'),
    Mutant('wsgi-return-after-length', 'R6', 'fire', _W,
           in_func('WsgiApplication.handle_rpc',
                   r"(        self\.event_manager\.fire_event\('wsgi_return', "
                   r"p_ctx\)\n\n)(.*?)(        start_response\(p_ctx\."
                   r"transport\.resp_code,)",
                   lambda m_: m_.group(2) + m_.group(1) + m_.group(3),
                   regex=True), 'event-after-length'),
    Mutant('wsgi-exception-after-length', 'R6', 'fire', _W,
           in_func('WsgiApplication.handle_error',
                   r"(        self\.event_manager\.fire_event\('wsgi_exception"
                   r"', p_ctx\)\n\n)(.*?)(        start_response\()",
                   lambda m_: m_.group(2) + m_.group(1) + m_.group(3),
                   regex=True), 'event-after-length'),
    Mutant('json-parser-catches-everything', 'R7', 'fire',
           'spyne/protocol/json.py',
           in_func('JsonDocument.create_in_document',
                   "except (JSONDecodeError, UnicodeDecodeError, "
                   "LookupError) as e:", "except Exception as e:"),
           'too-long-swallowed'),
    Mutant('json-parser-catches-valueerror', 'R7', 'benign',
           'spyne/protocol/json.py',
           in_func('JsonDocument.create_in_document',
                   "except (JSONDecodeError, UnicodeDecodeError, "
                   "LookupError) as e:",
                   "except (ValueError, LookupError) as e:"), None),
    # R1
    Mutant('sr-dropped-in-error', 'R1', 'fire', _W,
           in_func('WsgiApplication.handle_error',
                   r"start_response\(p_ctx\.transport\.resp_code,\s*"
                   r"_gen_http_headers\(p_ctx\.transport\.resp_headers\)\)",
                   'pass', regex=True), 'handle_error'),
    Mutant('sr-twice-in-rpc', 'R1', 'fire', _W,
           in_func('WsgiApplication.handle_rpc',
                   "self.event_manager.fire_event('wsgi_return', p_ctx)",
                   "self.event_manager.fire_event('wsgi_return', p_ctx)\n"
                   "        start_response(p_ctx.transport.resp_code, [])"),
           'handle_rpc'),
    Mutant('sr-before-failing-serialisation', 'R1', 'fire', _W,
           in_func('WsgiApplication.handle_rpc',
                   "        try:\n            self.get_out_string(p_ctx)",
                   "        start_response(p_ctx.transport.resp_code, [])\n"
                   "        try:\n            self.get_out_string(p_ctx)"),
           'handle_rpc'),
    Mutant('wsdl-500-no-sr', 'R1', 'fire', _W,
           in_func('WsgiApplication.handle_wsdl_request',
                   r"start_response\(HTTP_500,\s*_gen_http_headers\("
                   r"ctx\.transport\.resp_headers\)\)", 'pass', regex=True),
           'handle_wsdl_request'),
    Mutant('wsdl-404-falls-through', 'R1', 'fire', _W,
           in_func('WsgiApplication.handle_wsdl_request',
                   "            return _ClosingIterator([HTTP_404.encode("
                   "'ascii')], ctx.close)\n", "\n"),
           'handle_wsdl_request'),
    Mutant('twin-sr-args-hoisted', 'R1', 'benign', _W,
           in_func('WsgiApplication.handle_error',
                   r"start_response\(p_ctx\.transport\.resp_code,\s*"
                   r"_gen_http_headers\(p_ctx\.transport\.resp_headers\)\)",
                   "hdrs = _gen_http_headers(p_ctx.transport.resp_headers)\n"
                   "        start_response(p_ctx.transport.resp_code, hdrs)",
                   regex=True), ''),
    # R2
    Mutant('cl-from-other-object', 'R2', 'fire', _W,
           in_func('WsgiApplication.handle_wsdl_request',
                   'str(len(ctx.transport.wsdl))', 'str(len(self._wsdl))'),
           'handle_wsdl_request'),
    Mutant('cl-counts-chunks', 'R2', 'fire', _W,
           in_func('WsgiApplication.handle_error',
                   'str(sum((len(s) for s in p_ctx.out_string)))',
                   'str(len(p_ctx.out_string))'), 'handle_error'),
    Mutant('cl-then-rebound', 'R2', 'fire', _W,
           in_func('WsgiApplication.handle_error',
                   "        start_response(p_ctx.transport.resp_code,",
                   "        p_ctx.out_string = [b'<!-- -->'] + "
                   "p_ctx.out_string\n"
                   "        start_response(p_ctx.transport.resp_code,"),
           'rebound'),
    Mutant('stale-cl-kept', 'R2', 'fire', _W,
           in_func('WsgiApplication.handle_rpc',
                   "                del p_ctx.transport.resp_headers["
                   "'Content-Length']", "                pass"), 'stale'),
    Mutant('twin-stale-cl-pop', 'R2', 'benign', _W,
           in_func('WsgiApplication.handle_rpc',
                   r"            if 'Content-Length' in p_ctx\.transport\."
                   r"resp_headers:\s*del p_ctx\.transport\.resp_headers\["
                   r"'Content-Length'\]",
                   "            p_ctx.transport.resp_headers.pop("
                   "'Content-Length', None)", regex=True), ''),
    # R3
    Mutant('str-404-body', 'R3', 'fire', _W,
           in_func('WsgiApplication.handle_wsdl_request',
                   "_ClosingIterator([HTTP_404.encode('ascii')], ctx.close)",
                   "_ClosingIterator([HTTP_404], ctx.close)"), 'HTTP_404'),
    Mutant('str-joiner', 'R3', 'fire', _W,
           in_func('WsgiApplication.handle_rpc',
                   "[b''.join(p_ctx.out_string)]",
                   "[''.join(p_ctx.out_string)]"), 'join'),
    Mutant('bytes-header', 'R3', 'fire', _W,
           in_func('WsgiApplication.handle_error',
                   'str(sum((len(s) for s in p_ctx.out_string)))',
                   "str(sum((len(s) for s in p_ctx.out_string)))"
                   ".encode('ascii')"), 'header'),
    # R4
    Mutant('read-unbounded', 'R4', 'fire', _W,
           in_func('WsgiApplication.__wsgi_input_to_iterable',
                   'data = istream.read(bytes_to_read)',
                   'data = istream.read()'), 'unsized'),
    Mutant('read-block-only', 'R4', 'fire', _W,
           in_func('WsgiApplication.__wsgi_input_to_iterable',
                   'bytes_to_read = min(self.block_length, '
                   'length - bytes_read)',
                   'bytes_to_read = self.block_length'), 'size'),
    Mutant('guard-dropped', 'R4', 'fire', _W,
           in_func('WsgiApplication.__wsgi_input_to_iterable',
                   "        if length > self.max_content_length:\n"
                   "            raise RequestTooLongError()\n", "\n"),
           'guard'),
    Mutant('guard-off-by-one', 'R4', 'fire', _W,
           in_func('WsgiApplication.__wsgi_input_to_iterable',
                   "        if length > self.max_content_length:",
                   "        if length >= self.max_content_length:"),
           'guard-boundary'),
    Mutant('counter-not-advanced', 'R4', 'fire', _W,
           in_func('WsgiApplication.__wsgi_input_to_iterable',
                   'bytes_read += len(data)', 'bytes_read += 1'), 'counter'),
    Mutant('eager-refusal', 'R4', 'fire', _W,
           in_func('WsgiApplication',
                   r"        bytes_read = 0\n\n        while bytes_read < "
                   r"length:(.*?)            yield data\n",
                   r"        return self.__read_blocks(istream, length)\n\n"
                   r"    def __read_blocks(self, istream, length):\n"
                   r"        bytes_read = 0\n\n        while bytes_read < "
                   r"length:\1            yield data\n", regex=True),
           'eager-refusal'),
    Mutant('limit-raised-to-block', 'R4', 'fire', 'spyne/server/http.py',
           in_func('HttpBase.__init__',
                   'self.max_content_length = max_content_length',
                   'self.max_content_length = max(max_content_length, '
                   'block_length)'), 'config'),
    Mutant('generator-closing-wrapper', 'R5', 'fire', _W,
           in_func('_ClosingIterator',
                   r"class _ClosingIterator\(object\):.*\Z",
                   "def _ClosingIterator(body, finalizer):\n"
                   "    try:\n        for chunk in body:\n"
                   "            yield chunk\n    finally:\n"
                   "        finalizer()\n", regex=True),
           'generator-wrapper'),
    Mutant('twin-guard-reordered', 'R4', 'benign', _W,
           in_func('WsgiApplication.__wsgi_input_to_iterable',
                   "        if length > self.max_content_length:",
                   "        if self.max_content_length < length:"), ''),
    # R5
    Mutant('eager-finalize', 'R5', 'fire', _W,
           in_func('WsgiApplication.handle_rpc',
                   'lambda: self.__finalize(p_ctx))',
                   'self.__finalize(p_ctx))'), 'handle_rpc'),
    Mutant('eager-finalize-chain', 'R5', 'fire', _W,
           in_func('WsgiApplication.handle_error',
                   r"return _ClosingIterator\(p_ctx\.out_string,\s*lambda: "
                   r"self\.__finalize\(p_ctx\)\)",
                   'return chain(p_ctx.out_string, self.__finalize(p_ctx))',
                   regex=True), 'handle_error'),
    Mutant('never-finalised', 'R5', 'fire', _W,
           in_func('WsgiApplication.handle_error',
                   r"return _ClosingIterator\(p_ctx\.out_string,\s*lambda: "
                   r"self\.__finalize\(p_ctx\)\)",
                   'return iter(p_ctx.out_string)', regex=True),
           'no-finaliser'),
    Mutant('close-twice', 'R5', 'fire', _W,
           in_func('_ClosingIterator.close',
                   "        if not self._finalized:\n"
                   "            self._finalized = True\n"
                   "            self._finalizer()",
                   "        self._finalizer()"), 'close-unguarded'),
    Mutant('flag-never-set', 'R5', 'fire', _W,
           in_func('_ClosingIterator.close',
                   "            self._finalized = True\n", ""), 'flag'),
    Mutant('no-finalise-on-exhaustion', 'R5', 'fire', _W,
           in_func('_ClosingIterator.__next__',
                   "            self.close()\n", ""), 'exhaustion'),
    Mutant('early-close-in-rpc', 'R5', 'fire', _W,
           in_func('WsgiApplication.handle_rpc',
                   "        retval = _ClosingIterator(",
                   "        p_ctx.close()\n        retval = _ClosingIterator("
                   ), 'eager'),
    Mutant('finalize-closes-twice', 'R5', 'fire', _W,
           in_func('WsgiApplication.__finalize',
                   "        p_ctx.close()\n",
                   "        p_ctx.close()\n        p_ctx.close()\n"),
           'close-count'),
]
