"""C14 - event hooks fire in documented order, exactly once, on success and
failure."""
import ast

from ..core import (AnalysisError, dotted, unparse, calls_in, call_name,
                    walk_no_defs, parent, ancestors)
from ..flow import SeqFlow, RETURN, RAISE, PathExplosion, guards_at, \
    flatten_guards
from ..mutate import Mutant, in_func

ID = 'C14'
EXPLANATION = (
    'R1: all event sequences (sets of tuples over every normal and '
    'exceptional path, every call may raise after any prefix of its events) '
    'of Application.process_request, ServerBase.generate_contexts / '
    'get_in_object / finalize_context / get_out_object, '
    'WsgiApplication.handle_rpc / handle_error, MethodContext.__init__ / '
    'close are checked against the specification: method_call first, user '
    'code at most once and only after it, out_error written iff exactly one '
    'method_exception_object (or redirect exception) follows, '
    'method_return_object only after the user call, document then string '
    'event matching the out_error test, created last in the constructor, '
    'closed once. R2: ctx.function is called at most once per path and in no '
    'loop. R3: listener containers are ordered de-duplicating sets iterated '
    'directly. R4: inherited handler tables are fresh copies, never aliases. '
    'R5: application manager fires before the descriptor managers, service '
    'manager appended last. Not decided: listener exceptions inside '
    'third-party transports (reported as INFO for twisted/django/zeromq).')
ASSUMPTIONS = ['a listener may raise; any other call may raise',
               'events are identified by the literal name passed to '
               'fire_event']
LEVEL_TEXT = (
    'Static enumeration of every event sequence (including all exceptional '
    'edges) through the request pipeline functions, checked against the '
    'event specification automaton; plus container/ownership checks for '
    'listener ordering, de-duplication and inheritance. Decides exactly-once / '
    'ordering for every failure point inside the analysed functions.')
LEVEL_NOTE = ('Trusted: fire_event runs listeners synchronously; events are '
              'named by string literals; protocols do not fire pipeline '
              'events themselves.')
TECHNIQUE = ('syntax-directed event-sequence enumeration with exceptional '
             'edges vs. a specification automaton (ast)')

APP = 'spyne.application:Application'
SRV = 'spyne.server._base:ServerBase'
WSGI = 'spyne.server.wsgi:WsgiApplication'
CTX = 'spyne.context:MethodContext'

EXC_EVENTS = ('method_exception_object', 'method_redirect_exception')


def event_of(call):
    """('ctx'|'mgr', name) for fire_event calls with a literal name."""
    if call_name(call) != 'fire_event' or not call.args:
        return None
    a = call.args[0]
    if not (isinstance(a, ast.Constant) and isinstance(a.value, str)):
        return ('dyn', unparse(a))
    recv = dotted(call.func.value) if isinstance(call.func, ast.Attribute) \
        else ''
    if recv and recv.endswith('event_manager'):
        return ('mgr', a.value)
    return ('ctx', a.value)


def private_helper_inliner(prog, f):
    """Inline ``self._helper(...)`` calls to private methods of the same
    class (a check moved into a helper is the same check)."""
    cls = f.cls

    def inliner(call):
        if cls is None:
            return None
        fn = call.func
        if isinstance(fn, ast.Attribute) and dotted(fn.value) == 'self' and \
                fn.attr.startswith('_') and not fn.attr.endswith('__'):
            m = prog.find_method(cls, fn.attr)
            if m is not None and m is not f and m.cls is not None and \
                    m.module is f.module and \
                    (m.node.end_lineno - m.node.lineno) < 40:
                return m.node
        return None
    return inliner


def make_flow(user_calls=(), inline=(), track=('out_error',), assume=None,
              inliner=None):
    def classify(call):
        ev = event_of(call)
        if ev is not None:
            # a raising listener means the event did start firing
            if ev[0] == 'mgr':
                return ('T:' + ev[1],), 'after-first'
            if ev[0] == 'dyn':
                return ('E:?',), 'after-first'
            return (ev[1],), 'after-first'
        nm = call_name(call)
        d = dotted(call.func) or ''
        if nm in user_calls:
            return ('UF:' + nm,), True
        if nm in inline and d.startswith('self.'):
            return ('CALL:' + nm,), True
        if d.startswith('logger') or d.startswith('logging'):
            return (), False
        if isinstance(call.func, ast.Attribute) and nm in (
                'debug', 'info', 'warning', 'warn', 'error', 'exception',
                'critical') and isinstance(call.func.value, ast.Name) and (
                'log' in call.func.value.id or
                call.func.value.id.startswith('__inl')):
            # a logger reached through a local (e.g. chosen by a helper)
            return (), False
        if nm in ('isinstance', 'len', 'Fault', 'iter', 'isgenerator',
                  'get_fault_string_from_exception', 'startswith'):
            return (), False
        return (), True

    def on_stmt(s):
        if isinstance(s, ast.Assign):
            out = []
            for t in s.targets:
                if isinstance(t, ast.Attribute) and t.attr in track:
                    out.append('W:' + t.attr)
            return out
        return None
    return SeqFlow(classify, on_stmt=on_stmt, assume=assume, inliner=inliner)


def seqs_of(f, prog=None, **kw):
    if prog is not None:
        kw['inliner'] = private_helper_inliner(prog, f)
    sf = make_flow(**kw)
    try:
        out = sf.run(f.node)
    except PathExplosion as e:
        raise AnalysisError('C14 ' + f.qualname, 'path explosion %s' % e)
    return out, sf.nodes


def fmt(seq):
    return ' > '.join(seq) if seq else '(no events)'


def check_process_request(prog, res):
    f = prog.method(APP, 'process_request')
    seqs, nodes = seqs_of(f, prog, user_calls=('call_wrapper',))
    res.count('dataflow_nodes', nodes)
    rets = seqs.get(RETURN, set())
    res.count('cfg_paths', sum(len(v) for v in seqs.values()))
    res.floor('R1', 'process_request return sequences', len(rets), 5)
    where = f.where
    seen_ok = seen_exc = False
    for q in sorted(rets):
        ev = [e for e in q]
        problems = []
        names = [e for e in ev if not e.startswith('W:')]
        if names and names[0] != 'method_call':
            problems.append(('first', 'the first event is %s, not '
                             'method_call' % names[0]))
        uf = [i for i, e in enumerate(ev) if e.startswith('UF:')]
        if len(uf) > 1:
            problems.append(('user-twice', 'the user function wrapper is '
                             'called %d times on one path' % len(uf)))
        if uf and 'method_call' not in ev[:uf[0]]:
            problems.append(('user-before-call', 'the user function runs '
                             'before method_call fired'))
        if 'method_return_object' in ev:
            i = ev.index('method_return_object')
            if not any(j < i for j in uf):
                problems.append(('return-without-call', 'method_return_object '
                                 'fires without a preceding user call'))
        for name in ('method_return_object', 'method_exception_object',
                     'method_call', 'method_redirect'):
            if ev.count(name) > 1:
                problems.append(('dup:' + name, '%s fires %d times on one '
                                 'path' % (name, ev.count(name))))
        writes = [i for i, e in enumerate(ev) if e == 'W:out_error']
        if writes:
            seen_exc = True
            after = [e for e in ev[writes[-1] + 1:] if e in EXC_EVENTS]
            if len(after) != 1:
                problems.append(('error-no-event', 'out_error is set but %d '
                                 'exception-object events follow (need '
                                 'exactly one)' % len(after)))
            before = [e for e in ev[:writes[0]] if e in EXC_EVENTS]
            if before:
                problems.append(('event-before-error', 'an exception event '
                                 'fires before out_error is set'))
        else:
            if any(e in EXC_EVENTS for e in ev):
                problems.append(('event-no-error', 'an exception event fires '
                                 'although out_error was not set'))
            if names and names[-1] not in ('method_return_object',
                                           'method_redirect'):
                problems.append(('no-terminal', 'a path without error ends '
                                 'with %s instead of method_return_object' %
                                 names[-1]))
            if 'method_return_object' in ev:
                seen_ok = True
        if problems:
            for key, msg in problems:
                res.ob('R1', where, 'process_request: ' + fmt(q), 'VIOLATED')
                res.finding('R1', 'Application.process_request|%s' % key,
                            where, '%s on path [%s]' % (msg, fmt(q)))
        else:
            res.ob('R1', where, 'process_request: ' + fmt(q), 'ok')
    if not seen_ok:
        res.finding('R1', 'Application.process_request|no-success-path', where,
                    'no path fires method_return_object')
    if not seen_exc:
        res.finding('R1', 'Application.process_request|no-failure-path', where,
                    'no path records out_error')
    # raising exits: a failure outside the handlers must not have set
    # out_error silently
    for k, v in seqs.items():
        if k == RETURN:
            continue
        for q in sorted(v):
            if 'W:out_error' in q:
                # raised inside a handler after the fault was recorded (e.g.
                # a raising method_exception_object listener): outside the
                # property's failure points
                res.ob('R1', where, 'process_request raises with: ' + fmt(q),
                       'recorded', nontrivial=False)
                continue
            names = [e for e in q if not e.startswith('W:')]
            last = names[-1] if names else '(before method_call)'
            if not names:
                continue
            res.ob('R1', where, 'process_request lets an exception escape '
                   'after: ' + fmt(q), 'VIOLATED')
            res.finding('R1', 'Application.process_request|escape|%s' % last,
                        where, 'an exception raised at/after %s is not '
                        'funnelled into out_error + method_exception_object: '
                        'it escapes process_request on path [%s]' % (
                            last, fmt(q)))


def check_error_recorders(prog, res):
    for name in ('generate_contexts', 'get_in_object'):
        f = prog.method(SRV, name)
        seqs, nodes = seqs_of(f, prog, track=('out_error', 'in_error'))
        res.count('dataflow_nodes', nodes)
        rets = seqs.get(RETURN, set())
        n_err = 0
        for q in sorted(rets):
            ev = list(q)
            w = [i for i, e in enumerate(ev) if e == 'W:out_error']
            wi = [i for i, e in enumerate(ev) if e == 'W:in_error']
            fired = [i for i, e in enumerate(ev)
                     if e == 'method_exception_object']
            ok = True
            msg = None
            if w or wi:
                n_err += 1
                last = max(w + wi)
                if not w or not wi:
                    ok, msg = False, 'only one of in_error/out_error is set'
                elif len([i for i in fired if i > last]) != 1:
                    ok, msg = False, 'the fault is recorded but %d ' \
                        'method_exception_object events follow' % len(
                            [i for i in fired if i > last])
                elif [i for i in fired if i < last]:
                    ok, msg = False, 'method_exception_object fires before ' \
                        'the fault is recorded'
            elif fired:
                ok, msg = False, 'method_exception_object without a fault'
            res.ob('R1', f.where, '%s: %s' % (name, fmt(q)),
                   'ok' if ok else 'VIOLATED')
            if not ok:
                res.finding('R1', 'ServerBase.%s|%s' % (name, msg), f.where,
                            '%s on path [%s]' % (msg, fmt(q)))
        if n_err == 0:
            res.finding('R1', 'ServerBase.%s|no-fault-path' % name, f.where,
                        '%s has no path that records a Fault raised by the '
                        'protocol (in_error/out_error + '
                        'method_exception_object)' % name)
        # a Fault escaping un-recorded
        for k, v in seqs.items():
            if isinstance(k, tuple) and k[1] in ('Fault',):
                res.finding('R1', 'ServerBase.%s|fault-escapes' % name,
                            f.where, 'an explicit Fault escapes ' + name)


def check_finalize(prog, res):
    f = prog.method(SRV, 'finalize_context')

    def assume(test, pol, seq):
        t = unparse(test)
        if t in ('ctx.out_error is None', 'ctx.out_error is not None'):
            ok = pol if t.endswith('is None') else not pol
            tag = 'A:ok' if ok else 'A:err'
            other = 'A:err' if ok else 'A:ok'
            if other in seq:
                return False
            if tag in seq:
                return None
            return tag
        return None

    sf = make_flow(assume=assume)
    orig = sf.classify

    def classify(call):
        if call_name(call) == 'create_out_string':
            return ('COS',), True
        return orig(call)
    sf.classify = classify
    seqs = sf.run(f.node)
    rets = seqs.get(RETURN, set())
    want = {
        ('A:ok', 'method_return_document', 'COS', 'method_return_string'),
        ('A:err', 'method_exception_document', 'COS',
         'method_exception_string'),
    }
    got = set(rets)
    res.count('dataflow_nodes', sf.nodes)
    for q in sorted(got | want):
        if q in got and q in want:
            res.ob('R1', f.where, 'finalize_context: ' + fmt(q), 'ok')
        elif q in got:
            res.ob('R1', f.where, 'finalize_context: ' + fmt(q), 'VIOLATED')
            res.finding('R1', 'ServerBase.finalize_context|unexpected|%s' %
                        fmt(q), f.where, 'finalize_context has the event '
                        'sequence [%s]; allowed are document > '
                        'create_out_string > string for the matching '
                        'out_error state' % fmt(q))
        else:
            res.ob('R1', f.where, 'finalize_context: ' + fmt(q), 'VIOLATED')
            res.finding('R1', 'ServerBase.finalize_context|missing|%s' %
                        fmt(q), f.where, 'finalize_context has no path with '
                        'the sequence [%s]' % fmt(q))


def check_get_out_object(prog, res):
    f = prog.method(SRV, 'get_out_object')
    calls = [c for c in calls_in(f.node) if call_name(c) == 'process_request']
    res.floor('R1', 'process_request call in get_out_object', len(calls), 1)
    for c in calls:
        g = flatten_guards(guards_at(c, stop=f.node))
        ok = any(unparse(e) in ('ctx.in_error is None',) and pol or
                 unparse(e) in ('ctx.in_error is not None', 'ctx.in_error')
                 and not pol for e, pol in g)
        where = '%s:%d' % (f.module.relpath, c.lineno)
        res.ob('R1', where, 'get_out_object: process_request only when '
               'in_error is None', 'ok' if ok else 'VIOLATED')
        if not ok:
            res.finding('R1', 'ServerBase.get_out_object|unguarded', where,
                        'process_request (user code, method_call event) runs '
                        'although the request already carries in_error')
        for a in ancestors(c):
            if isinstance(a, (ast.For, ast.While)):
                res.finding('R1', 'ServerBase.get_out_object|loop', where,
                            'process_request is called in a loop')


def check_wsgi(prog, res):
    c = prog.cls(WSGI)
    herr = prog.find_method(c, 'handle_error')
    hrpc = prog.find_method(c, 'handle_rpc')
    if herr is None or hrpc is None:
        raise AnalysisError('WsgiApplication.handle_rpc/handle_error',
                            'not found')
    seqs, nodes = seqs_of(herr, prog)
    res.count('dataflow_nodes', nodes)
    for q in sorted(seqs.get(RETURN, set())):
        ok = q.count('T:wsgi_exception') == 1
        res.ob('R1', herr.where, 'handle_error: ' + fmt(q),
               'ok' if ok else 'VIOLATED')
        if not ok:
            res.finding('R1', 'WsgiApplication.handle_error|wsgi_exception',
                        herr.where, 'wsgi_exception fires %d times on path '
                        '[%s]' % (q.count('T:wsgi_exception'), fmt(q)))
    seqs, nodes = seqs_of(hrpc, prog, inline=('handle_error',))
    res.count('dataflow_nodes', nodes)
    rets = seqs.get(RETURN, set())
    res.floor('R1', 'handle_rpc return sequences', len(rets), 3)
    for q in sorted(rets):
        ev = list(q)
        problems = []
        if not ev or ev[0] != 'T:wsgi_call':
            problems.append(('wsgi_call', 'wsgi_call is not the first event'))
        ends = ev.count('T:wsgi_return') + ev.count('CALL:handle_error')
        if ends != 1:
            problems.append(('terminal', 'the path has %d of wsgi_return / '
                             'handle_error (need exactly one)' % ends))
        w = [i for i, e in enumerate(ev) if e == 'W:out_error']
        if w:
            after = ev[w[-1] + 1:]
            n = after.count('method_exception_object')
            herr_i = after.index('CALL:handle_error') if \
                'CALL:handle_error' in after else len(after)
            if n != 1 or 'method_exception_object' not in after[:herr_i]:
                problems.append(('error-no-event', 'out_error is set in '
                                 'handle_rpc without firing '
                                 'method_exception_object before the error '
                                 'is handled'))
        res.ob('R1', hrpc.where, 'handle_rpc: ' + fmt(q),
               'VIOLATED' if problems else 'ok')
        for key, msg in problems:
            res.finding('R1', 'WsgiApplication.handle_rpc|%s' % key,
                        hrpc.where, '%s on path [%s]' % (msg, fmt(q)))
    fin = c.methods.get('__finalize')
    if fin is not None:
        seqs, nodes = seqs_of(fin)
        for q in sorted(seqs.get(RETURN, set())):
            ok = q.count('T:wsgi_close') == 1
            res.ob('R1', fin.where, '__finalize: ' + fmt(q),
                   'ok' if ok else 'VIOLATED')
            if not ok:
                res.finding('R1', 'WsgiApplication.__finalize|wsgi_close',
                            fin.where, 'wsgi_close fires %d times' %
                            q.count('T:wsgi_close'))


def check_context(prog, res):
    init = prog.method(CTX, '__init__')
    last = init.node.body[-1]
    ok = isinstance(last, ast.Expr) and isinstance(last.value, ast.Call) and \
        event_of(last.value) == ('ctx', 'method_context_created')
    n = len([c for c in calls_in(init.node)
             if event_of(c) and event_of(c)[1] == 'method_context_created'])
    where = '%s:%d' % (init.module.relpath, last.lineno)
    res.ob('R1', where, 'MethodContext.__init__ fires method_context_created '
           'as its last statement (%d fire sites)' % n,
           'ok' if ok and n == 1 else 'VIOLATED')
    if not ok or n != 1:
        res.finding('R1', 'MethodContext.__init__|created-last', where,
                    'method_context_created must be fired exactly once, as '
                    'the last statement of the constructor (listeners must '
                    'see a fully built context and it must be the first '
                    'event)')
    close = prog.method(CTX, 'close')
    seqs, nodes = seqs_of(close, track=('is_closed',))
    for q in sorted(seqs.get(RETURN, set())):
        ok = q.count('T:method_context_closed') == 1 and \
            'W:is_closed' in q
        res.ob('R1', close.where, 'MethodContext.close: ' + fmt(q),
               'ok' if ok else 'VIOLATED')
        if not ok:
            res.finding('R1', 'MethodContext.close|closed-once', close.where,
                        'close() must fire method_context_closed exactly '
                        'once and mark the context closed; path [%s]' %
                        fmt(q))
    # nothing else fires these two events
    n_other = 0
    for f in prog.all_functions():
        if f in (init, close):
            continue
        for c in calls_in(f.node):
            ev = event_of(c)
            if ev and ev[1] in ('method_context_created',
                                'method_context_closed'):
                n_other += 1
                res.finding('R1', '%s|extra|%s' % (f.qualname, ev[1]),
                            '%s:%d' % (f.module.relpath, c.lineno),
                            '%s is also fired from %s' % (ev[1], f.qualname))
    res.ob('R1', 'spyne/**', 'no other site fires method_context_created/'
           'closed (%d)' % n_other, 'ok' if not n_other else 'VIOLATED')


def rule_r1(prog, res, tier):
    res.rule('R1', 'event sequences of the pipeline match the specification '
             'on every path')
    check_process_request(prog, res)
    check_error_recorders(prog, res)
    check_finalize(prog, res)
    check_get_out_object(prog, res)
    check_wsgi(prog, res)
    check_context(prog, res)
    if tier == 'thorough':
        # other transports: observations only
        for f in prog.all_functions():
            rel = f.module.relpath
            if not rel.startswith('spyne/server/') or rel in (
                    'spyne/server/wsgi.py', 'spyne/server/_base.py'):
                continue
            for n in walk_no_defs(f.node):
                if isinstance(n, ast.Assign) and any(
                        isinstance(t, ast.Attribute) and t.attr == 'out_error'
                        for t in n.targets):
                    blk = parent(n)
                    fired = False
                    for s in getattr(blk, 'body', []):
                        for c in calls_in(s):
                            ev = event_of(c)
                            if ev and ev[1] in EXC_EVENTS:
                                fired = True
                    if not fired:
                        res.note('%s (%s:%d) sets out_error without firing '
                                 'method_exception_object in the same block '
                                 '(transport outside the property\'s '
                                 'quantifier)' % (f.qualname, rel, n.lineno))


def rule_r2(prog, res):
    res.rule('R2', 'the user function is called at most once per path, '
             'never in a loop')
    sites = 0
    for fq, name in ((APP, 'call_wrapper'),
                     ('spyne.service:ServiceBaseBase', 'call_wrapper')):
        f = prog.method(fq, name)

        def classify(call):
            d = dotted(call.func)
            if d == 'ctx.function':
                return ('FN',), True
            if call_name(call) == 'call_wrapper':
                return ('FN',), True     # delegates the single call
            return (), True
        sf = SeqFlow(classify)
        seqs = sf.run(f.node)
        mx = max([q.count('FN') for q in seqs.get(RETURN, {()})] or [0])
        mn_any = any(q.count('FN') == 1 for q in seqs.get(RETURN, set()))
        for c in calls_in(f.node):
            if dotted(c.func) == 'ctx.function':
                sites += 1
                for a in ancestors(c):
                    if isinstance(a, (ast.For, ast.While, ast.ListComp,
                                      ast.GeneratorExp)):
                        res.finding('R2', '%s|loop' % f.qualname,
                                    '%s:%d' % (f.module.relpath, c.lineno),
                                    'ctx.function is called inside a loop')
        ok = mx <= 1 and mn_any
        res.ob('R2', f.where, '%s: user function called at most %d times per '
               'path' % (f.qualname, mx), 'ok' if ok else 'VIOLATED')
        if mx > 1:
            res.finding('R2', '%s|twice' % f.qualname, f.where,
                        'a path of %s calls the user function %d times' % (
                            f.qualname, mx))
        if not mn_any:
            res.finding('R2', '%s|never' % f.qualname, f.where,
                        'no path of %s calls the user function' % f.qualname)
    res.floor('R2', 'ctx.function call sites', sites, 2)


def rule_r3(prog, res):
    res.rule('R3', 'listeners are kept in ordered de-duplicating sets and '
             'run in registration order')
    em = 'spyne.evmgr:EventManager'
    add = prog.method(em, 'add_listener')
    fire = prog.method(em, 'fire_event')
    # container type
    ctors = [c for c in calls_in(add.node) if call_name(c) in (
        'oset', 'set', 'list', 'dict', 'frozenset', 'OrderedDict')]
    kinds = sorted({call_name(c) for c in ctors})
    ok = kinds == ['oset']
    res.ob('R3', add.where, 'add_listener builds containers with %s' % kinds,
           'ok' if ok else 'VIOLATED')
    if not ok:
        res.finding('R3', 'EventManager.add_listener|container|%s' % kinds,
                    add.where, 'listener container must be an oset (ordered, '
                    'de-duplicating); found %s' % kinds)
    adds = [c for c in calls_in(add.node) if call_name(c) in (
        'add', 'append', 'insert', 'extend')]
    ok = [call_name(c) for c in adds] == ['add']
    res.ob('R3', add.where, 'add_listener registers with %s' %
           [call_name(c) for c in adds], 'ok' if ok else 'VIOLATED')
    if not ok:
        res.finding('R3', 'EventManager.add_listener|register|%s' %
                    [call_name(c) for c in adds], add.where,
                    'handlers must be registered with oset.add (appends, '
                    'ignores duplicates)')
    # stored back
    stored = any(isinstance(n, ast.Assign) and isinstance(
        n.targets[0], ast.Subscript) and unparse(n.targets[0].value) ==
        'self.handlers' for n in walk_no_defs(add.node))
    res.ob('R3', add.where, 'add_listener stores the container back',
           'ok' if stored else 'VIOLATED')
    if not stored:
        res.finding('R3', 'EventManager.add_listener|not-stored', add.where,
                    'the handler set is not stored into self.handlers')
    # fire_event iterates directly
    loops = [n for n in walk_no_defs(fire.node) if isinstance(n, ast.For)]
    res.floor('R3', 'fire_event loops', len(loops), 1)
    for lp in loops:
        it = lp.iter
        bad = None
        if isinstance(it, ast.Call) and call_name(it) in (
                'set', 'sorted', 'reversed', 'frozenset'):
            bad = call_name(it)
        if isinstance(it, ast.Call) and call_name(it) == 'list' and it.args \
                and isinstance(it.args[0], ast.Call) and call_name(
                it.args[0]) in ('set', 'sorted', 'reversed'):
            bad = call_name(it.args[0])
        if isinstance(it, ast.Subscript) and isinstance(it.slice, ast.Slice):
            bad = 'slice ' + unparse(it.slice)
        where = '%s:%d' % (fire.module.relpath, lp.lineno)
        res.ob('R3', where, 'fire_event iterates %s' % unparse(it),
               'VIOLATED' if bad else 'ok')
        if bad:
            res.finding('R3', 'EventManager.fire_event|iteration|%s' % bad,
                        where, 'listeners are iterated through %s, which '
                        'loses registration order' % bad)
        # every handler is called once per iteration
        hc = [c for c in calls_in(lp) if isinstance(c.func, ast.Name) and
              isinstance(lp.target, ast.Name) and c.func.id == lp.target.id]
        if len(hc) != 1:
            res.finding('R3', 'EventManager.fire_event|calls|%d' % len(hc),
                        where, 'each listener must be called exactly once '
                        'per event; found %d calls in the loop' % len(hc))
        for s in lp.body:
            for n in ast.walk(s):
                if isinstance(n, (ast.Break, ast.Return)):
                    res.finding('R3', 'EventManager.fire_event|early-exit',
                                where, 'the listener loop can stop early')
        # default container when no listener is registered
    # oset keeps insertion order and ignores duplicates
    oset = prog.cls('spyne.util.oset:oset')
    oadd = oset.methods.get('add')
    oiter = oset.methods.get('__iter__')
    if oadd is None or oiter is None:
        raise AnalysisError('oset.add/__iter__', 'not found')
    g_ok = False
    for n in walk_no_defs(oadd.node):
        if isinstance(n, ast.If) and unparse(n.test) in (
                'key not in self.map', 'not key in self.map'):
            g_ok = True
    res.ob('R3', oadd.where, 'oset.add ignores keys already present',
           'ok' if g_ok else 'VIOLATED')
    if not g_ok:
        res.finding('R3', 'oset.add|dedup', oadd.where, 'oset.add does not '
                    'test membership first: a listener registered twice '
                    'would run twice')
    txt = unparse(oadd.node)
    tail_ok = 'end[PREV]' in txt and 'curr[NEXT] = end[PREV] =' in txt
    res.ob('R3', oadd.where, 'oset.add links the new key before the end '
           'sentinel (append)', 'ok' if tail_ok else 'VIOLATED')
    if not tail_ok:
        res.finding('R3', 'oset.add|append', oadd.where, 'oset.add no longer '
                    'appends at the tail of the linked list')
    itxt = unparse(oiter.node)
    it_ok = 'curr = end[NEXT]' in itxt and 'curr = curr[NEXT]' in itxt
    res.ob('R3', oiter.where, 'oset.__iter__ walks NEXT links from the '
           'sentinel', 'ok' if it_ok else 'VIOLATED')
    if not it_ok:
        res.finding('R3', 'oset.__iter__|order', oiter.where,
                    'oset.__iter__ does not walk the list front to back')


def rule_r4(prog, res):
    res.rule('R4', 'inherited listener tables are fresh copies, not aliases')
    em_init = prog.method('spyne.evmgr:EventManager', '__init__')
    st = [n for n in walk_no_defs(em_init.node) if isinstance(n, ast.Assign)
          and unparse(n.targets[0]) == 'self.handlers']
    res.floor('R4', 'EventManager.__init__ handlers store', len(st), 1)
    for n in st:
        v = n.value
        ok = isinstance(v, ast.Call) and call_name(v) in ('dict', 'copy',
                                                          'odict')
        where = '%s:%d' % (em_init.module.relpath, n.lineno)
        res.ob('R4', where, 'EventManager.__init__: self.handlers = %s' %
               unparse(v), 'ok' if ok else 'VIOLATED')
        if not ok:
            res.finding('R4', 'EventManager.__init__|alias|%s' % unparse(v),
                        where, 'the handlers mapping passed in is stored '
                        'without copying')
    meta = prog.cls('spyne.service:ServiceBaseMeta')
    g = meta.methods.get('__get_base_event_handlers')
    minit = meta.methods.get('__init__')
    if minit is None:
        raise AnalysisError('ServiceBaseMeta.__init__', 'not found')
    inlined = g is None
    if inlined:
        # the collector may live inside __init__ itself
        g = minit
    # the metaclass hands EventManager the result of the collector
    calls = [c for c in calls_in(minit.node) if call_name(c) ==
             'EventManager']
    ok = any(len(c.args) >= 2 and isinstance(c.args[1], ast.Call) and
             call_name(c.args[1]) == '__get_base_event_handlers'
             for c in calls)
    if inlined:
        local_dicts = {n_.targets[0].id for n_ in walk_no_defs(minit.node)
                       if isinstance(n_, ast.Assign) and isinstance(
                           n_.targets[0], ast.Name) and isinstance(
                           n_.value, ast.Dict) and not n_.value.keys}
        ok = any(len(c.args) >= 2 and isinstance(c.args[1], ast.Name) and
                 c.args[1].id in local_dicts for c in calls)
    res.ob('R4', minit.where, 'ServiceBaseMeta.__init__ seeds the manager '
           'from __get_base_event_handlers(bases)', 'ok' if ok else
           'VIOLATED')
    if not ok:
        res.finding('R4', 'ServiceBaseMeta.__init__|seed', minit.where,
                    'the service event manager is not seeded from the bases\' '
                    'handlers (listeners are not inherited) or is seeded '
                    'with a base\'s own table')
    # inside the collector: stored values are fresh osets
    fresh_vars = set()
    alias = []
    for n in walk_no_defs(g.node):
        if isinstance(n, ast.Assign) and isinstance(n.targets[0], ast.Name):
            v = n.value
            if isinstance(v, ast.Call) and call_name(v) == 'oset':
                fresh_vars.add(n.targets[0].id)
            if isinstance(v, ast.Call) and call_name(v) in (
                    'get', 'setdefault') and \
                    len(v.args) == 2 and isinstance(v.args[1], ast.Call) and \
                    call_name(v.args[1]) == 'oset' and \
                    dotted(v.func.value) == 'handlers':
                fresh_vars.add(n.targets[0].id)
            if isinstance(v, ast.Dict) and not v.keys:
                fresh_vars.add(n.targets[0].id)
    n_store = 0
    for n in walk_no_defs(g.node):
        if isinstance(n, ast.Assign) and isinstance(
                n.targets[0], ast.Subscript) and dotted(
                n.targets[0].value) == 'handlers':
            n_store += 1
            v = n.value
            ok = isinstance(v, ast.Name) and v.id in fresh_vars or (
                isinstance(v, ast.Call) and call_name(v) == 'oset')
            where = '%s:%d' % (g.module.relpath, n.lineno)
            res.ob('R4', where, 'collector stores %s' % unparse(v),
                   'ok' if ok else 'VIOLATED')
            if not ok:
                res.finding('R4', 'ServiceBaseMeta.__get_base_event_handlers'
                            '|alias|%s' % unparse(v), where, 'a base class\'s '
                            'own handler set is stored in the subclass table, '
                            'so listeners added to the subclass leak into '
                            'the base')
    # the other spelling of the store: handlers.setdefault(k, <set>)
    for c in calls_in(g.node):
        if call_name(c) == 'setdefault' and isinstance(
                c.func, ast.Attribute) and dotted(
                c.func.value) == 'handlers' and len(c.args) == 2:
            n_store += 1
            v = c.args[1]
            ok = isinstance(v, ast.Name) and v.id in fresh_vars or (
                isinstance(v, ast.Call) and call_name(v) == 'oset')
            where = '%s:%d' % (g.module.relpath, c.lineno)
            res.ob('R4', where, 'collector stores %s (setdefault)' %
                   unparse(v), 'ok' if ok else 'VIOLATED')
            if not ok:
                res.finding('R4', 'ServiceBaseMeta.__get_base_event_handlers'
                            '|alias|%s' % unparse(v), where, 'a base class\'s '
                            'own handler set is stored in the subclass table, '
                            'so listeners added to the subclass leak into '
                            'the base and its other subclasses')
    res.floor('R4', 'collector stores', n_store, 1)
    ret = [n for n in walk_no_defs(g.node) if isinstance(n, ast.Return)]
    for r in ret:
        ok = isinstance(r.value, ast.Name) and r.value.id in fresh_vars
        res.ob('R4', g.where, 'collector returns %s' % unparse(r.value),
               'ok' if ok else 'VIOLATED')
        if not ok:
            res.finding('R4', 'ServiceBaseMeta.__get_base_event_handlers|'
                        'return|%s' % unparse(r.value), g.where,
                        'the collector returns a mapping that is not its own '
                        'fresh dict')
    # handlers are added one by one in the base's order
    loops = [n for n in walk_no_defs(g.node) if isinstance(n, ast.For)]
    inner_ok = any(isinstance(lp.iter, ast.Name) and any(
        call_name(c) in ('add',) for c in calls_in(lp)) for lp in loops)
    if not inner_ok:
        # bulk form: <fresh oset>.extend(<base's set>), where oset.extend walks
        # its argument in order and de-duplicates
        ext = [c for c in calls_in(g.node) if call_name(c) == 'extend' and
               isinstance(c.func, ast.Attribute) and isinstance(
               c.func.value, ast.Name) and c.func.value.id in fresh_vars and
               len(c.args) == 1 and isinstance(c.args[0], ast.Name)]
        oc = prog.cls('spyne.util.oset:oset', required=False)
        oe = oc.methods.get('extend') if oc is not None else None
        walks = oe is not None and any(
            isinstance(lp, ast.For) and isinstance(lp.iter, ast.Name) and
            lp.iter.id in oe.params() and any(
                call_name(c) == 'add' or 'self.map' in unparse(c)
                for c in calls_in(lp)) or any(
                isinstance(x, ast.Compare) and 'self.map' in unparse(x)
                for x in ast.walk(lp))
            for lp in walk_no_defs(oe.node) if isinstance(lp, ast.For))
        inner_ok = bool(ext) and walks
    res.ob('R4', g.where, 'collector copies handlers in the base\'s order',
           'ok' if inner_ok else 'VIOLATED')
    if not inner_ok:
        res.finding('R4', 'ServiceBaseMeta.__get_base_event_handlers|copy',
                    g.where, 'handlers of the bases are not copied one by one '
                    'into the fresh set')


def rule_r5(prog, res):
    res.rule('R5', 'application manager fires first, then descriptor '
             'managers in order, service manager last')
    f = prog.method(CTX, 'fire_event')
    calls = [c for c in calls_in(f.node) if call_name(c) == 'fire_event']
    res.floor('R5', 'MethodContext.fire_event sites', len(calls), 2)
    first = calls[0] if calls else None
    ok = first is not None and dotted(first.func.value) == \
        'self.app.event_manager' and not any(
            isinstance(a, (ast.For, ast.While, ast.If)) for a in
            list(ancestors(first))[:3] if a is not f.node)
    res.ob('R5', f.where, 'MethodContext.fire_event: first fires %s' % (
        unparse(first.func.value) if first is not None else '-'),
        'ok' if ok else 'VIOLATED')
    if not ok:
        res.finding('R5', 'MethodContext.fire_event|app-first', f.where,
                    'the application event manager must fire first and '
                    'unconditionally')
    loops = [n for n in walk_no_defs(f.node) if isinstance(n, ast.For)]
    lok = False
    for lp in loops:
        it = lp.iter
        if isinstance(it, ast.Attribute) and it.attr == 'event_managers':
            inner = [c for c in calls_in(lp) if call_name(c) == 'fire_event']
            if len(inner) == 1 and lp.lineno > first.lineno:
                lok = True
        elif 'event_managers' in unparse(it):
            res.finding('R5', 'MethodContext.fire_event|order|%s' %
                        unparse(it), '%s:%d' % (f.module.relpath, lp.lineno),
                        'descriptor event managers are iterated through %s '
                        'instead of in list order' % unparse(it))
            lok = True
    res.ob('R5', f.where, 'descriptor managers fire in list order after the '
           'application manager', 'ok' if lok else 'VIOLATED')
    if not lok:
        res.finding('R5', 'MethodContext.fire_event|descriptor-managers',
                    f.where, 'the descriptor\'s event managers are not fired '
                    '(method and service level listeners never run)')
    # every call forwards the event name and the context
    for c in calls:
        a = [unparse(x) for x in c.args[:2]]
        if a != ['event', 'self']:
            res.finding('R5', 'MethodContext.fire_event|args|%s' % a,
                        '%s:%d' % (f.module.relpath, c.lineno),
                        'fire_event forwards %s instead of (event, self)' % a)
    d = prog.method('spyne.descriptor:MethodDescriptor', '__init__')
    apps = [c for c in calls_in(d.node) if isinstance(c.func, ast.Attribute)
            and unparse(c.func.value) == 'self.event_managers']
    ok = len(apps) == 1 and apps[0].func.attr == 'append' and \
        'service_class.event_manager' in unparse(apps[0].args[0])
    res.ob('R5', d.where, 'MethodDescriptor.__init__: %s' % (
        [unparse(c) for c in apps]), 'ok' if ok else 'VIOLATED')
    if not ok:
        res.finding('R5', 'MethodDescriptor.__init__|service-manager-last',
                    d.where, 'the service class event manager must be '
                    'appended (last) to the descriptor\'s managers exactly '
                    'once: %s' % [unparse(c) for c in apps])


# ------------------------------------------------------------------- R6
STATE_MUTATORS = ('add', 'discard', 'remove', 'append', 'pop', 'clear',
                  'update', 'setdefault', 'extend', 'insert', 'popitem')


def rule_r6(prog, res):
    res.rule('R6', 'delivering an event changes no state of the event '
             'manager (a raising listener cannot disable later deliveries)')
    em = prog.cls('spyne.evmgr:EventManager')
    f = em.methods.get('fire_event')
    if f is None:
        raise AnalysisError('EventManager.fire_event', 'not found')
    writes = []
    for n in walk_no_defs(f.node):
        if isinstance(n, (ast.Assign, ast.AugAssign, ast.Delete)):
            tg = n.targets if isinstance(n, (ast.Assign, ast.Delete)) else \
                [n.target]
            for t in tg:
                if unparse(t).startswith('self.'):
                    writes.append((n, unparse(t)))
        if isinstance(n, ast.Call) and isinstance(n.func, ast.Attribute) \
                and n.func.attr in STATE_MUTATORS and unparse(
                n.func.value).startswith('self.'):
            writes.append((n, unparse(n)[:40]))
    # writes undone in a finally clause of the same function are paired
    unpaired = []
    for n, txt in writes:
        in_finally = False
        cur = n
        while cur is not None and cur is not f.node:
            p_ = parent(cur)
            if isinstance(p_, ast.Try) and cur in p_.finalbody:
                in_finally = True
            cur = p_
        guarded = any(t.finalbody and any(
            isinstance(x, ast.Call) and isinstance(x.func, ast.Attribute) and
            x.func.attr in STATE_MUTATORS for fb in t.finalbody
            for x in ast.walk(fb))
            for t, region in __import__('sa.flow', fromlist=['x'])
            .enclosing_trys(n, stop=f.node) if region == 'body')
        # acquire; try: ... finally: release  (the write right before a try
        # whose finally clause touches the same attribute)
        following_try = False
        st = n
        while st is not None and not isinstance(st, ast.stmt):
            st = parent(st)
        blk = parent(st) if st is not None else None
        recv = None
        if isinstance(n, ast.Call) and isinstance(n.func, ast.Attribute):
            recv = unparse(n.func.value)
        for fld in ('body', 'orelse', 'finalbody'):
            lst = getattr(blk, fld, None)
            if isinstance(lst, list) and st in lst:
                i = lst.index(st)
                if i + 1 < len(lst) and isinstance(lst[i + 1], ast.Try) and \
                        lst[i + 1].finalbody and recv is not None and any(
                        isinstance(x, ast.Call) and isinstance(
                            x.func, ast.Attribute) and unparse(
                            x.func.value) == recv
                        for fb in lst[i + 1].finalbody
                        for x in ast.walk(fb)):
                    following_try = True
        if not in_finally and not guarded and not following_try:
            unpaired.append((n, txt))
    res.ob('R6', f.where, 'EventManager.fire_event: %d write(s) to manager '
           'state, %d not undone in a finally clause' % (len(writes),
                                                         len(unpaired)),
           'VIOLATED' if unpaired else 'ok')
    for n, txt in unpaired[:3]:
        res.finding('R6', 'EventManager.fire_event|state-write|%s' % txt,
                    '%s:%d' % (f.module.relpath, n.lineno),
                    'fire_event writes manager state (%s) that is not '
                    'restored in a finally clause: when a listener raises '
                    'the state stays behind, and later calls on the same '
                    'application no longer deliver that event (the user '
                    'function then runs without its method_call listeners)' %
                    txt)
    loops = [l_ for l_ in walk_no_defs(f.node) if isinstance(l_, ast.For)]
    res.floor('R6', 'delivery loops in fire_event', len(loops), 1)


def rule_r7(prog, res, tier):
    from . import c13, c10
    from ..report import Result
    txt = ('faults of the request phases are raised inside the funnel that '
           'fires the exception events (C13-R4 lazy refusal, C10-R1 '
           'recording handlers)')
    res.share('R7', txt, 'C13', c13.rule_r4, prog, Result)
    res.share('R7', txt, 'C10', c10.rule_r1, prog, Result, tier)


# ------------------------------------------------------------------- R8
def rule_r8(prog, res):
    res.rule('R8', 'listener containers are ordered everywhere in the event '
             'manager; nothing in call_wrapper can raise once the user '
             'function has returned')
    m = prog.module('spyne.evmgr')
    n = 0
    for f in m.functions.values():
        for x in walk_no_defs(f.node):
            unordered = isinstance(x, (ast.Set, ast.SetComp)) or (
                isinstance(x, ast.Call) and isinstance(x.func, ast.Name) and
                x.func.id in ('set', 'frozenset'))
            if isinstance(x, ast.Call) and isinstance(x.func, ast.Name) and \
                    x.func.id in ('oset', 'dict', 'set', 'frozenset', 'list'):
                n += 1
            if not unordered:
                continue
            where = '%s:%d' % (m.relpath, x.lineno)
            res.ob('R8', where, '%s builds %s' % (f.qualname,
                                                  unparse(x)[:40]),
                   'VIOLATED')
            res.finding('R8', '%s|unordered-container|%s' % (
                f.qualname, unparse(x)[:30]), where,
                '%s stores listeners in a plain set (%s): they still run '
                'once each but in hash order, so listeners inherited from a '
                'base service no longer run in registration order' % (
                    f.qualname, unparse(x)[:40]))
    res.floor('R8', 'container constructions in spyne.evmgr', n, 2)
    k = 0
    for cfq in ('spyne.service:ServiceBaseBase',):
        c = prog.cls(cfq, required=False)
        f = c.methods.get('call_wrapper') if c is not None else None
        if f is None:
            continue
        calls = [x for x in calls_in(f.node) if 'function' in unparse(x.func)
                 and unparse(x.func).startswith('ctx.')]
        if not calls:
            continue
        k += 1
        last = max(x.lineno for x in calls)
        later = [r for r in walk_no_defs(f.node) if isinstance(r, ast.Raise)
                 and r.lineno > last]
        wraps = [t for x in calls for t, region in enclosing_trys_(
            x, f.node) if region == 'body' and any(
            isinstance(y, ast.Raise) and y.exc is not None
            for h in t.handlers for y in ast.walk(h))]
        ok = not later and not wraps
        res.ob('R8', f.where, '%s: %d raise statement(s) after the user '
               'function call, %d converting handler(s) around it' % (
                   f.qualname, len(later), len(wraps)),
               'ok' if ok else 'VIOLATED')
        for r in later[:1]:
            res.finding('R8', '%s|raise-after-function' % f.qualname,
                        '%s:%d' % (f.module.relpath, r.lineno),
                        '%s raises (%s) after the user function has '
                        'returned normally: process_request then skips '
                        'method_return_object and fires the exception events '
                        'for a call whose function did return' % (
                            f.qualname, unparse(r)[:50]))
        for t in wraps[:1]:
            res.finding('R8', '%s|converting-handler' % f.qualname,
                        '%s:%d' % (f.module.relpath, t.lineno),
                        '%s wraps the user function in a handler that raises '
                        'a different exception: exceptions of the user\'s '
                        'own code are re-labelled before process_request '
                        'classifies them' % f.qualname)
    res.floor('R8', 'call_wrapper implementations', k, 1)


def enclosing_trys_(node, stop):
    from ..flow import enclosing_trys
    return enclosing_trys(node, stop=stop)


def rule_r9(prog, res):
    from . import c10
    from ..report import Result
    res.share('R9', 'a malformed envelope is refused with a Fault inside '
              'the funnel (C10-R11)', 'C10', c10.rule_r11, prog, Result)


# ------------------------------------------------------------------ R10
def rule_r10(prog, res):
    res.rule('R10', 'every spelling of the per-method event manager '
             'argument reaches the method: a branch that tests one spelling '
             'uses that spelling; fault serialisation cannot raise on plain '
             'fault codes (C09-R13)')
    d = prog.module('spyne.decorator')
    f = d.functions.get('_get_event_managers')
    if f is None:
        raise AnalysisError('_get_event_managers', 'not found')
    n = 0
    for t in walk_no_defs(f.node):
        if not isinstance(t, ast.If):
            continue
        c = t.test
        if not (isinstance(c, ast.Compare) and len(c.ops) == 1 and
                isinstance(c.ops[0], ast.IsNot) and
                isinstance(c.left, ast.Name) and
                isinstance(c.comparators[0], ast.Constant) and
                c.comparators[0].value is None):
            continue
        if not (len(t.body) == 1 and isinstance(t.body[0], ast.Assign)):
            continue
        n += 1
        rhs = {x.id for x in ast.walk(t.body[0].value)
               if isinstance(x, ast.Name)}
        ok = c.left.id in rhs
        where = '%s:%d' % (d.relpath, t.lineno)
        res.ob('R10', where, '_get_event_managers: under "%s" it stores %s' %
               (unparse(c), unparse(t.body[0])), 'ok' if ok else 'VIOLATED')
        if not ok:
            res.finding('R10', '_get_event_managers|tested-not-used|%s' %
                        c.left.id, where, 'the branch tests %s but stores '
                        '%s: the spelling that was actually passed is '
                        'dropped (or a missing one is used), so the managers '
                        'given with that keyword never see the method\'s '
                        'events' % (c.left.id, unparse(t.body[0].value)))
    res.floor('R10', 'spelling branches in _get_event_managers', n, 3)
    from . import c09
    from ..report import Result
    res.share('R10', 'fault serialisation cannot raise on plain fault codes '
              '(C09-R13)', 'C09', c09.rule_r13, prog, Result)
    from . import c13
    res.share('R10', 'user code run by the transport is funnelled into the '
              'exception events (C13-R11)', 'C13', c13.rule_r11, prog, Result)


# ------------------------------------------------------------------ R11
def rule_r11(prog, res):
    res.rule('R11', 'NullServer closes the context of a call that ends in a '
             'fault: the step that raises out_error to the caller is inside '
             'a handler (or finally) that closes the context')
    m = prog.module('spyne.server.null')
    f = m.functions.get('_FunctionCall.__call__')
    if f is None:
        raise AnalysisError('_FunctionCall.__call__', 'not found')
    calls = [c for c in calls_in(f.node) if call_name(c) == '_cb_sync']
    res.floor('R11', 'result callbacks in _FunctionCall.__call__', len(calls),
              1)
    for c in calls:
        closes = False
        p_ = c
        while p_ is not None and p_ is not f.node:
            par = getattr(p_, '_parent', None)
            if isinstance(par, ast.Try) and p_ in par.body:
                bodies = [h.body for h in par.handlers if h.type is None or
                          unparse(h.type) in ('Exception', 'BaseException',
                                              'Fault')] + [par.finalbody]
                for b in bodies:
                    if any(isinstance(x, ast.Call) and call_name(x) == 'close'
                           for st in b for x in ast.walk(st)):
                        closes = True
            p_ = par
        where = '%s:%d' % (m.relpath, c.lineno)
        res.ob('R11', where, 'the raising step %s' % (
            'is covered by a close()' if closes else 'skips the close()'),
            'ok' if closes else 'VIOLATED')
        if not closes:
            res.finding('R11', '_FunctionCall.__call__|fault-leaves-context-'
                        'open', where, '_cb_sync re-raises out_error before '
                        'the trailing p_ctx.close() is reached and nothing '
                        'closes the context on that path: '
                        'method_context_closed never fires for a call that '
                        'ends in a fault')


def rule_r12(prog, res):
    from . import c09, c10
    from ..report import Result
    from ..callgraph import CallGraph
    from ..excflow import ExcFlow
    res.share('R12', 'an abandoned response is cleared before the fault is '
              'serialised, so the document and string events of the fault '
              'fire (C09-R14)', 'C09', c09.rule_r14, prog, Result)
    ef = ExcFlow(prog, CallGraph(prog))
    res.share('R12', 'leaf readers raise Faults only: anything else leaves '
              'the transport without any exception event (C10-R3)', 'C10',
              c10.rule_r3, prog, Result, ef, 'quick')


def rule_r13(prog, res):
    from .. import guardspec
    res.rule('R13', 'a request phase that refuses the request does not '
             'produce a response body itself (transport.respond() sets '
             'out_string, after which the fault is never serialised and its '
             'document/string events never fire); the ordered set behind the '
             'listener lists relinks both neighbours of a removed entry')
    n = 0
    for c in prog.all_classes():
        if not c.module.relpath.startswith('spyne/protocol/'):
            continue
        for nm in ('create_in_document', 'decompose_incoming_envelope',
                   'deserialize', 'validate_document'):
            f = c.methods.get(nm)
            if f is None or f.cls is not c:
                continue
            n += 1
            for call in calls_in(f.node):
                if call_name(call) == 'respond' and isinstance(
                        call.func, ast.Attribute) and 'transport' in unparse(
                            call.func.value):
                    where = '%s:%d' % (f.module.relpath, call.lineno)
                    res.ob('R13', where, '%s calls %s' % (
                        f.qualname, unparse(call)[:50]), 'VIOLATED')
                    res.finding('R13', '%s|respond-in-request-phase' %
                                f.qualname, where, '%s answers through '
                                'transport.respond(), which also sets '
                                'ctx.out_string = []: get_out_string_pull '
                                'then returns before serialize() and '
                                'finalize_context(), so method_exception_'
                                'document and method_exception_string never '
                                'fire and the client gets an empty body' %
                                f.qualname)
    res.floor('R13', 'request-phase methods of the protocols', n, 10)
    o = prog.cls('spyne.util.oset:oset')
    d = o.methods.get('discard')
    if d is None:
        raise AnalysisError('oset.discard', 'not found')
    links = [a for a in walk_no_defs(d.node) if isinstance(a, ast.Assign) and
             isinstance(a.targets[0], ast.Subscript) and unparse(
                 a.targets[0].slice) in ('NEXT', 'PREV')]
    res.floor('R13', 'relinking stores in oset.discard', len(links), 2)
    for a in links:
        guardspec.check(res, 'R13', d, a, 'the relinking of a neighbour',
                        allowed=[('key in self.map', True)],
                        key='oset.discard|relink|%s' % unparse(
                            a.targets[0].slice))


def rule_r14(prog, res):
    res.rule('R14', 'a fault is serialized before anything is read from the '
             'method descriptor (faults raised before a method is picked '
             'have none); a bulk insert that handler merging relies on '
             'appends each key after the previous one')
    base = prog.cls('spyne.protocol._base:ProtocolMixin')
    n = 0
    for k in sorted(prog.subclasses(base), key=lambda c: c.name):
        if k.name in ('Csv', '_SpyneJsonRpc1'):
            continue        # outside the property's quantifier (see R1 notes)
        f = k.methods.get('serialize')
        if f is None or f.cls is not k:
            continue
        for a in walk_no_defs(f.node):
            if not (isinstance(a, ast.Attribute) and a.attr == 'descriptor'
                    and unparse(a.value) == 'ctx'):
                continue
            n += 1
            ok = False
            for e, pol in flatten_guards(guards_at(a, stop=f.node)):
                if isinstance(e, ast.Compare) and unparse(
                        e.left) == 'ctx.out_error' and isinstance(
                        e.comparators[0], ast.Constant) and \
                        e.comparators[0].value is None:
                    if (isinstance(e.ops[0], ast.IsNot) and not pol) or (
                            isinstance(e.ops[0], ast.Is) and pol):
                        ok = True
            where = '%s:%d' % (f.module.relpath, a.lineno)
            res.ob('R14', where, '%s.serialize reads ctx.descriptor %s' % (
                k.name, 'only when there is no fault' if ok else
                'before the fault branch'), 'ok' if ok else 'VIOLATED')
            if not ok:
                res.finding('R14', '%s.serialize|descriptor-before-fault' %
                            k.name, where, '%s.serialize reads ctx.descriptor '
                            'on a path where ctx.out_error may be set: for a '
                            'fault raised before a method was picked the '
                            'descriptor is None, serialization raises '
                            'AttributeError and method_exception_document / '
                            'method_exception_string never fire' % k.name)
    res.floor('R14', 'descriptor reads in serialize implementations', n, 10)
    # bulk insert
    oset = prog.cls('spyne.util.oset:oset')
    users = []
    for mod in ('spyne.service', 'spyne.evmgr'):
        m = prog.module(mod)
        for f in m.functions.values():
            for c in calls_in(f.node):
                if call_name(c) in ('extend', 'update') and isinstance(
                        c.func, ast.Attribute) and \
                        call_name(c) in oset.methods:
                    users.append((f, c))
    ext = oset.methods.get('extend')
    hoisted = None
    if ext is not None:
        for lp in walk_no_defs(ext.node):
            if isinstance(lp, ast.For):
                links = [a for a in ast.walk(lp) if isinstance(a, ast.Assign)
                         and any(unparse(t) == 'curr[NEXT]'
                                 for t in a.targets)]
                reload_ = [a for a in ast.walk(lp) if isinstance(
                    a, ast.Assign) and any(unparse(t) == 'curr'
                                           for t in a.targets)]
                if links and not reload_:
                    hoisted = lp
    res.ob('R14', ext.where if ext else oset.where, 'oset.extend %s; '
           'handler code calls it %d time(s)' % (
               'links every new key after a tail read once' if hoisted
               else 'reads the tail for each key', len(users)),
           'VIOLATED' if hoisted and users else 'ok')
    if hoisted and users:
        f, c = users[0]
        res.finding('R14', '%s|bulk-insert-loses-handlers' % f.qualname,
                    '%s:%d' % (f.module.relpath, c.lineno), '%s merges '
                    'handlers with oset.%s, which links every new key after '
                    'the node that was last before the call: only the last '
                    'inherited listener of an event stays reachable, the '
                    'others never run' % (f.qualname, call_name(c)))



class _LenToName(ast.NodeTransformer):
    """len(<expr containing key>) -> Name(var)"""
    def __init__(self, table):
        self.table = table

    def visit_Call(self, node):
        if isinstance(node.func, ast.Name) and node.func.id == 'len' and \
                node.args:
            t = unparse(node.args[0])
            for key, var in self.table:
                if key in t:
                    return ast.copy_location(ast.Name(id=var, ctx=ast.Load()),
                                             node)
        return self.generic_visit(node)


def rule_r15(prog, res):
    res.rule('R15', 'the msgpack-rpc envelope sizes that pass the size gate '
             'are the sizes the envelope reader unpacks: any other size is '
             'refused with a fault (whose events fire), not a ValueError '
             'from an unpacking assignment')
    import copy
    from ..constfold import try_fold
    k = prog.cls('spyne.protocol.msgpack:MessagePackRpc')
    cid = k.methods.get('create_in_document')
    dec = k.methods.get('decompose_incoming_envelope')
    if cid is None or dec is None:
        raise AnalysisError('MessagePackRpc envelope functions', 'not found')
    sizes = {len(a.targets[0].elts) for a in walk_no_defs(dec.node)
             if isinstance(a, ast.Assign) and isinstance(
                 a.targets[0], ast.Tuple) and
             unparse(a.value) == 'ctx.in_document'}
    n = 0
    for r in walk_no_defs(cid.node):
        if not isinstance(r, ast.Raise):
            continue
        conds = [(e, pol) for e, pol in flatten_guards(guards_at(
            r, stop=cid.node)) if 'len(ctx.in_document)' in unparse(e)]
        if not conds:
            continue
        n += 1
        passed = set()
        und = False
        for size in range(0, 9):
            raised = True
            for e, pol in conds:
                e2 = _LenToName([('in_document', '__n')]).visit(
                    copy.deepcopy(e))
                known, v = try_fold(prog, cid.module, e2, {'__n': size})
                if not known:
                    und = True
                elif bool(v) != pol:
                    raised = False
            if not raised:
                passed.add(size)
        where = '%s:%d' % (cid.module.relpath, r.lineno)
        if und:
            res.unclass('R15', where, 'envelope size gate not decidable')
            continue
        ok = bool(sizes) and passed <= sizes
        res.ob('R15', where, 'envelope sizes let through: %s; sizes unpacked: '
               '%s' % (sorted(passed), sorted(sizes)),
               'ok' if ok else 'VIOLATED')
        if not ok:
            res.finding('R15', 'MessagePackRpc.create_in_document|envelope-'
                        'size-gate|%s' % sorted(passed - sizes), where,
                        'envelopes of size %s pass the gate but '
                        'decompose_incoming_envelope unpacks %s names: the '
                        'ValueError is no Fault, so it leaves '
                        'generate_contexts and neither method_exception_* '
                        'nor method_context_closed fire' % (
                            sorted(passed - sizes), sorted(sizes)))
    res.floor('R15', 'envelope size gates in MessagePackRpc', n, 1)


def run(prog, res, tier):
    res.run_rule(rule_r1, prog, res, tier)
    res.run_rule(rule_r2, prog, res)
    res.run_rule(rule_r3, prog, res)
    res.run_rule(rule_r4, prog, res)
    res.run_rule(rule_r5, prog, res)
    res.run_rule(rule_r6, prog, res)
    res.run_rule(rule_r7, prog, res, tier)
    res.run_rule(rule_r8, prog, res)
    res.run_rule(rule_r9, prog, res)
    res.run_rule(rule_r10, prog, res)
    res.run_rule(rule_r11, prog, res)
    res.run_rule(rule_r12, prog, res)
    res.run_rule(rule_r13, prog, res)
    res.run_rule(rule_r14, prog, res)
    res.run_rule(rule_r15, prog, res)


_A = 'spyne/application.py'
_B = 'spyne/server/_base.py'
_W = 'spyne/server/wsgi.py'
_C = 'spyne/context.py'
_E = 'spyne/evmgr.py'
_S = 'spyne/service.py'
_D = 'spyne/descriptor.py'
_O = 'spyne/util/oset.py'

MUTANTS = [
    Mutant('inherit-setdefault-base-set', 'R4', 'fire', 'spyne/service.py',
           in_func('ServiceBaseMeta.__get_base_event_handlers',
                   "                handler = handlers.get(k, oset())\n",
                   "                handler = handlers.setdefault(k, v)\n"),
           'alias'),
    Mutant('inherit-setdefault-fresh-set', 'R4', 'benign', 'spyne/service.py',
           in_func('ServiceBaseMeta.__get_base_event_handlers',
                   "                handler = handlers.get(k, oset())\n",
                   "                handler = handlers.setdefault(k, oset())"
                   "\n"), None),
    Mutant('msgpack-envelope-of-two-passes', 'R15', 'fire',
           'spyne/protocol/msgpack.py',
           in_func('MessagePackRpc.create_in_document',
                   "if not (3 <= len(ctx.in_document) <= 4):",
                   "if not (2 <= len(ctx.in_document) < 5):"),
           'envelope-size-gate'),
    Mutant('msgpack-envelope-half-open', 'R15', 'twin',
           'spyne/protocol/msgpack.py',
           in_func('MessagePackRpc.create_in_document',
                   "if not (3 <= len(ctx.in_document) <= 4):",
                   "if not (3 <= len(ctx.in_document) < 5):"), None),
    Mutant('dict-fault-after-descriptor-read', 'R14', 'fire',
           'spyne/protocol/dictdoc/hier.py',
           in_func('HierDictDocument.serialize',
                   "        if ctx.out_error is not None:\n"
                   "            ctx.out_document = self._fault_to_doc("
                   "ctx.out_error)\n            return\n\n"
                   "        # get the result message\n",
                   "        # get the result message\n"),
           'descriptor-before-fault'),
    Mutant('handlers-merged-with-broken-extend', 'R14', 'fire',
           'spyne/service.py',
           in_func('ServiceBaseMeta',
                   "                for h in v:\n"
                   "                    handler.add(h)\n",
                   "                handler.extend(v)\n"),
           'bulk-insert-loses-handlers',
           also=[('spyne/util/oset.py',
                  in_func('oset.extend',
                          "        for key in keys:\n"
                          "            if key not in self.map:\n"
                          "                end = self.end\n"
                          "                curr = end[PREV]\n",
                          "        end = self.end\n"
                          "        curr = end[PREV]\n"
                          "        for key in keys:\n"
                          "            if key not in self.map:\n"))]),
    Mutant('handlers-merged-with-sound-extend', 'R14', 'twin',
           'spyne/service.py',
           in_func('ServiceBaseMeta',
                   "                for h in v:\n"
                   "                    handler.add(h)\n",
                   "                handler.extend(v)\n"), None),
    Mutant('refusal-through-respond', 'R13', 'fire',
           'spyne/protocol/soap/soap11.py',
           in_func('Soap11.create_in_document',
                   "ctx.transport.resp_code = HTTP_405",
                   "ctx.transport.respond(HTTP_405)"),
           'respond-in-request-phase'),
    Mutant('oset-tail-not-relinked', 'R13', 'fire', _O,
           in_func('oset.discard', "            next[PREV] = prev",
                   "            if next is not self.end:\n"
                   "                next[PREV] = prev"), 'relink'),
    Mutant('null-fault-leaves-context-open', 'R11', 'fire',
           'spyne/server/null.py',
           in_func('_FunctionCall.__call__',
                   "                        p_ctx.close()\n"
                   "                        raise\n",
                   "                        raise\n"),
           'fault-leaves-context-open'),
    Mutant('evmgrs-spelling-dropped', 'R10', 'fire', 'spyne/decorator.py',
           in_func('_get_event_managers',
                   "    elif _evmgrs is not None:\n        _event_managers = "
                   "_evmgrs",
                   "    elif _evmgr is not None:\n        _event_managers = "
                   "_evmgrs"), 'tested-not-used'),
    Mutant('handler-sets-copied-as-sets', 'R8', 'fire', 'spyne/evmgr.py',
           in_func('EventManager.__init__',
                   "self.handlers = dict(handlers)",
                   "self.handlers = dict((k, set(v)) for k, v in "
                   "handlers.items())"), 'unordered-container'),
    Mutant('arity-check-after-function', 'R8', 'fire', 'spyne/service.py',
           in_func('ServiceBaseBase.call_wrapper',
                   "            return ctx.function(*args)",
                   "            retval = ctx.function(*args)\n"
                   "            if retval is NotImplemented:\n"
                   "                raise TypeError(retval)\n"
                   "            return retval"), 'raise-after-function'),
    Mutant('reentrancy-guard-leaks', 'R6', 'fire', 'spyne/evmgr.py',
           in_func('EventManager.fire_event',
                   "        for handler in handlers:\n"
                   "            handler(ctx, *args, **kwargs)",
                   "        self._firing.add(event_name)\n"
                   "        for handler in handlers:\n"
                   "            handler(ctx, *args, **kwargs)\n"
                   "        self._firing.discard(event_name)"),
           'state-write'),
    Mutant('reentrancy-guard-in-finally', 'R6', 'benign', 'spyne/evmgr.py',
           in_func('EventManager.fire_event',
                   "        for handler in handlers:\n"
                   "            handler(ctx, *args, **kwargs)",
                   "        self._firing.add(event_name)\n"
                   "        try:\n"
                   "            for handler in handlers:\n"
                   "                handler(ctx, *args, **kwargs)\n"
                   "        finally:\n"
                   "            self._firing.discard(event_name)"), None),
    Mutant('drop-exception-object-in-except-exception', 'R1', 'fire', _A,
           in_func('Application.process_request',
                   r"(get_fault_string_from_exception\(e\)\)\n\n)"
                   r"            ctx\.fire_event\('method_exception_object'\)"
                   r"(\n\n    def|\n*$)", r"\1            pass\2",
                   regex=True), 'error-no-event'),
    Mutant('drop-exception-object-in-except-fault', 'R1', 'fire', _A,
           in_func('Application.process_request',
                   "            ctx.out_error = e\n\n            "
                   "ctx.fire_event('method_exception_object')",
                   "            ctx.out_error = e\n"), 'error-no-event'),
    Mutant('exception-event-before-error-set', 'R1', 'fire', _A,
           in_func('Application.process_request',
                   "            ctx.out_error = e\n\n            "
                   "ctx.fire_event('method_exception_object')",
                   "            ctx.fire_event('method_exception_object')\n"
                   "            ctx.out_error = e\n"), ''),
    Mutant('return-object-before-call', 'R1', 'fire', _A,
           in_func('Application.process_request',
                   "            ctx.fire_event('method_call')\n",
                   "            ctx.fire_event('method_call')\n"
                   "            ctx.fire_event('method_return_object')\n"),
           ''),
    Mutant('method-call-after-user-code', 'R1', 'fire', _A,
           in_func('Application.process_request',
                   r"            ctx\.fire_event\('method_call'\)\n(.*?)"
                   r"(            ctx\.out_object = self\.call_wrapper\(ctx\)\n)",
                   r"\1\2            ctx.fire_event('method_call')\n",
                   regex=True), ''),
    Mutant('user-code-twice', 'R1', 'fire', _A,
           in_func('Application.process_request',
                   "            ctx.out_object = self.call_wrapper(ctx)\n",
                   "            ctx.out_object = self.call_wrapper(ctx)\n"
                   "            if ctx.out_object is None:\n"
                   "                ctx.out_object = self.call_wrapper(ctx)\n"
                   ), 'user-twice'),
    Mutant('return-event-dropped', 'R1', 'fire', _A,
           in_func('Application.process_request',
                   "            ctx.fire_event('method_return_object')\n",
                   "            pass\n"), ''),
    Mutant('gen-contexts-no-event', 'R1', 'fire', _B,
           in_func('ServerBase.generate_contexts',
                   "            ctx.fire_event('method_exception_object')\n",
                   "            pass\n"), 'generate_contexts'),
    Mutant('get-in-object-double-event', 'R1', 'fire', _B,
           in_func('ServerBase.get_in_object',
                   "            ctx.fire_event('method_exception_object')",
                   "            ctx.fire_event('method_exception_object')\n"
                   "            ctx.fire_event('method_exception_object')"),
           'get_in_object'),
    Mutant('finalize-swapped-string-events', 'R1', 'fire', _B,
           in_func('ServerBase.finalize_context',
                   r"ctx\.fire_event\('method_return_string'\)(.*?)"
                   r"ctx\.fire_event\('method_exception_string'\)",
                   r"ctx.fire_event('method_exception_string')\1"
                   r"ctx.fire_event('method_return_string')", regex=True),
           'finalize_context'),
    Mutant('finalize-string-before-serialise', 'R1', 'fire', _B,
           in_func('ServerBase.finalize_context',
                   "        ctx.out_protocol.create_out_string(ctx)\n", "\n"),
           'finalize_context'),
    Mutant('user-code-on-in-error', 'R1', 'fire', _B,
           in_func('ServerBase.get_out_object',
                   r"        if ctx\.in_error is None:\n(.*?)"
                   r"            self\.app\.process_request\(ctx\)\n"
                   r"        else:\n            raise ctx\.in_error\n",
                   r"        self.app.process_request(ctx)\n", regex=True),
           'get_out_object'),
    Mutant('wsgi-serialise-failure-silent', 'R1', 'fire', _W,
           in_func('WsgiApplication.handle_rpc',
                   "            p_ctx.fire_event('method_exception_object')\n",
                   ""), 'handle_rpc'),
    Mutant('created-not-last', 'R1', 'fire', _C,
           in_func('MethodContext.__init__',
                   r'        self\.fire_event\("method_context_created"\)',
                   '        self.fire_event("method_context_created")\n'
                   '        self.call_start = time()', regex=True),
           'created-last'),
    Mutant('closed-twice', 'R1', 'fire', _C,
           in_func('MethodContext.close',
                   '        self.is_closed = True\n',
                   '        self.is_closed = True\n        self.app.'
                   'event_manager.fire_event("method_context_closed", self)\n'
                   ), 'closed-once'),
    Mutant('return-event-outside-try', 'R1', 'fire', _A,
           in_func('Application.process_request',
                   r"            ctx\.fire_event\('method_return_object'\)\n"
                   r"(.*)(\n    def |\Z)",
                   r"            pass\n\1\n        else:\n            "
                   r"ctx.fire_event('method_return_object')\n\2",
                   regex=True), 'escape'),
    Mutant('twin-fault-recording-helper', 'R1', 'benign', _B,
           in_func('ServerBase',
                   r"            ctx\.in_object = None\n            "
                   r"ctx\.in_error = e\n            ctx\.out_error = e\n\n"
                   r"            retval = \(ctx,\)\n\n            "
                   r"ctx\.fire_event\('method_exception_object'\)\n\n"
                   r"        return retval\n",
                   "            self._set_in_error(ctx, e)\n"
                   "            retval = (ctx,)\n\n        return retval\n\n"
                   "    def _set_in_error(self, ctx, e):\n"
                   "        ctx.in_object = None\n        ctx.in_error = e\n"
                   "        ctx.out_error = e\n"
                   "        ctx.fire_event('method_exception_object')\n",
                   regex=True), ''),
    Mutant('fault-recording-helper-wrong-manager', 'R1', 'fire', _B,
           in_func('ServerBase',
                   r"            ctx\.in_object = None\n            "
                   r"ctx\.in_error = e\n            ctx\.out_error = e\n\n"
                   r"            retval = \(ctx,\)\n\n            "
                   r"ctx\.fire_event\('method_exception_object'\)\n\n"
                   r"        return retval\n",
                   "            self._set_in_error(ctx, e)\n"
                   "            retval = (ctx,)\n\n        return retval\n\n"
                   "    def _set_in_error(self, ctx, e):\n"
                   "        ctx.in_object = None\n        ctx.in_error = e\n"
                   "        ctx.out_error = e\n"
                   "        self.app.event_manager.fire_event("
                   "'method_exception_object', ctx)\n",
                   regex=True), 'generate_contexts'),
    Mutant('twin-hoist-fault', 'R1', 'benign', _A,
           in_func('Application.process_request',
                   "            ctx.out_error = Fault('Server', "
                   "get_fault_string_from_exception(e))\n\n            "
                   "ctx.fire_event('method_exception_object')",
                   "            flt = Fault('Server', "
                   "get_fault_string_from_exception(e))\n"
                   "            ctx.out_error = flt\n            "
                   "ctx.fire_event('method_exception_object')"), ''),
    Mutant('fn-called-twice', 'R2', 'fire', _S,
           in_func('ServiceBaseBase.call_wrapper',
                   "            return ctx.function(*args)",
                   "            ctx.function(*args)\n"
                   "            return ctx.function(*args)"), 'twice'),
    Mutant('listeners-in-plain-set', 'R3', 'fire', _E,
           in_func('EventManager.add_listener',
                   "self.handlers.get(event_name, oset())",
                   "self.handlers.get(event_name, set())"), 'container'),
    Mutant('listeners-in-list', 'R3', 'fire', _E,
           in_func('EventManager.add_listener',
                   "        handlers = self.handlers.get(event_name, oset())\n"
                   "        handlers.add(handler)",
                   "        handlers = self.handlers.get(event_name, [])\n"
                   "        handlers.append(handler)"), ''),
    Mutant('fire-reversed', 'R3', 'fire', _E,
           in_func('EventManager.fire_event', "for handler in handlers:",
                   "for handler in reversed(handlers):"), 'iteration'),
    Mutant('fire-set', 'R3', 'fire', _E,
           in_func('EventManager.fire_event', "for handler in handlers:",
                   "for handler in set(handlers):"), 'iteration'),
    Mutant('oset-no-dedup', 'R3', 'fire', _O,
           in_func('oset.add', "        if key not in self.map:\n"
                   "            end = self.end",
                   "        if True:\n            end = self.end"), 'dedup'),
    Mutant('oset-iter-backwards', 'R3', 'fire', _O,
           in_func('oset.__iter__', "curr = end[NEXT]", "curr = end[PREV]"),
           'order'),
    Mutant('evmgr-alias', 'R4', 'fire', _E,
           in_func('EventManager.__init__', "self.handlers = dict(handlers)",
                   "self.handlers = handlers"), 'alias'),
    Mutant('inherit-alias-base-set', 'R4', 'fire', _S,
           in_func('ServiceBaseMeta.__get_base_event_handlers',
                   "                handler = handlers.get(k, oset())\n"
                   "                for h in v:\n"
                   "                    handler.add(h)\n"
                   "                handlers[k] = handler",
                   "                handlers[k] = v"), 'alias'),
    Mutant('no-inheritance', 'R4', 'fire', _S,
           in_func('ServiceBaseMeta.__init__',
                   r"EventManager\(self,\s*self\.__get_base_event_handlers"
                   r"\(cls_bases\)\)", "EventManager(self)", regex=True),
           'seed'),
    Mutant('service-manager-first', 'R5', 'fire', _D,
           in_func('MethodDescriptor.__init__',
                   "self.event_managers.append(self.service_class."
                   "event_manager)",
                   "self.event_managers.insert(0, self.service_class."
                   "event_manager)"), 'service-manager-last'),
    Mutant('descriptor-managers-reversed', 'R5', 'fire', _C,
           in_func('MethodContext.fire_event',
                   "for evmgr in desc.event_managers:",
                   "for evmgr in reversed(desc.event_managers):"), 'order'),
    Mutant('app-manager-last', 'R5', 'fire', _C,
           in_func('MethodContext.fire_event',
                   r"        self\.app\.event_manager\.fire_event\(event, "
                   r"self, \*args, \*\*kwargs\)\n(.*)$",
                   r"\1\n        self.app.event_manager.fire_event(event, "
                   r"self, *args, **kwargs)\n", regex=True), 'app-first'),
]
