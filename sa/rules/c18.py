"""C18 - calling a method through NullServer behaves like calling it over the
wire.  Finite-domain argument, not values."""
import ast
import itertools

from ..core import (AnalysisError, dotted, unparse, calls_in, call_name,
                    walk_no_defs, parent, ancestors, ClassInfo, FuncInfo)
from ..flow import guards_at, flatten_guards
from ..mutate import Mutant, in_func
from .. import guardspec

ID = 'C18'
EXPLANATION = (
    'R1 wrap/unwrap identity: the result-wrapping condition of '
    'Application.process_request and the unwrapping chain of '
    'NullServer._cb_sync are evaluated abstractly (the source conditions are '
    'interpreted, nothing is executed) over the finite domain body_style in '
    '{WRAPPED, BARE, OUT_BARE, EMPTY, EMPTY_OUT_BARE} x number of out members '
    'in {0, 1, >=2} x out message complex or not x {Ignored, other}; in every '
    'cell the direct caller must receive exactly the value the function '
    'returned (or None for an empty message). R2 argument packing: '
    'positional and keyword arguments fill the same index of the same '
    '_type_info ordering, keyword presence is decided by "is not None" (not '
    'truthiness), the bare style packs through get_serialization_instance. '
    'R3 faults are raised to the direct caller before the result is looked '
    'at. R4 every call builds its own method contexts. Not decided: equality '
    'with values decoded from a real wire path.')
ASSUMPTIONS = ['process_request wraps a result in a one-element list exactly '
               'under the condition read from its source',
               'a wrapped-style method with >=2 out members returns a '
               'sequence, any other method returns the value itself']
LEVEL_TEXT = (
    'Abstract interpretation of the wrap and unwrap conditions over the '
    'complete finite domain of body styles and result shapes (60 cells, '
    'exhaustive), plus structural checks of argument packing and fault '
    'delivery. Decides the shape-agreement clause for all signatures; values '
    'are not computed.')
LEVEL_NOTE = ('Trusted: the abstraction of isinstance/len tests on the '
              'result object described in DESIGN.md; descriptor predicates '
              'are folded from their source.')
TECHNIQUE = 'finite-domain abstract evaluation of source conditions (ast)'
EXHAUSTIVE = True

STYLES = ['BODY_STYLE_WRAPPED', 'BODY_STYLE_BARE', 'BODY_STYLE_OUT_BARE',
          'BODY_STYLE_EMPTY', 'BODY_STYLE_EMPTY_OUT_BARE']


class Unknown(Exception):
    pass


class Env(object):
    def __init__(self, prog, style, n_out, complex_, ignored, wrapped=None):
        self.prog = prog
        self.style = style
        self.n_out = n_out          # 0, 1, 2 (2 means >= 2)
        self.complex = complex_
        self.ignored = ignored
        self.wrapped = wrapped      # result wrapped in a 1-list by PR


def ev(env, e):
    """Abstract truth value of a condition."""
    if isinstance(e, ast.BoolOp):
        vals = []
        for v in e.values:
            x = ev(env, v)
            if isinstance(e.op, ast.And) and x is False:
                return False
            if isinstance(e.op, ast.Or) and x is True:
                return True
            vals.append(x)
        return isinstance(e.op, ast.And)
    if isinstance(e, ast.UnaryOp) and isinstance(e.op, ast.Not):
        return not ev(env, e.operand)
    if isinstance(e, ast.Compare) and len(e.ops) == 1:
        l, r, op = e.left, e.comparators[0], e.ops[0]
        lt = unparse(l)
        if lt.endswith('body_style'):
            if isinstance(op, (ast.Is, ast.Eq)):
                return unparse(r).split('.')[-1] == env.style
            if isinstance(op, (ast.IsNot, ast.NotEq)):
                return unparse(r).split('.')[-1] != env.style
            if isinstance(op, (ast.In, ast.NotIn)) and isinstance(
                    r, (ast.Tuple, ast.List, ast.Set)):
                inn = env.style in [unparse(x).split('.')[-1]
                                    for x in r.elts]
                return inn if isinstance(op, ast.In) else not inn
        if isinstance(l, ast.Call) and call_name(l) == 'len' and isinstance(
                r, ast.Constant) and isinstance(r.value, int):
            arg = unparse(l.args[0])
            if arg.endswith('out_message._type_info') or arg in (
                    'out_type_info',):
                if not env.complex:
                    raise Unknown('len of a primitive out message')
                n = env.n_out
                k = r.value
                # n == 2 stands for ">= 2": comparisons with k <= 2 are exact
                if k > 2:
                    raise Unknown('len compared with %d' % k)
                table = {ast.Eq: n == k, ast.NotEq: n != k, ast.Lt: n < k,
                         ast.LtE: n <= k, ast.Gt: n > k, ast.GtE: n >= k}
                if n == 2 and k == 2 and type(op) in (ast.Eq, ast.LtE,
                                                      ast.Gt, ast.NotEq):
                    raise Unknown('>=2 vs 2')
                if type(op) in table:
                    return table[type(op)]
            if arg.endswith('out_object'):
                # non-emptiness of the result sequence
                # (process_request always stores a one-or-more element
                # sequence before the callback runs)
                if (isinstance(op, (ast.Gt, ast.NotEq)) and r.value == 0) or (
                        isinstance(op, ast.GtE) and r.value == 1):
                    return True
                if (isinstance(op, (ast.Eq, ast.LtE)) and r.value == 0) or (
                        isinstance(op, ast.Lt) and r.value == 1):
                    return False
                raise Unknown('len(out_object)')
    if isinstance(e, ast.Call):
        nm = call_name(e)
        if nm == 'isinstance' and len(e.args) == 2:
            a = unparse(e.args[0])
            t = unparse(e.args[1])
            if a.endswith('out_object') and 'list' in t:
                if env.wrapped:
                    return True
                return not env.ignored      # a wrapped-style tuple result
            if a.endswith('out_object[0]') and 'Ignored' in t:
                if env.wrapped:
                    return env.ignored
                return False
            if a.endswith('out_object') and 'Ignored' in t:
                return env.ignored and not env.wrapped
        if nm == 'issubclass' and len(e.args) == 2 and 'out_message' in \
                unparse(e.args[0]) and 'ComplexModelBase' in unparse(
                e.args[1]):
            return env.complex
        if nm == 'is_out_bare':
            d = env.prog.method('spyne.descriptor:MethodDescriptor',
                                'is_out_bare')
            rets = [r for r in walk_no_defs(d.node) if isinstance(r,
                                                                  ast.Return)]
            if len(rets) != 1:
                raise Unknown('is_out_bare shape')
            return ev(env, rets[0].value)
    if isinstance(e, ast.Constant):
        return bool(e.value)
    raise Unknown(unparse(e)[:60])


def wrap_condition(prog):
    """The test under which process_request does out_object = [out_object]."""
    f = prog.method('spyne.application:Application', 'process_request')
    for n in walk_no_defs(f.node):
        if isinstance(n, ast.If):
            for s in n.body:
                if isinstance(s, ast.Assign) and unparse(s.targets[0]) == \
                        'ctx.out_object' and isinstance(s.value, ast.List) \
                        and len(s.value.elts) == 1 and unparse(
                        s.value.elts[0]) == 'ctx.out_object':
                    return f, n
    raise AnalysisError('Application.process_request', 'result wrapping '
                        'statement not found')


def unwrap_chain(prog):
    """[(test | None, form)] of _cb_sync with form in {'[0]','whole','None',
    expr text}."""
    m = prog.module('spyne.server.null')
    f = m.functions.get('_cb_sync')
    if f is None:
        raise AnalysisError('spyne.server.null:_cb_sync', 'not found')
    # the if/elif chain that assigns retval from ctx.out_object
    chain = None
    for n in walk_no_defs(f.node):
        if isinstance(n, ast.If) and any(
                isinstance(s, ast.Assign) and unparse(s.targets[0]) ==
                'retval' and 'out_object' in unparse(s.value)
                for s in n.body):
            if chain is None or n.lineno < chain.lineno:
                chain = n
    if chain is None:
        raise AnalysisError('_cb_sync', 'no unwrapping chain')
    out = []
    cur = chain
    while True:
        out.append((cur.test, _form(cur.body)))
        if len(cur.orelse) == 1 and isinstance(cur.orelse[0], ast.If):
            cur = cur.orelse[0]
            continue
        out.append((None, _form(cur.orelse)))
        break
    return f, chain, out


def _form(body):
    for s in body:
        if isinstance(s, ast.Assign) and unparse(s.targets[0]) == 'retval':
            t = unparse(s.value)
            if t == 'ctx.out_object[0]':
                return '[0]'
            if t == 'ctx.out_object':
                return 'whole'
            if t == 'None':
                return 'None'
            return t
    return 'None'


def rule_r1(prog, res):
    res.rule('R1', 'unwrapping in _cb_sync inverts the wrapping of '
             'process_request in every cell of the finite domain')
    pf, wif = wrap_condition(prog)
    cf, chain, branches = unwrap_chain(prog)
    cells = 0
    unknown = 0
    bad = []
    for style, n_out, complex_, ignored in itertools.product(
            STYLES, (0, 1, 2), (True, False), (False, True)):
        if style in ('BODY_STYLE_WRAPPED', 'BODY_STYLE_EMPTY') and \
                not complex_:
            continue        # the synthesised out message is always complex
        if not complex_ and n_out != 1:
            continue        # a primitive bare result is one value
        cells += 1
        env = Env(prog, style, n_out, complex_, ignored)
        try:
            env.wrapped = bool(ev(env, wif.test))
            form = None
            for test, fm in branches:
                if test is None or ev(env, test):
                    form = fm
                    break
        except Unknown as u:
            unknown += 1
            res.unclass('R1', cf.where, 'cell %s/%d/%s/%s: %s' % (
                style, n_out, complex_, ignored, u))
            continue
        if form == '[0]':
            ok = env.wrapped
            got = 'R' if ok else 'R[0]'
        elif form == 'whole':
            ok = not env.wrapped
            got = 'R' if ok else '[R]'
        elif form == 'None':
            ok = (n_out == 0 and complex_) and not ignored
            got = 'None'
        else:
            ok = None
            got = form
        cell = '%s n_out=%s complex=%s ignored=%s: wrapped=%s unwrap=%s -> '\
            'caller gets %s' % (style[11:], '>=2' if n_out == 2 else n_out,
                                complex_, ignored, env.wrapped, form, got)
        if ok is None:
            res.unclass('R1', cf.where, cell)
        elif ok:
            res.ob('R1', cf.where, cell, 'ok')
        else:
            res.ob('R1', cf.where, cell, 'VIOLATED')
            bad.append(cell)
    res.count('cells', cells)
    res.count('cells_unknown', unknown)
    for cell in bad[:6]:
        key = cell.split(':')[0]
        res.finding('R1', '_cb_sync|%s' % key, cf.where, 'NullServer hands '
                    'the direct caller a different shape than the function '
                    'returned: ' + cell)
    res.floor('R1', 'cells evaluated', cells - unknown, 30)
    # Ignored handling on the wire side: get_out_object maps it to empty
    srv = prog.method('spyne.server._base:ServerBase', 'get_out_object')
    stores = []
    for a_ in walk_no_defs(srv.node):
        if isinstance(a_, ast.Assign) and any(
                unparse(t_) == 'ctx.out_object' for t_ in a_.targets) and any(
                'Ignored' in tx and pol
                for tx, pol in guardspec.atoms_at(a_, srv.node)):
            stores.append(a_)

    def all_none(v):
        if isinstance(v, ast.BinOp) and isinstance(v.op, ast.Mult):
            return all_none(v.left)
        return isinstance(v, ast.Tuple) and len(v.elts) >= 1 and all(
            isinstance(e, ast.Constant) and e.value is None for e in v.elts)
    ok = len(stores) >= 2 and all(all_none(a_.value) for a_ in stores)
    res.ob('R1', srv.where, 'get_out_object sends an Ignored result as empty',
           'ok' if ok else 'VIOLATED')
    if not ok:
        res.finding('R1', 'ServerBase.get_out_object|ignored', srv.where,
                    'an Ignored return value is no longer replaced by a '
                    'non-empty tuple of Nones on the wire path (an empty '
                    'tuple is indexed by the transport and the serializers: '
                    'StopIteration / IndexError out of the request)')


def rule_r2(prog, res):
    res.rule('R2', 'positional and keyword arguments fill the declared '
             'slots; presence is "is not None"')
    m = prog.module('spyne.server.null')
    f = m.functions.get('_FunctionCall.__call__')
    if f is None:
        raise AnalysisError('_FunctionCall.__call__', 'not found')
    stores = [n for n in walk_no_defs(f.node) if isinstance(n, ast.Assign)
              and unparse(n.targets[0]).startswith('ctx.in_object[')]
    res.floor('R2', 'in_object slot stores', len(stores), 2)
    pos_ok = kw_ok = False
    for s in stores:
        idx = unparse(s.targets[0].slice)
        v = unparse(s.value)
        where = '%s:%d' % (m.relpath, s.lineno)
        lp0 = next((a for a in ancestors(s) if isinstance(a, ast.For)), None)
        it0 = unparse(lp0.iter).replace(' ', '') if lp0 is not None else ''
        if it0 == 'enumerate(args)' and isinstance(
                lp0.target, ast.Tuple) and len(lp0.target.elts) == 2:
            # for i, arg in enumerate(args): in_object[i] = arg
            i0, a0 = [unparse(e) for e in lp0.target.elts]
            if v == a0:
                v = 'args[%s]' % i0
        if v.startswith('args['):
            ok = v == 'args[%s]' % idx
            pos_ok = pos_ok or ok
            res.ob('R2', where, 'positional: in_object[%s] = %s' % (idx, v),
                   'ok' if ok else 'VIOLATED')
            if not ok:
                res.finding('R2', '_FunctionCall.__call__|positional|%s' % v,
                            where, 'positional argument %s stored at index '
                            '%s' % (v, idx))
        else:
            # keyword value: the loop enumerates _type_info keys
            lp = None
            for a in ancestors(s):
                if isinstance(a, ast.For):
                    lp = a
                    break
            it = unparse(lp.iter) if lp is not None else ''
            order_ok = it.replace(' ', '') in (
                'enumerate(_type_info.keys())', 'enumerate(_type_info)')
            g = flatten_guards(guards_at(s, stop=f.node))
            present = None
            for e, pol in g:
                t = unparse(e)
                if pol and (t == '%s is not None' % v or
                            (t.endswith('in kwargs'))):
                    present = 'ok'
                elif pol and (t == v or t.startswith('kwargs.get(')):
                    present = 'truthy'
            res.ob('R2', where, 'keyword: in_object[%s] = %s while iterating '
                   '%s, presence test %s' % (idx, v, it, present),
                   'ok' if order_ok and present == 'ok' else 'VIOLATED')
            if not order_ok:
                res.finding('R2', '_FunctionCall.__call__|keyword-order|%s' %
                            it, where, 'keyword arguments are matched against '
                            '%s, not the declared _type_info order' % it)
            if present == 'truthy':
                res.finding('R2', '_FunctionCall.__call__|keyword-truthiness',
                            where, 'a keyword argument is used only when it '
                            'is truthy: 0, False, "" and [] passed by keyword '
                            'are dropped (the wire path delivers them)')
            elif present is None:
                res.finding('R2', '_FunctionCall.__call__|keyword-presence',
                            where, 'keyword arguments overwrite positional '
                            'ones unconditionally (absent keywords store '
                            'None)')
            kw_ok = kw_ok or (order_ok and present == 'ok')
    # slots are sized by the declared in-message
    inits = [n for n in walk_no_defs(f.node) if isinstance(n, ast.Assign)
             and unparse(n.targets[0]) == 'ctx.in_object' and (
                 'len(_type_info)' in unparse(n.value) or (
                     isinstance(n.value, ast.ListComp) and
                     '_type_info' in unparse(n.value.generators[0].iter)))]
    sized = bool(inits)
    for n in inits:
        elt_txt = unparse(n.value.elt) if isinstance(
            n.value, ast.ListComp) else ''
        if isinstance(n.value, ast.ListComp) and isinstance(
                n.value.elt, ast.Call) and isinstance(
                n.value.elt.func, ast.Name):
            helper = m.functions.get(n.value.elt.func.id) or \
                m.functions.get(f.qualname + '.' + n.value.elt.func.id)
            if helper is not None:
                elt_txt += ' ' + unparse(helper.node)
        dflt = '.default' in elt_txt.replace('.default_factory', '')
        fac = 'default_factory' in elt_txt
        if dflt:
            res.ob('R2', '%s:%d' % (m.relpath, n.lineno), 'omitted arguments '
                   '%s their default_factory' % ('get the value of' if fac
                                                 else 'ignore'),
                   'ok' if fac else 'VIOLATED')
            if not fac:
                res.finding('R2', '_FunctionCall.__call__|default-factory-'
                            'ignored', '%s:%d' % (m.relpath, n.lineno),
                            'the argument slots start from Attributes.default '
                            'only: Integer(default_factory=lambda: 5) omitted '
                            'gives None through NullServer while every wire '
                            'protocol applies the factory '
                            '(_set_member_default)')
        res.ob('R2', '%s:%d' % (m.relpath, n.lineno), 'omitted arguments '
               'start as %s' % unparse(n.value)[:50],
               'ok' if dflt else 'VIOLATED')
        if not dflt:
            res.finding('R2', '_FunctionCall.__call__|defaults',
                        '%s:%d' % (m.relpath, n.lineno), 'the argument slots '
                        'start as None instead of the declared defaults: '
                        'search(query) with limit=Integer(default=10) calls '
                        'the function with limit=None, every wire protocol '
                        'with limit=10')
    res.ob('R2', f.where, 'in_object has one slot per declared argument',
           'ok' if sized else 'VIOLATED')
    if not sized:
        res.finding('R2', '_FunctionCall.__call__|slots', f.where,
                    'ctx.in_object is not sized by the in-message type info')
    ti = [n for n in walk_no_defs(f.node) if isinstance(n, ast.Assign) and
          unparse(n.targets[0]) == '_type_info']
    srcs = [unparse(n.value) for n in ti]
    ok = any(v in ('ctx.descriptor.in_message._type_info',
                   'in_message._type_info') for v in srcs) and any(
        'get_flat_type_info' in v for v in srcs)
    res.ob('R2', f.where, '_type_info is the in-message field table',
           'ok' if ok else 'VIOLATED')
    if not ok:
        res.finding('R2', '_FunctionCall.__call__|type-info', f.where,
                    'arguments are not packed against the in-message field '
                    'table including the fields of its parents '
                    '(get_flat_type_info): %s - for a bare method whose '
                    'argument class has a parent the values land in the '
                    'wrong fields' % srcs)
    # bare style packs through get_serialization_instance
    bare = [n for n in walk_no_defs(f.node) if isinstance(n, ast.If) and
            'BODY_STYLE_BARE' in unparse(n.test)]
    ok = any('get_serialization_instance(ctx.in_object)' in unparse(b)
             for b in bare)
    res.ob('R2', f.where, 'bare style packs the arguments with '
           'get_serialization_instance', 'ok' if ok else 'VIOLATED')
    if not ok:
        res.finding('R2', '_FunctionCall.__call__|bare-packing', f.where,
                    'the bare body style no longer builds the single '
                    'argument through get_serialization_instance')
    # process_request re-wraps bare input consistently
    pr = prog.method('spyne.application:Application', 'process_request')
    t = unparse(pr.node)
    ok = 'ctx.in_object = [ctx.in_object]' in t
    res.ob('R2', pr.where, 'process_request wraps the bare argument in a '
           'list', 'ok' if ok else 'VIOLATED')
    if not ok:
        res.finding('R2', 'Application.process_request|bare-wrap', pr.where,
                    'the bare input object is not wrapped into the argument '
                    'list')


def rule_r3(prog, res):
    res.rule('R3', 'faults are raised to the direct caller before the result '
             'is used; each call has its own contexts')
    m = prog.module('spyne.server.null')
    f = m.functions['_cb_sync']
    first = [s for s in f.node.body if not isinstance(s, ast.Assign)]
    ok = bool(first) and isinstance(first[0], ast.If) and \
        'out_error' in unparse(first[0].test) and any(
            isinstance(s, ast.Raise) and 'out_error' in unparse(s)
            for s in first[0].body)
    res.ob('R3', f.where, '_cb_sync raises ctx.out_error first',
           'ok' if ok else 'VIOLATED')
    if not ok:
        res.finding('R3', '_cb_sync|fault-first', f.where, 'the recorded '
                    'fault is not raised before the result is looked at')
    # every read of out_object is on the no-error side
    for n in walk_no_defs(f.node):
        if isinstance(n, ast.Attribute) and n.attr == 'out_object' and \
                isinstance(n.ctx, ast.Load):
            g = flatten_guards(guards_at(n, stop=f.node))
            ok = any(unparse(e).endswith('out_error') and not pol
                     for e, pol in g)
            if not ok:
                res.finding('R3', '_cb_sync|result-with-fault',
                            '%s:%d' % (m.relpath, n.lineno),
                            'ctx.out_object is read on a path where '
                            'out_error may be set')
                break
    # contexts are generated per call
    call = m.functions['_FunctionCall.__call__']
    gen = [n for n in walk_no_defs(call.node) if isinstance(n, ast.Assign)
           and isinstance(n.value, ast.Call) and call_name(n.value) ==
           'generate_method_contexts']
    loops = [n for n in walk_no_defs(call.node) if isinstance(n, ast.For) and
             'contexts' in unparse(n.iter)]
    ok = bool(gen) and all(isinstance(t, ast.Name) for g_ in gen
                           for t in g_.targets) and all(
        'self.' not in unparse(l.iter) for l in loops)
    res.ob('R3', call.where, 'every call generates fresh method contexts',
           'ok' if ok else 'VIOLATED')
    if not ok:
        res.finding('R3', '_FunctionCall.__call__|contexts-reused',
                    call.where, 'method contexts are kept on the call handle '
                    'and reused: a fault recorded by one call (out_error is '
                    'never cleared) is raised again by the next successful '
                    'call through the same handle')
    newctx = [c for c in calls_in(call.node) if call_name(c) ==
              'MethodContext']
    res.ob('R3', call.where, 'every call creates its MethodContext (%d)' %
           len(newctx), 'ok' if newctx else 'VIOLATED')
    if not newctx:
        res.finding('R3', '_FunctionCall.__call__|context-reused', call.where,
                    'the initial MethodContext is not created per call')


# ------------------------------------------------------------------- R4
def rule_r4(prog, res):
    res.rule('R4', 'only the primary context\'s result and fault reach the '
             'caller; only generated messages are marked as wrappers')
    f = prog.cls('spyne.server.null:_FunctionCall').methods.get('__call__')
    if f is None:
        raise AnalysisError('_FunctionCall.__call__', 'not found')
    n = 0
    for c in calls_in(f.node):
        is_cb = call_name(c) in ('_cb_sync', '_cb_async') or (
            call_name(c) == 'addCallback' and c.args and
            unparse(c.args[0]) in ('_cb_sync', '_cb_async'))
        if not is_cb:
            continue
        n += 1
        atoms = guardspec.atoms_at(c, f.node)
        ok = ('cnt == 0', True) in atoms
        where = '%s:%d' % (f.module.relpath, c.lineno)
        res.ob('R4', where, '_FunctionCall.__call__: %s under %s' % (
            unparse(c)[:40], ['%s%s' % ('' if p_ else 'not ', t)
                              for t, p_ in atoms]),
            'ok' if ok else 'VIOLATED')
        if not ok:
            res.finding('R4', '_FunctionCall.__call__|callback-for-aux|%s' %
                        call_name(c), where,
                        '%s runs for contexts other than the first (it is '
                        'not under "cnt == 0"): the result handler raises '
                        'ctx.out_error, so a fault of an auxiliary method '
                        'propagates to the caller of the primary method, '
                        'and an auxiliary result can replace the primary '
                        'one' % unparse(c)[:40])
    res.floor('R4', 'result callbacks in _FunctionCall.__call__', n, 2)
    m = prog.module('spyne.decorator')
    k = 0
    for g in m.functions.values():
        for a in walk_no_defs(g.node):
            if not (isinstance(a, ast.Assign) and any(
                    unparse(t).endswith('Attributes._wrapper')
                    for t in a.targets) and isinstance(
                    a.value, ast.Constant) and a.value.value is True):
                continue
            k += 1
            atoms = guardspec.atoms_at(a, g.node)
            # bare messages are the user's own type, customized: the mark
            # must be unreachable for them
            excl = any((not pol) and ("'bare'" in t or 'BARE' in t)
                       for t, pol in atoms) or any(
                pol and ("'wrapped'" in t or 'WRAPPED' in t or
                         ".endswith('bare')" in t and t.startswith('not '))
                for t, pol in atoms)
            # input messages are always generated (produce), whatever the
            # style: only marks on values that can be the user's class count
            src = [x.value for x in walk_no_defs(g.node)
                   if isinstance(x, ast.Assign) and any(
                       isinstance(t, ast.Name) and t.id == 'message'
                       for t in x.targets)]
            user_type = any(isinstance(v, ast.Call) and call_name(v) ==
                            'customize' for v in src)
            ok = excl or not user_type
            where = '%s:%d' % (m.relpath, a.lineno)
            res.ob('R4', where, '%s: _wrapper = True under %s (message may '
                   'be the declared return type: %s)' % (
                       g.qualname, ['%s%s' % ('' if p_ else 'not ', t)
                                    for t, p_ in atoms], user_type),
                   'ok' if ok else 'VIOLATED')
            if not ok:
                res.finding('R4', '%s|wrapper-mark-on-bare' % g.qualname,
                            where, '%s marks the message as a wrapper on a '
                            'path where it is the customized return type of '
                            'a bare method: protocols that skip wrappers '
                            'then drop that object\'s own level, and the '
                            'in-process caller receives its first member '
                            'instead of the object' % g.qualname)
    res.floor('R4', 'wrapper marks in the decorator', k, 1)


# ------------------------------------------------------------------- R5
def rule_r5(prog, res):
    res.rule('R5', 'the value the user function returned reaches the caller '
             'untouched: only wrapped in a list, never iterated, converted '
             'or registered for clean-up')
    app = prog.method('spyne.application:Application', 'process_request')
    n = 0
    for a in walk_no_defs(app.node):
        if not (isinstance(a, ast.Assign) and any(
                unparse(t) == 'ctx.out_object' for t in a.targets)):
            continue
        n += 1
        v = a.value
        ok = (isinstance(v, ast.Call) and call_name(v) in ('call_wrapper',)) \
            or (isinstance(v, ast.List) and len(v.elts) == 1 and
                unparse(v.elts[0]) == 'ctx.out_object') or (
                isinstance(v, ast.Constant)) or (
                isinstance(v, (ast.List, ast.Tuple)) and all(
                    isinstance(e, ast.Constant) for e in v.elts))
        where = '%s:%d' % (app.module.relpath, a.lineno)
        res.ob('R5', where, 'process_request: ctx.out_object = %s' %
               unparse(v)[:50], 'ok' if ok else 'VIOLATED')
        if not ok:
            res.finding('R5', 'Application.process_request|result-touched|%s'
                        % unparse(v)[:40], where, 'process_request rebuilds '
                        'the result as %s: an Ignored marker, a generator or '
                        'any non-sequence result is iterated/converted (or '
                        'raises) here, so the in-process caller and the wire '
                        'see different outcomes' % unparse(v)[:60])
    res.floor('R5', 'assignments to ctx.out_object in process_request', n, 2)
    k = 0
    for cfq in ('spyne.service:ServiceBaseBase', 'spyne.service:ServiceBase',
                'spyne.application:Application'):
        c = prog.cls(cfq, required=False)
        f = c.methods.get('call_wrapper') if c is not None else None
        if f is None:
            continue
        k += 1
        results = {t.id for a in walk_no_defs(f.node) if isinstance(
            a, ast.Assign) and isinstance(a.value, ast.Call) and (
            'function' in unparse(a.value.func))
            for t in a.targets if isinstance(t, ast.Name)}
        bad = []
        for c_ in calls_in(f.node):
            if isinstance(c_.func, ast.Attribute) and c_.func.attr in (
                    'append', 'add', 'extend', 'insert') and unparse(
                    c_.func.value).startswith('ctx.') and any(
                    isinstance(x, ast.Name) and x.id in results
                    for arg in c_.args for x in ast.walk(arg)):
                bad.append(c_)
        res.ob('R5', f.where, '%s: the function result is %s' % (
            f.qualname, 'registered with %s' % unparse(bad[0])[:40] if bad
            else 'returned without being stored on the context'),
            'VIOLATED' if bad else 'ok')
        for c_ in bad:
            res.finding('R5', '%s|result-registered|%s' % (
                f.qualname, unparse(c_.func.value)),
                '%s:%d' % (f.module.relpath, c_.lineno),
                '%s stores the function\'s result in %s: NullServer closes '
                'the context (and everything registered on it) before it '
                'returns the value, so a generator result reaches the direct '
                'caller already closed, while every wire protocol still '
                'delivers its items' % (f.qualname, unparse(c_.func.value)))
    res.floor('R5', 'call_wrapper implementations', k, 1)


def rule_r6(prog, res):
    from . import c02
    from ..report import Result
    res.share('R6', 'a result holding one object twice is written twice on '
              'the wire (C02-R6 cycle guard by copy)', 'C02', c02.rule_r6,
              prog, Result)


# ------------------------------------------------------------------- R7
def rule_r7(prog, res):
    res.rule('R7', 'the all-missing argument list is built only when the '
             'request has no body element at all; any body element, even a '
             'childless one, is read with the declared class')
    n = 0
    for cn in ('spyne.protocol.xml:XmlDocument',
               'spyne.protocol.soap.soap11:Soap11',
               'spyne.protocol.json:_SpyneJsonRpc1'):
        f = prog.cls(cn).methods.get('deserialize')
        if f is None:
            continue
        for a in walk_no_defs(f.node):
            if not (isinstance(a, ast.Assign) and any(
                    unparse(t) == 'ctx.in_object' for t in a.targets) and
                    isinstance(a.value, ast.BinOp) and isinstance(
                        a.value.op, ast.Mult) and
                    unparse(a.value.left) == '[None]'):
                continue
            n += 1
            atoms = [(t, p_) for t, p_ in guardspec.atoms_at(a, f.node)
                     if 'in_body_doc' in t and 'Fault' not in t]
            ok = atoms == [('ctx.in_body_doc is None', True)] or (
                not atoms and any(t in ('doc is None',
                                        'ctx.in_body_doc.get(class_name, None)'
                                        ' is None') and p_
                                  for t, p_ in guardspec.atoms_at(a, f.node)))
            where = '%s:%d' % (f.module.relpath, a.lineno)
            res.ob('R7', where, '%s builds the placeholder list under %s' % (
                f.qualname, ['%s%s' % ('' if p_ else 'not ', t)
                             for t, p_ in atoms]), 'ok' if ok else 'VIOLATED')
            if not ok:
                res.finding('R7', '%s|placeholder-condition' % f.qualname,
                            where, '%s replaces the request by a list of '
                            'Nones under %s: a present but childless body '
                            'element is no longer read with the declared '
                            'class, so a bare method receives a list where '
                            'its single argument belongs and wrapped methods '
                            'skip the missing-member checks' % (
                                f.qualname, [t for t, _ in atoms]))
    res.floor('R7', 'placeholder argument lists', n, 3)
    # a nil message (None from the reader) is expanded by the application,
    # for wrapped messages only
    app = prog.cls('spyne.application:Application')
    pr = app.methods.get('process_request')
    k = 0
    for a in walk_no_defs(pr.node):
        if isinstance(a, ast.Assign) and any(
                unparse(t) == 'ctx.in_object' for t in a.targets) and \
                isinstance(a.value, ast.BinOp) and isinstance(
                    a.value.op, ast.Mult) and \
                unparse(a.value.left) == '[None]':
            k += 1
            atoms = guardspec.atoms_at(a, pr.node)
            need = [('ctx.in_object is None', True),
                    ('ctx.descriptor.body_style is BODY_STYLE_BARE', False)]
            missing = [x for x in need if x not in atoms]
            where = '%s:%d' % (pr.module.relpath, a.lineno)
            res.ob('R7', where, 'process_request expands a nil message under '
                   '%s' % [t for t, _ in atoms if 'in_object' in t or
                           'body_style' in t], 'ok' if not missing
                   else 'VIOLATED')
            for t, p_ in missing:
                res.finding('R7', 'Application.process_request|nil-message|'
                            '%s' % t, where, 'the expansion of a nil message '
                            'into missing members is not restricted by "%s%s"'
                            ': a bare method would receive a list of Nones '
                            'where its single argument belongs, or a present '
                            'message would be discarded' % (
                                '' if p_ else 'not ', t))
            # one placeholder per declared argument
            cnt = a.value.right
            src = unparse(cnt)
            for nm_ in {y.id for y in ast.walk(cnt)
                        if isinstance(y, ast.Name)}:
                vs = [x.value for x in walk_no_defs(pr.node)
                      if isinstance(x, ast.Assign) and any(
                          isinstance(t, ast.Name) and t.id == nm_
                          for t in x.targets)]
                if len(vs) == 1:
                    src = src.replace(nm_, unparse(vs[0]))
            ok = 'in_message' in src and 'out_message' not in src
            res.ob('R7', where, 'process_request sizes the placeholder list '
                   'by %s' % src, 'ok' if ok else 'VIOLATED')
            if not ok:
                res.finding('R7', 'Application.process_request|nil-message-'
                            'sized-by|%s' % src, where, 'a nil message is '
                            'expanded into %s placeholders, not one per '
                            'member of the in-message: a method whose '
                            'argument and return counts differ is called '
                            'with the wrong number of arguments (TypeError, '
                            'a Server fault) where NullServer returns the '
                            'result' % src)
    res.floor('R7', 'nil message expansions in process_request', k, 1)


# ------------------------------------------------------------------- R8
def rule_r8(prog, res):
    res.rule('R8', 'what the function produced or received is handed on '
             'whatever its value: the prefetched first item of a generator '
             'result is chained back unconditionally; the bare argument '
             'object is always built from the fields; readers decide presence '
             'by identity, not truthiness')
    w = prog.cls('spyne.server.wsgi:WsgiApplication')
    f = w.methods.get('handle_rpc')
    n = 0
    for a in walk_no_defs(f.node):
        if isinstance(a, ast.Assign) and any(
                unparse(t).endswith('.out_object') for t in a.targets) and \
                any(isinstance(c, ast.Call) and call_name(c) == 'chain'
                    for c in ast.walk(a.value)):
            n += 1
            atoms = guardspec.atoms_at(a, f.node)
            fetched = {b_.targets[0].id for b_ in walk_no_defs(f.node)
                       if isinstance(b_, ast.Assign) and len(b_.targets) == 1
                       and isinstance(b_.targets[0], ast.Name) and isinstance(
                           b_.value, ast.Call) and call_name(b_.value) ==
                       'next'} - {'g'}
            import re as _re
            extra = [(t, p_) for t, p_ in atoms if any(
                _re.search(r'\b%s\b' % _re.escape(v), t) for v in fetched)
                and not _re.match(r'^\w+ is (not )?_*[A-Za-z]\w*$', t)
                or any(t == '%s is None' % v for v in fetched)]
            where = '%s:%d' % (f.module.relpath, a.lineno)
            res.ob('R8', where, 'handle_rpc chains the prefetched item back '
                   'under %s' % [t for t, _ in atoms],
                   'VIOLATED' if extra else 'ok')
            for t, p_ in extra[:1]:
                res.finding('R8', 'WsgiApplication.handle_rpc|prefetch-'
                            'conditional', where, 'the first item of a '
                            'generator result is put back only under "%s%s": '
                            'an item that fails the test (None) is lost on '
                            'the wire while NullServer returns the whole '
                            'sequence' % ('' if p_ else 'not ', t))
    res.floor('R8', 'generator prefetch sites', n, 1)
    # an exhausted generator is an empty result, not a crash
    for c in calls_in(f.node):
        if call_name(c) == 'next' and isinstance(c.func, ast.Name) and \
                len(c.args) == 1 and unparse(c.args[0]) == 'g':
            handled = False
            p_ = c
            while p_ is not None and p_ is not f.node:
                par = getattr(p_, '_parent', None)
                if isinstance(par, ast.Try) and p_ in par.body and any(
                        h.type is not None and
                        'StopIteration' in unparse(h.type)
                        for h in par.handlers):
                    handled = True
                p_ = par
            where = '%s:%d' % (f.module.relpath, c.lineno)
            res.ob('R8', where, 'handle_rpc prefetches with next(g); '
                   'StopIteration %s' % ('handled' if handled else
                                         'NOT handled'),
                   'ok' if handled else 'VIOLATED')
            if not handled:
                res.finding('R8', 'WsgiApplication.handle_rpc|prefetch-'
                            'exhausted', where, 'next(g) on a generator '
                            'result that yields nothing raises StopIteration '
                            'out of the WSGI callable; NullServer returns '
                            'the empty sequence for the same call')
    # next(g, default): a default doubles as a value
    for c in calls_in(f.node):
        if call_name(c) == 'next' and isinstance(c.func, ast.Name) and \
                len(c.args) == 2 and isinstance(c.args[1], ast.Constant):
            res.ob('R8', '%s:%d' % (f.module.relpath, c.lineno),
                   'handle_rpc: %s' % unparse(c), 'VIOLATED')
            res.finding('R8', 'WsgiApplication.handle_rpc|prefetch-default',
                        '%s:%d' % (f.module.relpath, c.lineno),
                        '%s uses a default as the "nothing yielded" marker: '
                        'the same value yielded by the function cannot be '
                        'told from an exhausted generator' % unparse(c))
    # NullServer: bare argument object
    fc = prog.cls('spyne.server.null:_FunctionCall')
    g = fc.methods.get('__call__')
    k = 0
    for a in walk_no_defs(g.node):
        if isinstance(a, ast.Assign) and any(
                unparse(t) == 'ctx.in_object' for t in a.targets) and \
                'get_serialization_instance' in unparse(a.value):
            k += 1
            guardspec.check(res, 'R8', g, a, 'the bare argument object',
                            allowed=[('ctx.descriptor.body_style == '
                                      'BODY_STYLE_BARE', True),
                                     ('ctx.descriptor.body_style is '
                                      'BODY_STYLE_BARE', True),
                                     ('issubclass(in_message, Array)', False),
                                     ('issubclass(ctx.descriptor.in_message, '
                                      'Array)', False)],
                            key='_FunctionCall.__call__|bare-instance')
    res.floor('R8', 'bare argument object constructions', k, 1)
    # ... and a bare Array argument is the sequence itself
    arr = [a for a in walk_no_defs(g.node) if isinstance(a, ast.Assign) and
           any(unparse(t) == 'ctx.in_object' for t in a.targets) and
           unparse(a.value) == 'ctx.in_object[0]' and any(
               'Array' in t and pol
               for t, pol in guardspec.atoms_at(a, g.node))]
    res.ob('R8', g.where, 'a bare Array argument is %s' % (
        'unwrapped to the sequence' if arr else 'packed like an object'),
        'ok' if arr else 'VIOLATED')
    if not arr:
        res.finding('R8', '_FunctionCall.__call__|bare-array', g.where,
                    'a bare method whose argument is an Array gets its slot '
                    'list packed with get_serialization_instance: the '
                    'function receives a wrapper object holding [[1, 2, 3]] '
                    'where the wire delivers [1, 2, 3]')
    # readers: presence by identity
    h = prog.cls('spyne.protocol.dictdoc.hier:HierDictDocument')
    guardspec.presence_rule(res, 'R8', [h.methods['_from_dict_value'],
                                        h.methods['_doc_to_object']],
                            ('inst', 'doc'),
                            'an empty list or object sent by the client is '
                            'delivered as None although NullServer passes '
                            'the empty value itself')


# ------------------------------------------------------------------- R9
def rule_r9(prog, res):
    res.rule('R9', 'dict documents find the request message under the name '
             'the decorator gave it (element name: the method name also for '
             'bare methods) and read a non-object message with the leaf '
             'reader')
    h = prog.cls('spyne.protocol.dictdoc.hier:HierDictDocument')
    f = h.methods.get('deserialize')
    if f is None:
        raise AnalysisError('HierDictDocument.deserialize', 'not found')
    gets = [c for c in calls_in(f.node) if call_name(c) == 'get' and
            isinstance(c.func, ast.Attribute) and
            unparse(c.func.value) in ('doc', 'ctx.in_body_doc') and c.args]
    res.floor('R9', 'message lookups in HierDictDocument.deserialize',
              len(gets), 1)
    for c in gets:
        k = c.args[0]
        srcs = [unparse(k)]
        # the key, or the name it is an encoded/decoded form of
        knames = [k.id] if isinstance(k, ast.Name) else [
            x.id for x in ast.walk(k) if isinstance(x, ast.Name) and
            x.id != 'self']
        for kn in knames:
            srcs += [unparse(a.value) for a in walk_no_defs(f.node)
                     if isinstance(a, ast.Assign) and any(
                         isinstance(t, ast.Name) and t.id == kn
                         for t in a.targets)]
        ok = any('get_element_name' in s_ or 'sub_name' in s_ for s_ in srcs)
        where = '%s:%d' % (f.module.relpath, c.lineno)
        res.ob('R9', where, 'deserialize looks the message up under %s' %
               srcs[-1][:50], 'ok' if ok else 'VIOLATED')
        if not ok:
            res.finding('R9', 'HierDictDocument.deserialize|message-key',
                        where, 'the request message is looked up under %s: '
                        'for a bare method the message class is the argument '
                        'type (type name P) while the key on the wire is the '
                        'method name (its sub_name), so the arguments are '
                        'read as missing; NullServer delivers them' %
                        srcs[-1][:50])
    nobj = 0
    for cfq in ('spyne.protocol.dictdoc.hier:HierDictDocument',
                'spyne.protocol.msgpack:MessagePackRpc'):
        hc = prog.cls(cfq)
        f = hc.methods.get('deserialize')
        if f is None:
            continue        # inherits the base reader
        objs = [c for c in calls_in(f.node)
                if call_name(c) == '_doc_to_object' and len(c.args) >= 2 and
                unparse(c.args[1]) == 'body_class']
        for c in objs:
            nobj += 1
            st = c
            while not isinstance(st, ast.stmt):
                st = st._parent
            atoms = guardspec.atoms_at(st, f.node)
            from ..flow import entails, guards_at, flatten_guards
            ok = entails(flatten_guards(guards_at(st, stop=f.node)),
                         'issubclass(body_class, ComplexModelBase)')
            where = '%s:%d' % (f.module.relpath, c.lineno)
            res.ob('R9', where, '%s reads the message as an object %s' % (
                f.qualname, 'only when its class is complex' if ok else
                'whatever its class'), 'ok' if ok else 'VIOLATED')
            if not ok:
                res.finding('R9', '%s|leaf-message' % f.qualname,
                            where, 'the message is always read with '
                            '_doc_to_object: a bare method whose argument is '
                            'a primitive raises AttributeError out of the '
                            'request (Unicode has no _type_info) although '
                            'NullServer accepts the same call')
    res.floor('R9', 'object reads in the dict deserialize entry points',
              nobj, 2)

def rule_r10(prog, res):
    res.rule('R10', 'the wire side gives an omitted member its declared '
             'default whatever its truth value (NullServer reads '
             'Attributes.default itself): _set_member_default tests None by '
             'identity')
    m = prog.module('spyne.model.complex')
    f = m.functions.get('_set_member_default')
    if f is None:
        raise AnalysisError('_set_member_default', 'not found')
    k = guardspec.presence_rule(res, 'R10', [f], ('def_val', 'def_fac'),
                                'a declared default of 0, "" or False is not '
                                'applied on the wire paths (the object keeps '
                                'None) while NullServer passes it')
    res.floor('R10', 'identity tests of the default in _set_member_default',
              k, 1)


def rule_r11(prog, res):
    from . import c16, c02
    from ..report import Result
    res.share('R11', 'the polymorphic switch tests the instance against the '
              'original of the declared class (C16-R14)', 'C16', c16.rule_r14,
              prog, Result)
    res.share('R11', 'positional documents are paired with the flattened '
              'field list, parents included (C02-R2)', 'C02', c02.rule_r2,
              prog, Result)


def rule_r12(prog, res):
    res.rule('R12', 'a default_factory is called for every omitted argument: '
             'no function that calls it is memoized')
    n = 0
    for fn in prog.all_functions():
        if not fn.module.name.startswith('spyne.'):
            continue
        if not any(isinstance(c.func, ast.Attribute) and
                   c.func.attr == 'default_factory'
                   for c in calls_in(fn.node)):
            continue
        n += 1
        memo = [unparse(d) for d in fn.node.decorator_list
                if 'memo' in unparse(d).lower() or 'cache' in
                unparse(d).lower()]
        res.ob('R12', fn.where, '%s calls default_factory; decorators %s' % (
            fn.qualname, [unparse(d) for d in fn.node.decorator_list]),
            'VIOLATED' if memo else 'ok')
        if memo:
            res.finding('R12', '%s|default-factory-memoized' % fn.qualname,
                        fn.where, '%s is wrapped in %s: the factory runs for '
                        'the first omitted argument only and every later '
                        'NullServer call shares that object, while the wire '
                        'protocols call the factory per request' % (
                            fn.qualname, memo[0]))
    res.floor('R12', 'functions that call a default_factory', n, 1)


def rule_r13(prog, res):
    from . import c05
    from ..report import Result
    res.share('R13', 'a conformant call is not refused on the wire: the '
              'readers accept exactly max_occurs / min_occurs items, as the '
              'direct call does (C05-R25)', 'C05', c05.rule_r25, prog, Result)


def run(prog, res, tier):
    res.run_rule(rule_r1, prog, res)
    res.run_rule(rule_r2, prog, res)
    res.run_rule(rule_r3, prog, res)
    res.run_rule(rule_r4, prog, res)
    res.run_rule(rule_r5, prog, res)
    res.run_rule(rule_r6, prog, res)
    res.run_rule(rule_r7, prog, res)
    res.run_rule(rule_r8, prog, res)
    res.run_rule(rule_r9, prog, res)
    res.run_rule(rule_r10, prog, res)
    res.run_rule(rule_r11, prog, res)
    res.run_rule(rule_r12, prog, res)
    res.run_rule(rule_r13, prog, res)


_N = 'spyne/server/null.py'
_A = 'spyne/application.py'
_D = 'spyne/descriptor.py'

MUTANTS = [
    Mutant('null-default-helper-memoized', 'R12', 'fire',
           'spyne/server/null.py',
           in_func(None, "\ndef _get_default(cls):\n",
                   "\n@memoize\ndef _get_default(cls):\n"),
           'default-factory-memoized'),
    Mutant('nil-message-sized-by-out-message', 'R7', 'fire',
           'spyne/application.py',
           in_func('Application.process_request',
                   "len(ctx.descriptor.in_message._type_info)",
                   "len(ctx.descriptor.out_message._type_info)"),
           'nil-message-sized-by'),
    Mutant('falsy-defaults-skipped', 'R10', 'fire', 'spyne/model/complex.py',
           in_func('_set_member_default', "    if def_val is not None:\n",
                   "    if def_val:\n"), 'truthiness'),
    Mutant('null-slots-start-as-none', 'R2', 'fire', 'spyne/server/null.py',
           in_func('_FunctionCall.__call__',
                   "ctx.in_object = [_get_default(v) for v in _type_info"
                   ".values()]", "ctx.in_object = [None] * len(_type_info)"),
           'defaults'),
    Mutant('null-default-factory-ignored', 'R2', 'fire',
           'spyne/server/null.py',
           in_func('_FunctionCall.__call__',
                   "ctx.in_object = [_get_default(v) for v in _type_info"
                   ".values()]",
                   "ctx.in_object = [v.Attributes.default for v in _type_info"
                   ".values()]"), 'default-factory-ignored'),
    Mutant('null-own-fields-only', 'R2', 'fire', 'spyne/server/null.py',
           in_func('_FunctionCall.__call__',
                   "_type_info = in_message.get_flat_type_info(in_message)",
                   "_type_info = in_message._type_info"), 'type-info'),
    Mutant('null-bare-array-packed', 'R8', 'fire', 'spyne/server/null.py',
           in_func('_FunctionCall.__call__',
                   "                if issubclass(in_message, Array):",
                   "                if False:"), 'bare-array'),
    Mutant('nil-message-expanded-for-bare', 'R7', 'fire', 'spyne/application.py',
           in_func('Application.process_request',
                   r"(            if ctx\.descriptor\.body_style is "
                   r"BODY_STYLE_BARE:\n                ctx\.in_object = "
                   r"\[ctx\.in_object\]\n            elif ctx\.descriptor\."
                   r"body_style is BODY_STYLE_EMPTY:\n                ctx\."
                   r"in_object = \[\]\n            elif ctx\.in_object is None:"
                   r"\n)(.*?\n.*?\n.*?\n)",
                   lambda m_: "            if ctx.in_object is None:\n" +
                   m_.group(2) + "            elif ctx.descriptor.body_style "
                   "is BODY_STYLE_BARE:\n                ctx.in_object = "
                   "[ctx.in_object]\n            elif ctx.descriptor."
                   "body_style is BODY_STYLE_EMPTY:\n                ctx."
                   "in_object = []\n", regex=True), 'nil-message'),
    Mutant('message-looked-up-by-type-name', 'R9', 'fire',
           'spyne/protocol/dictdoc/hier.py',
           in_func('HierDictDocument.deserialize',
                   "class_name = body_class.get_element_name()",
                   "class_name = self.get_class_name(body_class)"),
           'message-key'),
    Mutant('msgpackrpc-without-leaf-branch', 'R9', 'fire',
           'spyne/protocol/msgpack.py',
           in_func('MessagePackRpc.deserialize',
                   "        elif body_class and not issubclass(body_class, "
                   "ComplexModelBase):",
                   "        elif body_class and not issubclass(body_class, "
                   "ComplexModelBase) and False:"), 'leaf-message'),
    Mutant('hier-leaf-branch-dropped', 'R9', 'fire',
           'spyne/protocol/dictdoc/hier.py',
           in_func('HierDictDocument.deserialize',
                   "            if not issubclass(body_class, "
                   "ComplexModelBase):\n",
                   "            if not issubclass(body_class, ModelBase):\n"),
           'leaf-message'),
    Mutant('prefetch-with-unique-sentinel', 'R8', 'silent',
           'spyne/server/wsgi.py',
           in_func('WsgiApplication.handle_rpc',
                   r"            try:\n                first_obj = next\(g\)"
                   r".*?            else:\n                p_ctx\.out_object "
                   r"= \( chain\(\(first_obj,\), g\), \)\n",
                   "            first_obj = next(g, _NOTHING)\n            if "
                   "first_obj is not _NOTHING:\n                p_ctx."
                   "out_object = ( chain((first_obj,), g), )\n", regex=True),
           None),
    Mutant('prefetched-none-dropped', 'R8', 'fire', 'spyne/server/wsgi.py',
           in_func('WsgiApplication.handle_rpc',
                   "                p_ctx.out_object = ( chain((first_obj,),"
                   " g), )\n",
                   "                if first_obj is not None:\n"
                   "                    p_ctx.out_object = ( chain((first_obj,"
                   "), g), )\n"), 'prefetch-conditional'),
    Mutant('prefetch-stopiteration-unhandled', 'R8', 'fire',
           'spyne/server/wsgi.py',
           in_func('WsgiApplication.handle_rpc',
                   "            except StopIteration:",
                   "            except KeyError:"), 'prefetch-exhausted'),
    Mutant('empty-complex-value-read-as-none', 'R8', 'fire',
           'spyne/protocol/dictdoc/hier.py',
           in_func('HierDictDocument._from_dict_value',
                   "                retval = self._doc_to_object(ctx, cls, "
                   "inst, validator)\n\n            else:",
                   "                retval = None\n                if inst:\n"
                   "                    retval = self._doc_to_object(ctx, cls,"
                   " inst, validator)\n\n            else:"), 'truthiness'),
    Mutant('childless-body-fast-path', 'R7', 'fire', 'spyne/protocol/xml.py',
           in_func('XmlDocument.deserialize',
                   "if ctx.in_body_doc is None:",
                   "if ctx.in_body_doc is None or len(ctx.in_body_doc) == 0:"),
           'placeholder-condition'),
    Mutant('result-normalised-to-list', 'R5', 'fire', _A,
           in_func('Application.process_request',
                   "                ctx.out_object = [ctx.out_object]\n",
                   "                ctx.out_object = [ctx.out_object]\n"
                   "            elif not isinstance(ctx.out_object, (list, "
                   "tuple)):\n"
                   "                ctx.out_object = list(ctx.out_object)\n"),
           'result-touched'),
    Mutant('generator-result-registered', 'R5', 'fire', 'spyne/service.py',
           in_func('ServiceBaseBase.call_wrapper',
                   "            return ctx.function(*args)",
                   "            retval = ctx.function(*args)\n"
                   "            ctx.files.append(retval)\n"
                   "            return retval"), 'result-registered'),
    Mutant('result-through-local', 'R5', 'benign', 'spyne/service.py',
           in_func('ServiceBaseBase.call_wrapper',
                   "            return ctx.function(*args)",
                   "            retval = ctx.function(*args)\n"
                   "            return retval"), None),
    Mutant('aux-result-through-callback', 'R4', 'fire', _N,
           in_func('_FunctionCall.__call__',
                   "                        raise\n",
                   "                        raise\n"
                   "            else:\n"
                   "                _cb_sync(ctx, cnt, self)\n"),
           'callback-for-aux'),
    Mutant('primary-test-rewritten', 'R4', 'benign', _N,
           in_func('_FunctionCall.__call__', "            if cnt == 0:\n"
                   "                if self._async",
                   "            if not (cnt != 0):\n"
                   "                if self._async"), None),
    Mutant('wrapper-mark-for-bare', 'R4', 'fire', 'spyne/decorator.py',
           in_func('_produce_output_message',
                   "        message.Attributes._wrapper = True\n"
                   "        message.__namespace__ = ns  # FIXME: is this "
                   "necessary?\n",
                   "        message.__namespace__ = ns  # FIXME: is this "
                   "necessary?\n\n    message.Attributes._wrapper = True\n"),
           'wrapper-mark-on-bare'),
    Mutant('unwrap-by-shape', 'R1', 'fire', _N,
           in_func('_cb_sync', "elif ctx.descriptor.is_out_bare():",
                   "elif not issubclass(ctx.descriptor.out_message, "
                   "ComplexModelBase):"), '_cb_sync'),
    Mutant('single-result-not-unwrapped', 'R1', 'fire', _N,
           in_func('_cb_sync',
                   "        elif len(ctx.descriptor.out_message._type_info) "
                   "== 1:\n            retval = ctx.out_object[0]\n", ""),
           '_cb_sync'),
    Mutant('wrap-condition-narrowed', 'R1', 'fire', _A,
           in_func('Application.process_request',
                   "len(ctx.descriptor.out_message._type_info) <= 1:",
                   "len(ctx.descriptor.out_message._type_info) == 1:"),
           '_cb_sync'),
    Mutant('out-bare-forgets-empty', 'R1', 'fire', _D,
           in_func('MethodDescriptor.is_out_bare',
                   "                                   BODY_STYLE_EMPTY,\n",
                   ""), '_cb_sync'),
    Mutant('twin-unwrap-reordered', 'R1', 'benign', _N,
           in_func('_cb_sync',
                   "        elif ctx.descriptor.body_style is BODY_STYLE_EMPTY"
                   ":\n            retval = None\n\n", ""), ''),
    Mutant('kwargs-truthiness', 'R2', 'fire', _N,
           in_func('_FunctionCall.__call__',
                   "                val = kwargs.get(k, None)\n"
                   "                if val is not None:\n"
                   "                    ctx.in_object[i] = val",
                   "                if kwargs.get(k):\n"
                   "                    ctx.in_object[i] = kwargs[k]"),
           'keyword-truthiness'),
    Mutant('positional-shifted', 'R2', 'fire', _N,
           in_func('_FunctionCall.__call__',
                   "ctx.in_object[i] = args[i]", "ctx.in_object[i] = "
                   "args[i - 1]"), 'positional'),
    Mutant('bare-not-packed', 'R2', 'fire', _N,
           in_func('_FunctionCall.__call__',
                   r"                else:\n                    ctx\.in_object"
                   r" = in_message \\\n\s*\.get_serialization_instance\("
                   r"ctx\.in_object\)\n", "", regex=True), 'bare-packing'),
    Mutant('fault-after-result', 'R3', 'fire', _N,
           in_func('_cb_sync',
                   "    if ctx.out_error:\n        raise ctx.out_error\n\n"
                   "    else:", "    if True:"), 'fault-first'),
    Mutant('contexts-cached-on-handle', 'R3', 'fire', _N,
           in_func('_FunctionCall.__call__',
                   "        contexts = self.app.in_protocol.generate_method_"
                   "contexts(initial_ctx)\n",
                   "        if getattr(self, '_contexts', None) is None:\n"
                   "            self._contexts = self.app.in_protocol."
                   "generate_method_contexts(initial_ctx)\n"
                   "        contexts = self._contexts\n"), 'contexts-reused'),
]
