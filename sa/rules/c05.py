"""C05 - soft validation enforces exactly the declared constraints in every
protocol."""
import ast

from ..core import (AnalysisError, dotted, unparse, calls_in, call_name,
                    walk_no_defs, parent, ancestors, ClassInfo, FuncInfo)
from ..flow import (guards_at, flatten_guards, SeqFlow, RETURN, always_exits,
                    PathExplosion)
from ..constfold import fold, Unknown, try_fold
from ..mutate import Mutant, in_func
from .. import guardspec

ID = 'C05'
EXPLANATION = (
    'R1 validation sandwich: on every returning path of the leaf decoders of '
    'the XML family (element text, XML attributes, XmlData) and of the dict '
    'and flat-dict value readers, the call of the text decoder is preceded by '
    'validate_string and followed by validate_native of the same class. '
    'R2 occurrence counting: the counter compared with min_occurs/max_occurs '
    'is incremented once per item (inside the per-item loop or in the scalar '
    'branch), and both bounds are compared. R3 fixed-width integers: the '
    'bounds and max_str_len of the eight instantiations are folded from the '
    'source and compared with the XSD table; the comparison is inclusive at '
    'both ends. R4 facet coverage and strictness: every facet of the lattice '
    '(gt ge lt le min_len max_len pattern values) is read by the validator of '
    'its primitive with the operator that matches its meaning; the pattern '
    'facet is a whole-string match; offset-aware datetimes are not rebased. '
    'R5 xsi:nil is read lexically and the nillable test precedes every '
    'return of the nil branch. R6 constraint-vocabulary agreement: names read '
    'from get_cls_attrs() results on the input path that are near misses of '
    'declared attribute names are reported. Not decided: the verdict on every '
    'boundary value, regex semantics of user patterns.')
ASSUMPTIONS = ['XSD bounds of byte..unsignedLong are the standard ones',
               'validate_string/validate_native implement the facets (R4)']
LEVEL_TEXT = (
    'Static ordering (sandwich) check over every leaf decoding site, '
    'per-item occurrence counting, constant folding of the fixed-width '
    'integer table against XSD, and operator/strictness reading of every '
    'facet comparison. Decides the enforcement structure for every protocol '
    'family and nesting position; does not compute verdicts on values.')
LEVEL_NOTE = ('Trusted: the XSD table; comparison operators on native values '
              'mean what they say; user regexes are not interpreted.')
TECHNIQUE = ('event-order path enumeration + constant folding + comparison-'
             'operator reading (ast)')

XML = 'spyne.protocol.xml:XmlDocument'
HIER = 'spyne.protocol.dictdoc.hier:HierDictDocument'
SIMPLE = 'spyne.protocol.dictdoc.simple:SimpleDictDocument'

DECODERS = ('from_unicode', 'from_bytes', 'from_serstr')
# private helpers of the class under analysis that only wrap a decoder call
# (filled per class by decoder_wrappers)
WRAPPERS = set()


def decoder_wrappers(cls):
    out = set()
    for nm, m in cls.methods.items():
        if not nm.startswith('_') or nm.startswith('__') or nm in (
                '_from_dict_value', '_doc_to_object'):
            continue
        cs = [c for c in calls_in(m.node) if call_name(c) in DECODERS and
              (dotted(c.func) or '').startswith('self.')]
        others = [c for c in calls_in(m.node) if call_name(c) in (
            'validate_string', 'validate_native', '_doc_to_object',
            '_from_dict_value')]
        if cs and not others:
            out.add(nm)
    return out


# ------------------------------------------------------------------- R1
def sandwich_sequences(f, inliner=None):
    def classify(call):
        nm = call_name(call)
        d = dotted(call.func) or ''
        if nm == 'validate_string':
            return ('VS',), True
        if nm == 'validate_native':
            return ('VN',), True
        if (nm in DECODERS or nm in WRAPPERS) and d.startswith('self.'):
            return ('DEC',), True
        if nm in ('from_element', '_doc_to_object', '_from_dict_value',
                  'simple_dict_to_object') and d.startswith('self.'):
            return ('REC',), True       # recursion: validated one level down
        if d.startswith('logger'):
            return (), False
        return (), False

    def assume(test, pol, seq):
        t = unparse(test)
        if isinstance(test, ast.Compare) and len(test.ops) == 1 and \
                isinstance(test.ops[0], (ast.Is, ast.IsNot)) and \
                'SOFT_VALIDATION' in unparse(test.comparators[0]):
            soft = pol if isinstance(test.ops[0], ast.Is) else not pol
            tag = 'A:soft' if soft else 'A:nosoft'
            other = 'A:nosoft' if soft else 'A:soft'
            if other in seq:
                return False
            if tag in seq:
                return None
            return tag
        return None
    sf = SeqFlow(classify, assume=assume, inliner=inliner, loop_unroll=1)
    return sf.run(f.node), sf.nodes


def check_sandwich(res, f, label, seqs, need_native=True):
    """Every returning path that decodes must have VS before and VN after the
    first decode (paths known to be non-soft are exempt)."""
    rets = seqs.get(RETURN, set())
    bad = set()
    n_dec = 0
    for q in rets:
        if 'A:nosoft' in q:
            continue
        ev = [e for e in q if not e.startswith('A:')]
        if 'DEC' not in ev:
            continue
        n_dec += 1
        i = ev.index('DEC')
        j = len(ev) - 1 - ev[::-1].index('DEC')
        if 'VS' not in ev[:i]:
            bad.add(('no-validate_string', tuple(ev)))
        if need_native and 'VN' not in ev[j + 1:]:
            bad.add(('no-validate_native', tuple(ev)))
    return bad, n_dec


def rule_r1(prog, res):
    res.rule('R1', 'leaf decoders are sandwiched between validate_string and '
             'validate_native under soft validation')
    xml = prog.cls(XML)
    n_sites = 0
    for nm in ('unicode_from_element', 'base_from_element',
               'byte_array_from_element'):
        f = xml.methods.get(nm)
        if f is None:
            raise AnalysisError('XmlDocument.' + nm, 'not found')
        seqs, nodes = sandwich_sequences(f)
        res.count('dataflow_nodes', nodes)
        bad, n_dec = check_sandwich(res, f, nm, seqs)
        n_sites += n_dec
        if bad:
            for kind, ev in sorted(bad):
                res.ob('R1', f.where, 'XmlDocument.%s: %s' % (nm, ' > '.join(
                    ev)), 'VIOLATED')
                res.finding('R1', 'XmlDocument.%s|%s' % (nm, kind), f.where,
                            'a path of %s decodes the element text without '
                            '%s under soft validation (%s)' % (
                                nm, kind[3:], ' > '.join(ev)))
        else:
            res.ob('R1', f.where, 'XmlDocument.%s: every decoding path is '
                   'validate_string > decode > validate_native' % nm, 'ok')
    # enum reader: validate_string only (table exception: the enum literal
    # set is the whole constraint)
    f = xml.methods.get('enum_from_element')
    if f is not None:
        seqs, nodes = sandwich_sequences(f)
        bad, n_dec = check_sandwich(res, f, 'enum_from_element', seqs,
                                    need_native=False)
        n_sites += n_dec
        res.ob('R1', f.where, 'XmlDocument.enum_from_element validates the '
               'literal before decoding', 'ok' if not bad else 'VIOLATED')
        for kind, ev in sorted(bad):
            res.finding('R1', 'XmlDocument.enum_from_element|%s' % kind,
                        f.where, 'enum literal decoded without %s' % kind[3:])
    # XML attributes and XmlData inside complex_from_element: every direct
    # decoder call there must go through a validating helper
    f = xml.methods.get('complex_from_element')
    if f is None:
        raise AnalysisError('XmlDocument.complex_from_element', 'not found')
    n_attr = 0
    for c in calls_in(f.node):
        nm = call_name(c)
        d = dotted(c.func) or ''
        if not d.startswith('self.'):
            continue
        where = '%s:%d' % (f.module.relpath, c.lineno)
        if nm in DECODERS:
            n_attr += 1
            res.ob('R1', where, 'complex_from_element: %s' % unparse(c)[:60],
                   'VIOLATED')
            what = 'XmlData' if 'elt.text' in unparse(c) else 'XML attribute'
            res.finding('R1', 'XmlDocument.complex_from_element|unvalidated|'
                        '%s' % unparse(c)[:50], where,
                        'an %s value is decoded with %s without '
                        'validate_string/validate_native: declared '
                        'constraints are not enforced at this nesting '
                        'position under soft validation' % (what, nm))
        else:
            h = xml.methods.get(nm) or prog.find_method(xml, nm)
            if h is not None and h is not f and any(
                    call_name(x) in DECODERS for x in calls_in(h.node)) and \
                    nm not in ('from_element',):
                n_attr += 1
                seqs, nodes = sandwich_sequences(h)
                bad, n_dec = check_sandwich(res, h, nm, seqs)
                if bad:
                    for kind, ev in sorted(bad):
                        res.ob('R1', where, 'complex_from_element -> %s: %s'
                               % (nm, ' > '.join(ev)), 'VIOLATED')
                        res.finding('R1', 'XmlDocument.%s|%s' % (nm, kind),
                                    h.where, 'helper %s decodes without %s' %
                                    (nm, kind[3:]))
                else:
                    res.ob('R1', where, 'complex_from_element decodes through '
                           'the validating helper %s' % nm, 'ok')
    n_sites += n_attr
    res.floor('R1', 'attribute/XmlData decoding sites', n_attr, 4)
    # dict documents
    hier = prog.cls(HIER)
    f = hier.methods.get('_from_dict_value')
    if f is None:
        raise AnalysisError('HierDictDocument._from_dict_value', 'not found')
    WRAPPERS.clear()
    WRAPPERS.update(decoder_wrappers(hier))
    try:
        seqs, nodes = sandwich_sequences(f)
    except PathExplosion as e:
        raise AnalysisError('C05-R1 _from_dict_value', 'path explosion')
    res.count('dataflow_nodes', nodes)
    rets = seqs.get(RETURN, set())
    bad = set()
    nd = 0
    for q in rets:
        if 'A:nosoft' in q:
            continue
        ev = [e for e in q if not e.startswith('A:')]
        if 'DEC' in ev:
            nd += 1
            j = len(ev) - 1 - ev[::-1].index('DEC')
            if 'VN' not in ev[j + 1:]:
                bad.add(tuple(ev))
    n_sites += nd
    if bad:
        for ev in sorted(bad):
            res.ob('R1', f.where, '_from_dict_value: ' + ' > '.join(ev),
                   'VIOLATED')
        res.finding('R1', 'HierDictDocument._from_dict_value|no-validate_'
                    'native', f.where, 'a path of _from_dict_value decodes a '
                    'document value without validate_native afterwards')
    else:
        res.ob('R1', f.where, '_from_dict_value: validate_native follows the '
               'decoder on all %d decoding paths' % nd, 'ok')
    # validate_string before the leaf decoder, for text values
    vs = [c for c in calls_in(f.node) if call_name(c) == 'validate_string']
    ok = False
    for c in vs:
        g = flatten_guards(guards_at(c, stop=f.node))
        p = parent(c)
        # it sits in an `if soft and isinstance(str) and not validate_string`
        blk = c
        while blk is not None and not isinstance(blk, ast.If):
            blk = parent(blk)
        if blk is not None and always_exits(blk.body) and \
                'SOFT_VALIDATION' in unparse(blk.test):
            decs = [x for x in calls_in(f.node) if (
                call_name(x) in DECODERS or call_name(x) in WRAPPERS)
                    and x.lineno > c.lineno]
            ok = ok or bool(decs)
    res.ob('R1', f.where, '_from_dict_value: validate_string (soft) precedes '
           'the leaf decoders', 'ok' if ok else 'VIOLATED')
    if not ok:
        res.finding('R1', 'HierDictDocument._from_dict_value|no-validate_'
                    'string', f.where, 'the soft validate_string test before '
                    'the leaf decoders is gone')
    # flat dict documents
    simple = prog.cls(SIMPLE)
    g = simple.methods.get('simple_dict_to_object')
    if g is None:
        raise AnalysisError('SimpleDictDocument.simple_dict_to_object',
                            'not found')
    decs = [c for c in calls_in(g.node) if call_name(c) in DECODERS]
    vss = [c for c in calls_in(g.node) if call_name(c) == 'validate_string']
    vns = [c for c in calls_in(g.node) if call_name(c) == 'validate_native']
    for d_ in decs:
        n_sites += 1
        before = [c for c in vss if c.lineno < d_.lineno]
        after = [c for c in vns if c.lineno > d_.lineno]
        where = '%s:%d' % (g.module.relpath, d_.lineno)
        ok = bool(before) and bool(after)
        res.ob('R1', where, 'simple_dict_to_object: %s sandwiched' %
               unparse(d_)[:50], 'ok' if ok else 'VIOLATED')
        if not ok:
            res.finding('R1', 'SimpleDictDocument.simple_dict_to_object|%s' % (
                'no-validate_string' if not before else 'no-validate_native'),
                where, 'flat-dict value decoded without %s' % (
                    'validate_string' if not before else 'validate_native'))
    res.floor('R1', 'decoding sites', n_sites, 8)


# ------------------------------------------------------------------- R2
def rule_r2(prog, res):
    res.rule('R2', 'occurrence counters count items and both bounds are '
             'compared')
    hier = prog.cls(HIER)
    f = hier.methods.get('_doc_to_object')
    incs = [n for n in walk_no_defs(f.node) if isinstance(n, ast.AugAssign)
            and 'frequencies' in unparse(n.target)]
    res.floor('R2', 'frequency increments in _doc_to_object', len(incs), 1)
    for n in incs:
        # per item: inside a loop over the member's value, or in the branch
        # for a scalar (non-list) value
        in_item_loop = False
        scalar_branch = False
        by_len = 'len(' in unparse(n.value)
        for a in ancestors(n):
            if isinstance(a, ast.For):
                it = unparse(a.iter)
                if it in ('v', 'value', 'inst', 'items_') or it.startswith(
                        'v') and 'items' not in it:
                    in_item_loop = True
                break
        p = parent(n)
        if isinstance(p, ast.If) and n in p.orelse:
            scalar_branch = True
        where = '%s:%d' % (f.module.relpath, n.lineno)
        ok = in_item_loop or scalar_branch or by_len
        res.ob('R2', where, '_doc_to_object: %s (%s)' % (
            unparse(n), 'per item' if in_item_loop else 'scalar branch'
            if scalar_branch else 'scaled by len' if by_len else 'per key'),
            'ok' if ok else 'VIOLATED')
        if not ok:
            res.finding('R2', 'HierDictDocument._doc_to_object|per-key-count',
                        where, 'the occurrence counter is incremented once '
                        'per key, not once per item: an array with more than '
                        'max_occurs items is accepted')
    cf = prog.method('spyne.protocol.dictdoc._base:DictDocument',
                     '_check_freq_dict')
    cmps = [n for n in walk_no_defs(cf.node) if isinstance(n, ast.Compare)
            and unparse(n.left) == 'val']
    lo = [c for c in cmps if isinstance(c.ops[0], ast.Lt) and
          unparse(c.comparators[0]) == 'min_o']
    hi = [c for c in cmps if isinstance(c.ops[0], ast.Gt) and
          unparse(c.comparators[0]) == 'max_o']
    ok = bool(lo) and bool(hi)
    res.ob('R2', cf.where, '_check_freq_dict compares val < min_o and val > '
           'max_o', 'ok' if ok else 'VIOLATED')
    if not ok:
        res.finding('R2', 'DictDocument._check_freq_dict|bounds|%s' % (
            [unparse(c) for c in cmps]), cf.where, 'occurrence bounds must be '
            'val < min_occurs -> reject and val > max_occurs -> reject; found '
            '%s' % [unparse(c) for c in cmps])
    for c in lo + hi:
        blk = parent(c)
        if isinstance(blk, ast.If) and not any(isinstance(s, ast.Raise)
                                               for s in blk.body):
            res.finding('R2', 'DictDocument._check_freq_dict|no-raise',
                        cf.where, 'a violated occurrence bound does not raise')
    # it is called under soft validation from the dict reader
    calls = [c for c in calls_in(f.node) if call_name(c) == '_check_freq_dict']
    ok = False
    for c in calls:
        g = flatten_guards(guards_at(c, stop=f.node))
        if any('SOFT_VALIDATION' in unparse(e) and pol for e, pol in g):
            ok = True
    res.ob('R2', f.where, '_doc_to_object calls _check_freq_dict under soft '
           'validation', 'ok' if ok else 'VIOLATED')
    if not ok:
        res.finding('R2', 'HierDictDocument._doc_to_object|no-freq-check',
                    f.where, 'occurrence constraints are not checked under '
                    'soft validation in the dict reader')
    # XML
    xml = prog.cls(XML)
    g = xml.methods.get('complex_from_element')
    incs = [n for n in walk_no_defs(g.node) if isinstance(n, ast.AugAssign)
            and 'frequencies' in unparse(n.target)]
    ok = False
    for n in incs:
        for a in ancestors(n):
            if isinstance(a, ast.For) and unparse(a.iter) in ('elt', 'element',
                                                              'elt.getchildren()'):
                # directly in the loop body, not under a condition on the
                # member
                if parent(n) is a:
                    ok = True
                break
    # the counter key still names the element being counted: no inner loop
    # re-binds the key variable between its computation and the increment
    for n in incs:
        sl = n.target.slice if isinstance(n.target, ast.Subscript) else None
        if not isinstance(sl, ast.Name):
            continue
        binds = [x for x in walk_no_defs(g.node) if isinstance(x, ast.Assign)
                 and any(isinstance(t, ast.Name) and t.id == sl.id
                         for t in x.targets) and x.lineno < n.lineno]
        if not binds:
            continue
        last = max(binds, key=lambda x: x.lineno)
        shadow = [x for x in walk_no_defs(g.node) if isinstance(x, ast.For)
                  and last.lineno < x.lineno < n.lineno and any(
                      isinstance(t, ast.Name) and t.id == sl.id
                      for t in ast.walk(x.target))]
        where = '%s:%d' % (g.module.relpath, n.lineno)
        res.ob('R2', where, 'complex_from_element: %s uses %s bound at line '
               '%d%s' % (unparse(n), sl.id, last.lineno,
                         ', re-bound by the loop at line %d' %
                         shadow[0].lineno if shadow else ''),
               'VIOLATED' if shadow else 'ok')
        if shadow:
            res.finding('R2', 'XmlDocument.complex_from_element|count-key-'
                        'shadowed|%s' % sl.id, where,
                        'the occurrence counter is incremented under %s '
                        'after the loop at line %d re-bound that variable: '
                        'for an element carrying XML attributes the count '
                        'goes to the last attribute name, so min/max_occurs '
                        'of the element are compared with the wrong number' %
                        (sl.id, shadow[0].lineno))
    res.ob('R2', g.where, 'complex_from_element counts every child element',
           'ok' if ok else 'VIOLATED')
    if not ok:
        res.finding('R2', 'XmlDocument.complex_from_element|count', g.where,
                    'child elements are not counted once each in the element '
                    'loop')
    bounds = [n for n in walk_no_defs(g.node) if isinstance(n, ast.If) and
              'min_occurs' in unparse(n.test) and 'max_occurs' in
              unparse(n.test)]
    ok = False
    for b in bounds:
        t = unparse(b.test).replace(' ', '')
        if 'val<attr.min_occurs' in t and 'val>attr.max_occurs' in t and \
                any(isinstance(s, ast.Raise) for s in b.body):
            gg = flatten_guards(guards_at(b, stop=g.node))
            if any('SOFT_VALIDATION' in unparse(e) and pol for e, pol in gg):
                ok = True
    res.ob('R2', g.where, 'complex_from_element rejects val < min_occurs or '
           'val > max_occurs under soft validation', 'ok' if ok else
           'VIOLATED')
    if not ok:
        res.finding('R2', 'XmlDocument.complex_from_element|bounds', g.where,
                    'the min_occurs/max_occurs test of the XML reader is '
                    'missing, lenient or not under soft validation: %s' % [
                        unparse(b.test)[:80] for b in bounds])


# ------------------------------------------------------------------- R3
XSD_INT = {
    # name: (min, max)
    'byte': (-2 ** 7, 2 ** 7 - 1), 'short': (-2 ** 15, 2 ** 15 - 1),
    'int': (-2 ** 31, 2 ** 31 - 1), 'long': (-2 ** 63, 2 ** 63 - 1),
    'unsignedByte': (0, 2 ** 8 - 1), 'unsignedShort': (0, 2 ** 16 - 1),
    'unsignedInt': (0, 2 ** 32 - 1), 'unsignedLong': (0, 2 ** 64 - 1),
}


def rule_r3(prog, res):
    res.rule('R3', 'fixed-width integer bounds equal the XSD table, '
             'inclusive, and fit in max_str_len')
    m = prog.module('spyne.model.primitive.number')
    n = 0
    for name, v in sorted(m.consts.items()):
        if not (isinstance(v, ast.Call) and call_name(v) in (
                'TBoundedInteger', 'TBoundedUnsignedInteger')):
            continue
        fac = m.functions.get(call_name(v))
        if fac is None:
            raise AnalysisError(call_name(v), 'factory not found')
        ok1, bits = try_fold(prog, m, v.args[0])
        ok2, tname = try_fold(prog, m, v.args[1])
        if not (ok1 and ok2):
            res.unclass('R3', m.relpath, '%s = %s' % (name, unparse(v)))
            continue
        if tname not in XSD_INT:
            res.unclass('R3', m.relpath, '%s: unknown XSD type %s' % (name,
                                                                      tname))
            continue
        n += 1
        env = {fac.params()[0]: bits, fac.params()[1]: tname}
        vals = {}
        for st in fac.node.body:
            if isinstance(st, ast.Assign) and isinstance(st.targets[0],
                                                         ast.Name):
                try:
                    vals[st.targets[0].id] = fold(prog, m, st.value, env)
                    env[st.targets[0].id] = vals[st.targets[0].id]
                except Unknown:
                    pass
        lo, hi = XSD_INT[tname]
        where = '%s:%d' % (m.relpath, v.lineno)
        got = (vals.get('_min_b'), vals.get('_max_b'))
        ok = got == (lo, hi)
        res.ob('R3', where, '%s (%s, %d bits): bounds %s' % (name, tname, bits,
                                                             got),
               'ok' if ok else 'VIOLATED')
        if not ok:
            res.finding('R3', '%s|bounds|%s' % (tname, got), where,
                        'xs:%s must range over [%d, %d]; %s folds to %s' % (
                            tname, lo, hi, name, got))
        # the class inside the factory
        cls_ = None
        for c in m.classes.values():
            if c.outer_func is fac:
                if c.name.startswith('_Bounded'):
                    cls_ = c
        if cls_ is None:
            raise AnalysisError(fac.qualname, 'no class inside factory')
        attrs = cls_.nested.get('Attributes')
        msl = None
        if attrs is not None and 'max_str_len' in attrs.attrs:
            try:
                msl = fold(prog, m, attrs.attrs['max_str_len'], env)
            except Unknown:
                msl = None
        need = max(len(str(lo)), len(str(hi)))
        if msl is None:
            res.unclass('R3', where, '%s: max_str_len not foldable' % name)
        else:
            ok = msl >= need
            res.ob('R3', where, '%s: max_str_len=%s, longest literal %d chars'
                   % (name, msl, need), 'ok' if ok else 'VIOLATED')
            if not ok:
                res.finding('R3', '%s|max_str_len|%s' % (tname, msl), where,
                            'max_str_len=%s rejects the literal %s (%d '
                            'characters) before it is parsed' % (
                                msl, lo if len(str(lo)) >= len(str(hi))
                                else hi, need))
        for a_, want in (('min_bound', lo), ('max_bound', hi)):
            if attrs is not None and a_ in attrs.attrs:
                try:
                    gv = fold(prog, m, attrs.attrs[a_], env)
                except Unknown:
                    continue
                ok = gv == want
                res.ob('R3', where, '%s: Attributes.%s=%s' % (name, a_, gv),
                       'ok' if ok else 'VIOLATED')
                if not ok:
                    res.finding('R3', '%s|%s|%s' % (tname, a_, gv), where,
                                'Attributes.%s of xs:%s folds to %s, XSD '
                                'says %s (this value feeds the schema facet)'
                                % (a_, tname, gv, want))
        vn = cls_.methods.get('validate_native')
        if vn is None:
            res.finding('R3', '%s|no-validate_native' % tname, cls_.where,
                        'the bounded integer class does not override '
                        'validate_native')
            continue
        chains = [c for c in walk_no_defs(vn.node) if isinstance(c, ast.Compare)
                  and len(c.ops) == 2]
        ok = False
        desc = []
        for c in chains:
            desc.append(unparse(c))
            if unparse(c.left) == '_min_b' and unparse(
                    c.comparators[1]) == '_max_b' and isinstance(
                    c.ops[0], ast.LtE) and isinstance(c.ops[1], ast.LtE):
                ok = True
        res.ob('R3', vn.where, '%s.validate_native: %s' % (name, desc),
               'ok' if ok else 'VIOLATED')
        if not ok:
            res.finding('R3', '%s|inclusive|%s' % (call_name(v), desc),
                        vn.where, 'the range test must be _min_b <= value <= '
                        '_max_b (both bounds attainable); found %s' % desc)
        # and it still chains to the parent validator
        sup = [c for c in calls_in(vn.node) if call_name(c) ==
               'validate_native']
        if not sup:
            res.finding('R3', '%s|no-super' % call_name(v), vn.where,
                        'bounded validate_native does not call the parent '
                        'validator')
    res.floor('R3', 'fixed-width integer instantiations', n, 8)


# ------------------------------------------------------------------- R4
FACET_OPS = {'gt': ast.Gt, 'ge': ast.GtE, 'lt': ast.Lt, 'le': ast.LtE}
OP_TXT = {ast.Gt: '>', ast.GtE: '>=', ast.Lt: '<', ast.LtE: '<='}


def facet_compares(fnode):
    """{facet: [Compare]} for comparisons value <op> cls.Attributes.<facet>"""
    out = {}
    for c in walk_no_defs(fnode):
        if isinstance(c, ast.Compare) and len(c.ops) == 1:
            r = c.comparators[0]
            l = c.left
            if isinstance(r, ast.Attribute) and 'Attributes' in unparse(r) \
                    and r.attr in FACET_OPS:
                out.setdefault(r.attr, []).append((c, False))
            elif isinstance(l, ast.Attribute) and 'Attributes' in unparse(l) \
                    and l.attr in FACET_OPS and not isinstance(
                    c.ops[0], (ast.Is, ast.IsNot)):
                out.setdefault(l.attr, []).append((c, True))
    return out


def rule_r4(prog, res):
    res.rule('R4', 'every facet is enforced with the operator that matches '
             'its meaning')
    targets = [
        ('spyne.model.primitive.number:Decimal', 'validate_native'),
        ('spyne.model.primitive.datetime:Time', 'validate_native'),
        ('spyne.model.primitive.datetime:DateTime', 'validate_native'),
        ('spyne.model.primitive.datetime:Date', 'validate_native'),
    ]
    n = 0
    for cfq, mname in targets:
        c = prog.cls(cfq)
        f = prog.find_method(c, mname)
        if f is None:
            raise AnalysisError('%s.%s' % (cfq, mname), 'not found')
        if f.cls is not c:
            res.ob('R4', c.where, '%s inherits %s from %s' % (
                c.name, mname, f.cls.name), 'ok', nontrivial=False)
            continue
        fc = facet_compares(f.node)
        for facet, op in sorted(FACET_OPS.items()):
            n += 1
            where = f.where
            if facet not in fc:
                res.ob('R4', where, '%s.%s: facet %s not compared' % (
                    c.name, mname, facet), 'VIOLATED')
                res.finding('R4', '%s.%s|%s|missing' % (c.name, mname, facet),
                            where, 'the %s facet is never compared in %s.%s: '
                            'the constraint is silently not enforced' % (
                                facet, c.name, mname))
                continue
            for cmp_, flipped in fc[facet]:
                got = type(cmp_.ops[0])
                if flipped:
                    got = {ast.Gt: ast.Lt, ast.Lt: ast.Gt, ast.GtE: ast.LtE,
                           ast.LtE: ast.GtE}.get(got, got)
                lhs = unparse(cmp_.comparators[0] if flipped else cmp_.left)
                ok = got is op and lhs == 'value'
                res.ob('R4', '%s:%d' % (f.module.relpath, cmp_.lineno),
                       '%s.%s: %s' % (c.name, mname, unparse(cmp_)),
                       'ok' if ok else 'VIOLATED')
                if not ok:
                    res.finding('R4', '%s.%s|%s|%s' % (
                        c.name, mname, facet, OP_TXT.get(got, got.__name__)),
                        '%s:%d' % (f.module.relpath, cmp_.lineno),
                        'facet %s must be enforced as value %s limit; found '
                        '%s' % (facet, OP_TXT[op], unparse(cmp_)))
        # all conjuncts must be and-ed: no `or` between facet comparisons
        for b in walk_no_defs(f.node):
            if isinstance(b, ast.BoolOp) and isinstance(b.op, ast.Or):
                facets_in = [x for x in b.values if any(
                    isinstance(y, ast.Attribute) and y.attr in FACET_OPS
                    for y in ast.walk(x))]
                plain = [x for x in facets_in if not (
                    isinstance(x, ast.Compare) and len(x.ops) == 1 and
                    isinstance(x.ops[0], (ast.Is, ast.IsNot)))]
                # allowed idiom: (Attributes.gt is None or value > gt)
                if len(plain) >= 2:
                    res.finding('R4', '%s.%s|or-combined' % (c.name, mname),
                                '%s:%d' % (f.module.relpath, b.lineno),
                                'facet comparisons are combined with "or": %s'
                                % unparse(b)[:80])
        # the chain still consults the parent validator
        if not any(call_name(x) == 'validate_native'
                   for x in calls_in(f.node)):
            res.finding('R4', '%s.%s|no-super' % (c.name, mname), f.where,
                        'nullability/enumeration checks of the parent '
                        'validator are skipped')
    # offset-aware datetimes must not be rebased to the local zone
    dt = prog.cls('spyne.model.primitive.datetime:DateTime')
    f = dt.methods['validate_native']
    for c in calls_in(f.node):
        if call_name(c) == 'replace' and any(k.arg == 'tzinfo'
                                             for k in c.keywords):
            g = flatten_guards(guards_at(c, stop=f.node))
            ok = any(unparse(e).endswith('tzinfo is None') and pol
                     for e, pol in g)
            where = '%s:%d' % (f.module.relpath, c.lineno)
            res.ob('R4', where, 'DateTime.validate_native: local zone is '
                   'attached only to naive values', 'ok' if ok else
                   'VIOLATED')
            if not ok:
                res.finding('R4', 'DateTime.validate_native|tz-rebase', where,
                            'value.replace(tzinfo=...) is applied to offset-'
                            'aware values too: the UTC offset is discarded '
                            'before the range facets are compared')
    # string facets: looked for across validate_string and validate_native
    u = prog.cls('spyne.model.primitive.string:Unicode')
    pairs = []       # (left text, op type, right text)
    has_pattern = False
    fwhere = u.where
    for mname in ('validate_string', 'validate_native'):
        f = u.methods.get(mname)
        if f is None:
            continue
        fwhere = f.where
        for c in walk_no_defs(f.node):
            if isinstance(c, ast.Compare):
                operands = [c.left] + list(c.comparators)
                for i, op in enumerate(c.ops):
                    pairs.append((unparse(operands[i]).replace(' ', ''),
                                  type(op),
                                  unparse(operands[i + 1]).replace(' ', '')))
            if isinstance(c, ast.Call) and call_name(c) == \
                    're_match_with_span' and len(c.args) == 2 and \
                    unparse(c.args[1]) == 'value':
                has_pattern = True
    def rel(a, op, b):
        flip = {ast.LtE: ast.GtE, ast.GtE: ast.LtE, ast.Lt: ast.Gt,
                ast.Gt: ast.Lt}
        return (a, op, b) in pairs or (b, flip[op], a) in pairs
    checks = {
        'min_len': rel('len(value)', ast.GtE, 'cls.Attributes.min_len'),
        'max_len': rel('len(value)', ast.LtE, 'cls.Attributes.max_len'),
        'pattern': has_pattern,
    }
    for facet, ok in sorted(checks.items()):
        n += 1
        res.ob('R4', fwhere, 'Unicode validators enforce %s' % facet,
               'ok' if ok else 'VIOLATED')
        if not ok:
            got = [p for p in pairs if facet in p[0] or facet in p[2]]
            res.finding('R4', 'Unicode|%s' % facet, fwhere,
                        'the %s facet is not enforced as expected by the '
                        'Unicode validators (need len(value) >= min_len, '
                        'len(value) <= max_len, whole-string pattern match); '
                        'found %s' % (facet, [
                            '%s %s %s' % (a, OP_TXT.get(o, o.__name__), b)
                            for a, o, b in got]))
    # whole-string pattern match
    m = prog.module('spyne.model.primitive._base')
    f = m.functions.get('re_match_with_span')
    if f is None:
        raise AnalysisError('re_match_with_span', 'not found')
    rets = sorted([r for r in walk_no_defs(f.node)
                   if isinstance(r, ast.Return)], key=lambda r: r.lineno)
    last = rets[-1].value if rets else None
    t = unparse(last).replace(' ', '') if last is not None else ''
    full = [c for c in calls_in(f.node) if call_name(c) == 'fullmatch']
    prefix = [c for c in calls_in(f.node) if call_name(c) in ('match',
                                                             'search')]
    ok = bool(full) and not prefix and ('isnotNone' in t or t.startswith(
        'bool(') or isinstance(last, ast.Call))
    res.ob('R4', f.where, 're_match_with_span: %s' % unparse(last)[:70],
           'ok' if ok else 'VIOLATED')
    if not ok:
        res.finding('R4', 're_match_with_span|whole-string', f.where,
                    'the pattern facet must be decided by fullmatch(); found '
                    '%s (with %s) -- match() stops at the first alternative '
                    'that matches a prefix, so comparing its span with the '
                    'length refuses values of alternation patterns '
                    '("[0-9]+|[0-9]+px" against "12px"), and a prefix match '
                    'or a "$" anchor accepts trailing text' % (
                        unparse(last)[:60], [unparse(c)[:30] for c in prefix]))
    # patterns are compiled unchanged
    mb = prog.module('spyne.model._base')
    for fn in ('set_pattern', 'set_unicode_pattern'):
        for f in [x for q, x in mb.functions.items() if q.endswith(fn)]:
            for c in calls_in(f.node):
                if call_name(c) == 'compile' and c.args:
                    a = c.args[0]
                    ok = isinstance(a, ast.Name)
                    res.ob('R4', '%s:%d' % (mb.relpath, c.lineno),
                           '%s compiles %s' % (f.qualname, unparse(a)[:40]),
                           'ok' if ok else 'unclassified', nontrivial=False)
    # enumeration
    sm = prog.cls('spyne.model._base:SimpleModel')
    f = sm.methods['validate_native']
    t = unparse(f.node).replace(' ', '')
    ok = 'valueincls.Attributes.values' in t
    res.ob('R4', f.where, 'SimpleModel.validate_native enforces values',
           'ok' if ok else 'VIOLATED')
    if not ok:
        res.finding('R4', 'SimpleModel.validate_native|values', f.where,
                    'the enumerated values facet is no longer a membership '
                    'test')
    res.floor('R4', 'facet obligations', n, 12)


# ------------------------------------------------------------------- R5
def rule_r5(prog, res):
    res.rule('R5', 'xsi:nil is read as an xs:boolean; nillable is tested '
             'before anything is returned for a nil element')
    xml = prog.cls(XML)
    f = xml.methods.get('from_element')
    nil_if = None
    for n in walk_no_defs(f.node):
        if isinstance(n, ast.If) and "XSI('nil')" in unparse(n.test):
            nil_if = n
            break
    if nil_if is None:
        raise AnalysisError('XmlDocument.from_element', 'no xsi:nil test')
    t = nil_if.test
    where = '%s:%d' % (f.module.relpath, nil_if.lineno)
    lex = isinstance(t, ast.Compare) and isinstance(t.ops[0], ast.In) and \
        isinstance(t.comparators[0], (ast.Tuple, ast.List, ast.Set)) and \
        {getattr(e, 'value', None) for e in t.comparators[0].elts} == \
        {'true', '1'}
    res.ob('R5', where, 'from_element: nil test %s' % unparse(t)[:70],
           'ok' if lex else 'VIOLATED')
    if not lex:
        res.finding('R5', 'XmlDocument.from_element|nil-lexical', where,
                    'xsi:nil must be compared with the xs:boolean true '
                    'literals ("true", "1"); found %s (string truthiness '
                    'reads xsi:nil="false" as null)' % unparse(t)[:80])
    # inside the nil block: the soft nillable raise precedes every return
    seen_guard = False
    for s in nil_if.body:
        if isinstance(s, ast.If) and 'SOFT_VALIDATION' in unparse(s.test) and \
                'nillable' in unparse(s.test) and any(
                isinstance(x, ast.Raise) for x in s.body):
            seen_guard = True
        rets = [x for x in ast.walk(s) if isinstance(x, ast.Return)]
        if rets and not seen_guard:
            w2 = '%s:%d' % (f.module.relpath, rets[0].lineno)
            res.ob('R5', w2, 'from_element: nil branch returns before the '
                   'nillable test', 'VIOLATED')
            res.finding('R5', 'XmlDocument.from_element|nil-order', w2,
                        'a nil element is answered (%s) before the soft '
                        'validation test for nillable: a non-nillable member '
                        'with a default accepts xsi:nil' % unparse(rets[0]))
            break
    else:
        res.ob('R5', where, 'from_element: nillable is tested before the nil '
               'branch returns', 'ok' if seen_guard else 'VIOLATED')
        if not seen_guard:
            res.finding('R5', 'XmlDocument.from_element|nil-unchecked', where,
                        'the nil branch never tests nillable under soft '
                        'validation')


# ------------------------------------------------------------------- R6
def edit_distance(a, b):
    a = a.replace('_', '')
    b = b.replace('_', '')
    if abs(len(a) - len(b)) > 2:
        return 9
    prev = list(range(len(b) + 1))
    for i, ca in enumerate(a, 1):
        cur = [i]
        for j, cb in enumerate(b, 1):
            cur.append(min(prev[j] + 1, cur[j - 1] + 1,
                           prev[j - 1] + (ca != cb)))
        prev = cur
    return prev[-1]


def rule_r6(prog, res):
    res.rule('R6', 'constraint names read on the input path are declared '
             '(no near-miss spellings)')
    declared = set()
    for c in prog.all_classes():
        if c.name == 'Attributes' and c.module.name.startswith('spyne.model'):
            declared.update(c.attrs)
            for n in ast.walk(c.node):
                if isinstance(n, ast.AnnAssign) and isinstance(n.target,
                                                               ast.Name):
                    declared.add(n.target.id)
    mb = prog.module('spyne.model._base')
    for n in ast.walk(mb.tree):
        if isinstance(n, ast.Constant) and isinstance(n.value, str) and \
                n.value.isidentifier() and len(n.value) > 2:
            pass
    ok_, meta = try_fold(prog, prog.module('spyne.protocol._base'),
                         prog.module('spyne.protocol._base').consts.get(
                             'META_ATTR', ast.List(elts=[])))
    if ok_:
        declared.update(meta)
    mods = ['spyne.protocol._inbase', 'spyne.protocol.xml',
            'spyne.protocol.dictdoc.hier', 'spyne.protocol.dictdoc.simple',
            'spyne.protocol.dictdoc._base', 'spyne.protocol.http']
    n_reads = 0
    for mn in mods:
        m = prog.module(mn)
        for f in m.functions.values():
            attr_vars = set()
            for n in walk_no_defs(f.node):
                if isinstance(n, ast.Assign) and isinstance(
                        n.value, ast.Call) and call_name(n.value) == \
                        'get_cls_attrs':
                    for t in n.targets:
                        if isinstance(t, ast.Name):
                            attr_vars.add(t.id)
            reads = {}
            for n in walk_no_defs(f.node):
                if isinstance(n, ast.Attribute) and isinstance(
                        n.ctx, ast.Load):
                    base = n.value
                    is_attrs = (isinstance(base, ast.Name) and
                                base.id in attr_vars) or (
                        isinstance(base, ast.Call) and call_name(base) ==
                        'get_cls_attrs')
                    if not is_attrs or n.attr.startswith('_'):
                        continue
                    n_reads += 1
                    reads.setdefault(n.attr, n)
            # belief contradiction: the same function reads a declared name
            # and an undeclared spelling of it
            for a, node in sorted(reads.items()):
                if a in declared:
                    continue
                twins = [d for d in reads if d in declared and d != a and (
                    d.replace('_', '').lower() == a.replace('_', '').lower()
                    or edit_distance(a, d) <= 1)]
                where = '%s:%d' % (m.relpath, node.lineno)
                if twins:
                    res.ob('R6', where, '%s reads attrs.%s and attrs.%s' % (
                        f.qualname, a, twins[0]), 'VIOLATED')
                    res.finding('R6', '%s|%s' % (f.qualname, a), where,
                                'the function reads the declared constraint '
                                '%r and, a few lines away, the undeclared '
                                'spelling %r: DefaultAttrDict answers None '
                                'for the latter, so the customisation is '
                                'silently ignored there' % (twins[0], a))
                else:
                    res.unclass('R6', where, '%s reads undeclared attrs.%s' %
                                (f.qualname, a))
    res.count('attribute_reads', n_reads)
    res.floor('R6', 'constraint reads on the input path', n_reads, 40)
    res.ob('R6', 'spyne/protocol/**', '%d reads of get_cls_attrs() results '
           'checked against %d declared names' % (n_reads, len(declared)),
           'ok')


# ------------------------------------------------------------------- R7
def rule_r7(prog, res):
    res.rule('R7', 'validate_native runs for every decoded value under soft '
             'validation: no further condition on the value')
    n = 0
    for f in prog.all_functions():
        if not f.module.name.startswith('spyne.protocol'):
            continue
        for c in calls_in(f.node):
            if call_name(c) != 'validate_native':
                continue
            n += 1
            where = '%s:%d' % (f.module.relpath, c.lineno)
            atoms = guardspec.atoms_at(c, f.node)
            extra = []
            soft = False
            for t, pol in atoms:
                if 'SOFT_VALIDATION' in t and 'validate_string' not in t \
                        and pol and ' and ' not in t and ' or ' not in t:
                    soft = True
                    continue
                if 'validate_string' in t:
                    continue      # fall-through of the string check's raise
                extra.append((t, pol))
            ok = soft and not extra
            res.ob('R7', where, '%s: validate_native under %s' % (
                f.qualname, ['%s%s' % ('' if p_ else 'not ', t)
                             for t, p_ in atoms]),
                'ok' if ok else 'VIOLATED')
            if not soft:
                res.finding('R7', '%s|validate_native|not-under-soft' %
                            f.qualname, where, 'validate_native in %s is not '
                            'dominated by the soft-validation test' %
                            f.qualname)
            for t, pol in extra:
                res.finding('R7', '%s|validate_native|extra-guard|%s%s' % (
                    f.qualname, '' if pol else 'not ', t), where,
                    'validate_native in %s additionally requires "%s%s": '
                    'values failing that condition (a None produced by '
                    'empty_is_none or a custom parser) are delivered without '
                    'the nullable/range test, while the XML family still '
                    'rejects them' % (f.qualname, '' if pol else 'not ', t))
    res.floor('R7', 'validate_native call sites in the protocols', n, 5)


# ------------------------------------------------------------------- R8
def rule_r8(prog, res):
    res.rule('R8', 'the length guard derived from total_digits leaves room '
             'for sign, separator and leading zero')
    c = prog.cls('spyne.model.primitive.number:Decimal')
    f = c.methods.get('_s_customize')
    if f is None:
        raise AnalysisError('Decimal._s_customize', 'not found')
    n = 0
    for a in walk_no_defs(f.node):
        if not (isinstance(a, ast.Assign) and len(a.targets) == 1 and
                'max_str_len' in unparse(a.targets[0])):
            continue
        v = a.value
        if not (isinstance(v, ast.BinOp) and isinstance(v.op, ast.Add)):
            continue
        const = v.right if isinstance(v.right, ast.Constant) else v.left
        other = v.left if const is v.right else v.right
        if not isinstance(const, ast.Constant) or \
                'digits' not in unparse(other) and unparse(other) != 'td':
            continue
        n += 1
        where = '%s:%d' % (f.module.relpath, a.lineno)
        ok = const.value >= 3
        res.ob('R8', where, 'Decimal._s_customize: max_str_len = %s' %
               unparse(v), 'ok' if ok else 'VIOLATED', nontrivial=True)
        if not ok:
            res.finding('R8', 'Decimal._s_customize|max_str_len|+%s' %
                        const.value, where, 'max_str_len is derived as %s: '
                        'the longest literal with that many digits is '
                        '"-0." followed by the digits, i.e. digits + 3 '
                        'characters, so a value satisfying every declared '
                        'facet (-0.125 for total_digits=3) is rejected as '
                        'too long' % unparse(v))
    res.floor('R8', 'derived max_str_len assignments', n, 1)


# ------------------------------------------------------------------- R9
def rule_r9(prog, res):
    res.rule('R9', 'no reader hands out the instance before the occurrence '
             'check')
    n = 0
    for cfq, nm in ((XML, 'complex_from_element'), (HIER, '_doc_to_object')):
        f = prog.cls(cfq).methods.get(nm)
        if f is None:
            raise AnalysisError('%s.%s' % (cfq, nm), 'not found')
        inst = [a for a in walk_no_defs(f.node) if isinstance(a, ast.Assign)
                and isinstance(a.value, ast.Call) and call_name(a.value) ==
                'get_deserialization_instance' and isinstance(
                    a.targets[0], ast.Name)]
        if not inst:
            raise AnalysisError('%s.%s' % (cfq, nm), 'instance creation not '
                                'found')
        var = inst[0].targets[0].id
        checks = [x for x in walk_no_defs(f.node) if (
            isinstance(x, ast.If) and 'min_occurs' in unparse(x.test)) or (
            isinstance(x, ast.Call) and call_name(x) == '_check_freq_dict')]
        if not checks:
            continue     # reported by R2
        chk = min(c.lineno for c in checks)
        for r in walk_no_defs(f.node):
            if not (isinstance(r, ast.Return) and isinstance(
                    r.value, ast.Name) and r.value.id == var):
                continue
            n += 1
            where = '%s:%d' % (f.module.relpath, r.lineno)
            ok = r.lineno > chk
            res.ob('R9', where, '%s: return %s %s the occurrence check at '
                   'line %d' % (f.qualname, var, 'after' if ok else 'BEFORE',
                                chk), 'ok' if ok else 'VIOLATED')
            if not ok:
                g = [unparse(e)[:50] for e, _ in flatten_guards(
                    guards_at(r, stop=f.node))]
                res.finding('R9', '%s|early-return|%s' % (f.qualname, g),
                            where, '%s returns the instance under %s before '
                            'the min_occurs/max_occurs test: a request '
                            'omitting mandatory members (e.g. an empty '
                            'element) is accepted under soft validation' % (
                                f.qualname, g))
    res.floor('R9', 'returns of the deserialised instance', n, 2)


# ------------------------------------------------------------------ R10
def rule_r10(prog, res):
    res.rule('R10', 'model validators exempt only None (never a falsy value) '
             'from a facet')
    funcs = []
    for c in prog.all_classes():
        if not c.module.name.startswith('spyne.model'):
            continue
        for nm in ('validate_string', 'validate_native'):
            f = c.methods.get(nm)
            if f is not None:
                funcs.append(f)
    n = guardspec.presence_rule(
        res, 'R10', funcs, {'value', 'val', 'v', 'inst'},
        'the empty string (or 0, an empty list) skips the facet test, so '
        '"" passes min_len >= 1 and the user function runs with it')
    # the same holds inside boolean expressions that are returned
    for f in funcs:
        for node in walk_no_defs(f.node):
            if isinstance(node, ast.Return) and node.value is not None:
                for b in ast.walk(node.value):
                    if isinstance(b, ast.BoolOp):
                        for v in b.values:
                            e = v.operand if isinstance(
                                v, ast.UnaryOp) else v
                            if isinstance(e, ast.Name) and e.id in (
                                    'value', 'val', 'v', 'inst'):
                                where = '%s:%d' % (f.module.relpath,
                                                   v.lineno)
                                res.ob('R10', where, '%s: truthiness of %s '
                                       'in %s' % (f.qualname, e.id,
                                                  unparse(b)[:50]),
                                       'VIOLATED')
                                res.finding(
                                    'R10', '%s|truthiness|%s' % (f.qualname,
                                                                 e.id),
                                    where, '%s exempts every falsy %s from '
                                    'the facet test (%s): the empty string '
                                    'passes min_len, 0 passes range checks' %
                                    (f.qualname, e.id, unparse(b)[:60]))
    res.count('model_validators', len(funcs))
    res.floor('R10', 'None-identity tests in model validators', n, 6)


# ------------------------------------------------------------------ R11
DERIVED = {'_pattern_re': 'pattern'}


def rule_r11(prog, res):
    res.rule('R11', 'a cache derived from a facet is only consulted after '
             'the facet itself was tested')
    n = 0
    for f in prog.all_functions():
        mn = f.module.name
        if not (mn.startswith('spyne.model') or
                mn.startswith('spyne.protocol')):
            continue
        if f.name.startswith('set_') or f.name == '__init__':
            continue
        for a in walk_no_defs(f.node):
            if not (isinstance(a, ast.Attribute) and a.attr in DERIVED and
                    isinstance(a.ctx, ast.Load)):
                continue
            # only uses (method calls / arguments), not the None test itself
            p_ = parent(a)
            if isinstance(p_, ast.Compare):
                continue
            n += 1
            src = DERIVED[a.attr]
            want = '%s.%s is None' % (unparse(a.value), src)
            g = [(unparse(e), pol) for e, pol in flatten_guards(
                guards_at(a, stop=f.node))]
            ok = (want, False) in g
            where = '%s:%d' % (f.module.relpath, a.lineno)
            res.ob('R11', where, '%s: %s used under %s' % (
                f.qualname, unparse(a), g), 'ok' if ok else 'VIOLATED')
            if not ok:
                res.finding('R11', '%s|%s|source-untested' % (f.qualname,
                                                             a.attr), where,
                            '%s consults %s without first testing "%s": the '
                            'cache is only refreshed when a non-None %s is '
                            'assigned, so a type derived with %s=None keeps '
                            'enforcing its parent\'s constraint although '
                            'the declared (and published) facet is gone' % (
                                f.qualname, unparse(a), want, src, src))
    res.floor('R11', 'uses of derived facet caches', n, 1)


def rule_r14(prog, res):
    from . import c08
    from ..report import Result
    txt = ('range checks run on the instant the literal denotes: offset '
           'sign and lexical patterns (C08-R4, C08-R11)')
    res.share('R14', txt, 'C08', c08.rule_r4, prog, Result)
    res.share('R14', txt, 'C08', c08.rule_r11, prog, Result)
    from . import c17
    res.share('R14', txt, 'C17', c17.rule_clean_tree, prog, Result)


def rule_r12(prog, res):
    from . import c12
    from ..report import Result
    res.share('R12', 'attributes resolved for one protocol instance are not '
              'served to another (C12-R5)', 'C12', c12.rule_r5, prog, Result)


# ------------------------------------------------------------------ R13
def rule_r13(prog, res):
    res.rule('R13', 'flat (HttpRpc) documents: the occurrence counter key '
             'identifies an array element by the index the client wrote, '
             'never by its position in the list being built')
    f = prog.cls(SIMPLE).methods.get('simple_dict_to_object')
    if f is None:
        raise AnalysisError('SimpleDictDocument.simple_dict_to_object',
                            'not found')
    # variables composing the counter key
    keyvars = set()
    for a in walk_no_defs(f.node):
        if isinstance(a, ast.Assign) and any(
                isinstance(t, ast.Name) and t.id == 'cfreq_key'
                for t in a.targets):
            keyvars |= {x.id for x in ast.walk(a.value)
                        if isinstance(x, ast.Name)} - {'cfreq_key'}
    res.floor('R13', 'variables composing the counter key', len(keyvars), 2)
    # transitive origins of those variables
    deps = {}
    for a in walk_no_defs(f.node):
        if isinstance(a, ast.Assign):
            pairs = []
            for t in a.targets:
                if isinstance(t, ast.Tuple) and isinstance(
                        a.value, ast.Tuple) and len(t.elts) == len(
                        a.value.elts):
                    pairs.extend(zip(t.elts, a.value.elts))
                else:
                    pairs.append((t, a.value))
            for t, v in pairs:
                names = {x.id for x in ast.walk(v)
                         if isinstance(x, ast.Name)}
                for tt in ast.walk(t):
                    if isinstance(tt, ast.Name) and isinstance(
                            tt.ctx, ast.Store):
                        deps.setdefault(tt.id, set()).update(names)
    positional = {'cidx', '_m', 'ninst', 'idxmap'}
    bad = {}
    for v in sorted(keyvars):
        seen, todo = set(), [v]
        while todo:
            x = todo.pop()
            for d in deps.get(x, ()):
                if d not in seen:
                    seen.add(d)
                    todo.append(d)
        hit = seen & positional
        res.ob('R13', f.where, 'counter key component %s derives from %s' % (
            v, sorted(seen & (positional | {'indexes'})) or 'constants'),
            'VIOLATED' if hit else 'ok')
        if hit:
            bad[v] = hit
    for v, hit in bad.items():
        res.finding('R13', 'SimpleDictDocument.simple_dict_to_object|'
                    'counter-key|%s' % v, f.where,
                    'the occurrence counter key takes %s from %s, the '
                    'position of the element in the list under '
                    'construction: positions shift when a lower index '
                    'arrives after a higher one (p[10] sorts before p[2]), '
                    'so two elements share one counter and min/max_occurs '
                    'of their members are judged on the wrong totals' % (
                        v, sorted(hit)))


# ------------------------------------------------------------------ R15
def _index_order(prog, res):
    """R13 (also): indexes are consumed outermost first, like the path."""
    sdd = prog.cls('spyne.protocol.dictdoc.simple:SimpleDictDocument')
    f = sdd.methods.get('simple_dict_to_object')
    if f is None:
        return
    names = set()
    for a in walk_no_defs(f.node):
        if isinstance(a, ast.Assign) and 'findall' in unparse(a.value):
            for t in a.targets:
                if isinstance(t, ast.Name):
                    names.add(t.id)
    n = 0
    for c in calls_in(f.node):
        if not (isinstance(c.func, ast.Attribute) and isinstance(
                c.func.value, ast.Name) and c.func.value.id in names and
                c.func.attr in ('pop', 'popleft')):
            continue
        n += 1
        first = c.func.attr == 'popleft' or (
            c.args and isinstance(c.args[0], ast.Constant) and
            c.args[0].value == 0)
        where = '%s:%d' % (f.module.relpath, c.lineno)
        res.ob('R13', where, 'simple_dict_to_object takes the next index '
               'with %s' % unparse(c), 'ok' if first else 'VIOLATED')
        if not first:
            res.finding('R13', 'simple_dict_to_object|index-order', where,
                        'the member path is walked outermost first but %s '
                        'takes the innermost index: with two nested repeating '
                        'levels (g.rows[1].cells[2].v) every level is counted '
                        'under the other one\'s index, so occurrence bounds '
                        'are compared with transposed counts' % unparse(c))
    res.floor('R13', 'index consumption sites', n, 1)
    # the sparse -> contiguous index map is kept per list object
    k_ = 0
    for sub in walk_no_defs(f.node):
        if isinstance(sub, ast.Subscript) and unparse(sub.value) == 'idxmap':
            k_ += 1
            per_list = any(isinstance(y, ast.Name) and y.id == 'ninst'
                           for y in ast.walk(sub.slice))
            where = '%s:%d' % (f.module.relpath, sub.lineno)
            res.ob('R13', where, 'simple_dict_to_object keys idxmap by %s' %
                   unparse(sub.slice), 'ok' if per_list else 'VIOLATED')
            if not per_list:
                res.finding('R13', 'simple_dict_to_object|index-map-key',
                            where, 'the index map is keyed by %s, not by the '
                            'list the index belongs to: lists reached '
                            'through members of one name share a map, so '
                            'orders[1].lines[0] finds the position recorded '
                            'for orders[0].lines and indexes the still empty '
                            'list (IndexError out of the WSGI callable, or '
                            'items filed under the wrong parent)' %
                            unparse(sub.slice))
    res.floor('R13', 'idxmap subscripts', k_, 1)
    # the pattern that finds the indexes admits every index, not only 0-9
    import re as _re
    m_ = sdd.module
    v = m_.consts.get('RE_HTTP_ARRAY_INDEX')
    if v is None:
        raise AnalysisError('simple.RE_HTTP_ARRAY_INDEX', 'not found')
    src = v.args[0] if isinstance(v, ast.Call) and v.args else v
    okf, pat = (True, src.value) if isinstance(src, ast.Constant) else \
        try_fold(prog, m_, src)
    if okf and isinstance(pat, str):
        rx = _re.compile(pat)
        samples = ['a[0]', 'a[9]', 'a[10]', 'a[123]', 'a[4096]']
        bad = [x for x in samples if rx.findall(x) != [x[2:-1]]]
        where = '%s:%d' % (m_.relpath, v.lineno)
        res.ob('R13', where, 'RE_HTTP_ARRAY_INDEX = %r finds the index of '
               '%d/%d sample keys' % (pat, len(samples) - len(bad),
                                      len(samples)),
               'VIOLATED' if bad else 'ok')
        if bad:
            res.finding('R13', 'RE_HTTP_ARRAY_INDEX|index-width', where,
                        'the pattern %r does not find the index in %s: such '
                        'keys are not recognised as array members and are '
                        'dropped before any validation or counting (items '
                        'from index 10 on vanish over HttpRpc)' % (pat, bad))
    else:
        res.unclass('R13', m_.relpath, 'RE_HTTP_ARRAY_INDEX is not constant')


def rule_r15(prog, res):
    res.rule('R15', 'flat documents: a key counts once per value it carries, '
             'whatever the kind of the member')
    f = prog.cls(SIMPLE).methods.get('simple_dict_to_object')
    if f is None:
        raise AnalysisError('SimpleDictDocument.simple_dict_to_object',
                            'not found')
    incs = [a for a in walk_no_defs(f.node) if isinstance(a, ast.AugAssign)
            and isinstance(a.target, ast.Subscript) and
            unparse(a.target.slice) == 'member.path[-1]']
    res.floor('R15', 'leaf member counter updates', len(incs), 1)
    for a in incs:
        where = '%s:%d' % (f.module.relpath, a.lineno)
        ok = isinstance(a.op, ast.Add) and unparse(a.value) == 'len(value)'
        res.ob('R15', where, 'leaf counter += %s' % unparse(a.value),
               'ok' if ok else 'VIOLATED')
        if not ok:
            res.finding('R15', 'simple_dict_to_object|leaf-counter|%s' %
                        unparse(a.value), where, 'the occurrence counter of a '
                        'leaf member grows by %s, not by the number of values '
                        'the key carries: n=5&n=6 counts once for a '
                        'max_occurs=1 member, passes the frequency check and '
                        'the extra value is silently dropped' %
                        unparse(a.value))
        loop = a
        while not isinstance(loop, (ast.For, ast.FunctionDef)):
            loop = loop._parent
        atoms = guardspec.atoms_at(a, loop)
        kind = [(t, p_) for t, p_ in atoms if 'max_occurs' in t or
                'member.type' in t or 'member_attrs' in t]
        res.ob('R15', where, 'leaf counter update runs under %s' % (
            ['%s%s' % ('' if p_ else 'not ', t) for t, p_ in atoms]),
            'VIOLATED' if kind else 'ok')
        for t, p_ in kind:
            res.finding('R15', 'simple_dict_to_object|leaf-counter|kind-guard',
                        where, 'the leaf counter update depends on the kind '
                        'of the member ("%s%s"): members of the other kind '
                        'are not counted per value' % ('' if p_ else 'not ',
                                                       t))


# ------------------------------------------------------------------ R16
def rule_r16(prog, res):
    res.rule('R16', 'the fixed-width integer factories extend the validator '
             'of the class they derive from (sibling agreement of '
             'TBoundedInteger / TBoundedUnsignedInteger)')
    n = 0
    for c in prog.all_classes():
        if not c.module.relpath.startswith('spyne/model/'):
            continue
        # the fixed-width factories only: hand-written types skip levels on
        # purpose (Uuid's native type is not text; PositiveInteger's own test
        # subsumes its parent's)
        if not any(isinstance(fn, (ast.FunctionDef,)) and
                   fn.name.startswith('TBounded') and c.node in ast.walk(fn)
                   for fn in c.module.tree.body):
            continue
        bases = [unparse(b).split('.')[-1] for b in c.node.bases]
        # Unicode(pattern=...)-style bases: the called class
        bases += [call_name(b) for b in c.node.bases
                  if isinstance(b, ast.Call)]
        for nm in ('validate_native', 'validate_string'):
            f = c.methods.get(nm)
            if f is None:
                continue
            for call in calls_in(f.node):
                if call_name(call) != nm or not isinstance(
                        call.func, ast.Attribute) or not isinstance(
                        call.func.value, ast.Name):
                    continue
                who = call.func.value.id
                if who in ('cls', 'self', 'super'):
                    continue
                n += 1
                ok = who in bases
                where = '%s:%d' % (c.module.relpath, call.lineno)
                res.ob('R16', where, '%s.%s chains to %s (bases: %s)' % (
                    c.name, nm, who, bases), 'ok' if ok else 'VIOLATED')
                if not ok:
                    res.finding('R16', '%s.%s|chains-past-parent|%s' % (
                        c.name, nm, who), where, '%s.%s calls %s.%s although '
                        '%s extends %s: the checks the parent adds (sign, '
                        'whole number, range, pattern) are skipped for this '
                        'type, so values the parent rejects are accepted' % (
                            c.name, nm, who, nm, c.name, bases))
    res.floor('R16', 'validator chain calls in the fixed-width factories', n, 2)


# ------------------------------------------------------------------ R17
def rule_r17(prog, res):
    res.rule('R17', 'the flat-document reader is handed the protocol\'s '
             'validator for headers and body alike (argument bound to the '
             'validator parameter, by name or position)')
    c = prog.cls(SIMPLE)
    g = c.methods.get('simple_dict_to_object')
    if g is None:
        raise AnalysisError('SimpleDictDocument.simple_dict_to_object',
                            'not found')
    ps = [p_ for p_ in g.params() if p_ != 'self']
    if 'validator' not in ps:
        raise AnalysisError('simple_dict_to_object', 'no validator parameter')
    idx = ps.index('validator')
    n = 0
    for mod in prog.modules.values():
        if not mod.relpath.startswith('spyne/protocol/'):
            continue
        for f in mod.functions.values():
            for call in calls_in(f.node):
                if call_name(call) != 'simple_dict_to_object' or \
                        f.name == 'simple_dict_to_object':
                    continue
                n += 1
                passed = None
                for kw in call.keywords:
                    if kw.arg == 'validator':
                        passed = kw.value
                if passed is None and idx < len(call.args):
                    passed = call.args[idx]
                txt = unparse(passed) if passed is not None else '<default>'
                ok = passed is not None and txt.split('.')[-1] == 'validator'
                where = '%s:%d' % (mod.relpath, call.lineno)
                res.ob('R17', where, '%s: simple_dict_to_object(validator=%s)'
                       % (f.qualname, txt), 'ok' if ok else 'VIOLATED')
                if not ok:
                    res.finding('R17', '%s|validator-argument|%s' % (
                        f.qualname, txt[:30]), where, '%s binds %s to the '
                        'validator parameter of simple_dict_to_object: every '
                        '"validator is SOFT_VALIDATION" test is false for '
                        'that object, so its values are parsed but never '
                        'validated (length, pattern, range, occurrence)' % (
                            f.qualname, txt))
    res.floor('R17', 'calls of the flat-document reader', n, 2)


# ------------------------------------------------------------------ R18
def rule_r18(prog, res):
    res.rule('R18', 'the XML leaf readers validate and decode the same text: '
             'what validate_string sees is what from_unicode receives (the '
             'None of an empty element is substituted before both)')
    x = prog.cls('spyne.protocol.xml:XmlDocument')
    n = 0
    for nm in ('unicode_from_element', 'byte_array_from_element',
               'base_from_element'):
        f = x.methods.get(nm)
        if f is None:
            continue
        vs = [c for c in calls_in(f.node) if call_name(c) == 'validate_string'
              and len(c.args) >= 2]
        fu = [c for c in calls_in(f.node) if call_name(c) == 'from_unicode'
              and len(c.args) >= 2]
        if not vs or not fu:
            continue
        n += 1
        a, b = unparse(vs[0].args[1]), unparse(fu[0].args[1])
        ok = a == b
        res.ob('R18', f.where, '%s validates %s and decodes %s' % (nm, a, b),
               'ok' if ok else 'VIOLATED')
        if not ok:
            res.finding('R18', 'XmlDocument.%s|validates-raw-text' % nm,
                        f.where, '%s validates %s but decodes %s: for an '
                        'empty element the validator sees None (which skips '
                        'the length and pattern tests) while the reader '
                        'delivers the substituted value' % (nm, a, b))
    res.floor('R18', 'XML leaf readers with a validation sandwich', n, 3)


def rule_r19(prog, res):
    res.rule('R19', 'an XmlAttribute/XmlData member is validated with the '
             'constraints of the type it wraps: the wrapper delegates '
             'validate_string/validate_native to cls.type, or the dict '
             'readers unwrap it before validating')
    m = prog.cls('spyne.model.complex:XmlModifier')
    delegated = []
    for nm in ('validate_string', 'validate_native'):
        f = m.methods.get(nm)
        ok = False
        if f is not None and len(f.params()) >= 2:
            cp, vp = f.params()[0], f.params()[1]
            rets = [r for r in walk_no_defs(f.node)
                    if isinstance(r, ast.Return)]
            ok = bool(rets) and all(
                isinstance(r.value, ast.Call) and
                unparse(r.value.func) == '%s.type.%s' % (cp, nm) and
                [unparse(a) for a in r.value.args] == ['%s.type' % cp, vp]
                for r in rets)
        delegated.append(ok)
        res.ob('R19', (f.where if f is not None else m.where),
               'XmlModifier.%s %s' % (nm, 'delegates to the wrapped type'
                                      if ok else 'is inherited or does not '
                                      'delegate'), 'ok', nontrivial=ok)
    if all(delegated):
        return
    # otherwise both dict readers must unwrap the modifier themselves
    readers = [('spyne.protocol.dictdoc.hier:HierDictDocument',
                '_from_dict_value'),
               ('spyne.protocol.dictdoc.simple:SimpleDictDocument',
                '_to_native_values')]
    for cfq, nm in readers:
        c = prog.cls(cfq)
        f = c.methods.get(nm)
        if f is None:
            raise AnalysisError('%s.%s' % (c.name, nm), 'not found')
        unwraps = False
        for a in walk_no_defs(f.node):
            if isinstance(a, ast.Assign) and isinstance(
                    a.value, ast.Attribute) and a.value.attr == 'type':
                g = guardspec.atoms_at(a, f.node)
                if any(pol and ('XmlModifier' in t or 'XmlAttribute' in t)
                       for t, pol in g):
                    unwraps = True
        res.ob('R19', f.where, '%s.%s %s' % (
            c.name, nm, 'unwraps XmlModifier members' if unwraps else
            'validates the wrapper class'), 'ok' if unwraps else 'VIOLATED')
        if not unwraps:
            res.finding('R19', 'XmlModifier|constraints-of-wrapped-type|%s'
                        % nm, f.where, 'XmlModifier inherits ModelBase.'
                        'validate_string/validate_native (nullability only) '
                        'and %s.%s validates the wrapper class: the range, '
                        'length, pattern and enumeration of XmlAttribute('
                        'UnsignedByte) etc. are enforced over XML only, so '
                        'the same logical request is accepted over JSON/'
                        'YAML/MessagePack/HttpRpc' % (c.name, nm))


def rule_r20(prog, res):
    res.rule('R20', 'dict documents test an array member against the '
             'array\'s own occurrence bounds and count its items where the '
             'array is read (the hierarchical reader counts keys, not items)')
    d = prog.cls('spyne.protocol.dictdoc._base:DictDocument')
    f = d.methods.get('_check_freq_dict')
    if f is None:
        raise AnalysisError('DictDocument._check_freq_dict', 'not found')
    n = 0
    for br in walk_no_defs(f.node):
        if not (isinstance(br, ast.If) and 'Array' in unparse(br.test)):
            continue
        rebinds = [a for st in br.body for a in ast.walk(st)
                   if isinstance(a, ast.Assign) and any(
                       isinstance(x, ast.Name) and x.id in ('min_o', 'max_o')
                       for t in a.targets for x in ast.walk(t))]
        if not rebinds:
            continue
        n += 1
        # only an array that occurs once stands for its items
        conj = br.test.values if isinstance(br.test, ast.BoolOp) and \
            isinstance(br.test.op, ast.And) else [br.test]
        once = any(isinstance(c_, ast.Compare) and isinstance(
            c_.ops[0], ast.Eq) and 'max_o' in unparse(c_.left) and
            isinstance(c_.comparators[0], ast.Constant) and
            c_.comparators[0].value == 1 for c_ in conj)
        res.ob('R20', '%s:%d' % (f.module.relpath, br.lineno),
               '_check_freq_dict treats %s as a single wrapper' % (
                   'an array with max_occurs == 1' if once else 'every array'),
               'ok' if once else 'VIOLATED')
        if not once:
            res.finding('R20', 'DictDocument._check_freq_dict|repeated-array-'
                        'as-wrapper', '%s:%d' % (f.module.relpath, br.lineno),
                        'the branch that only tests presence and then the '
                        'item bounds is taken for every Array member: for a '
                        'member that itself repeats (Array(Integer, '
                        'max_occurs=2): arrays of arrays) the number of '
                        'arrays is never compared with its own '
                        'min/max_occurs over JSON/YAML/MessagePack')
        first = min(a.lineno for a in rebinds)
        own = [r for st in br.body for r in ast.walk(st)
               if isinstance(r, ast.Raise) and r.lineno < first]
        ok = bool(own)
        where = '%s:%d' % (f.module.relpath, br.lineno)
        res.ob('R20', where, '_check_freq_dict %s the array\'s own '
               'min_occurs before it switches to the bounds of the item type'
               % ('tests' if ok else 'discards'), 'ok' if ok else 'VIOLATED')
        if not ok:
            res.finding('R20', 'DictDocument._check_freq_dict|array-bounds-'
                        'discarded', where, 'for an Array member the bounds '
                        'are replaced by those of the item type before the '
                        'count is compared: a missing Array(Unicode, '
                        'min_occurs=1) passes against the item type\'s '
                        'min_occurs=0 over JSON/YAML/MessagePack/HttpRpc '
                        'while XML and SOAP refuse it')
    res.floor('R20', 'array branches in _check_freq_dict', n, 1)
    h = prog.cls('spyne.protocol.dictdoc.hier:HierDictDocument')
    g_ = h.methods.get('_doc_to_object')
    if g_ is None:
        raise AnalysisError('HierDictDocument._doc_to_object', 'not found')
    # what the hierarchical reader counts per member
    per_key = any(isinstance(a, ast.AugAssign) and
                  'frequencies' in unparse(a.target) and isinstance(
                      a.value, ast.Constant) and a.value.value == 1
                  for a in walk_no_defs(g_.node))
    calls = [c for c in calls_in(g_.node)
             if call_name(c) == '_check_freq_dict']
    res.floor('R20', 'frequency checks in _doc_to_object', len(calls), 1)
    for c in calls:
        flag = [k.value for k in c.keywords if k.arg == 'counts_items']
        if len(c.args) >= 4:
            flag = [c.args[3]]
        says_keys = bool(flag) and isinstance(flag[0], ast.Constant) and \
            flag[0].value is False
        ok = says_keys or not per_key
        where = '%s:%d' % (g_.module.relpath, c.lineno)
        res.ob('R20', where, '_doc_to_object counts keys and tells '
               '_check_freq_dict %s' % ('so' if ok else 'nothing: the count '
                                        'is taken for a number of items'),
               'ok' if ok else 'VIOLATED')
        if not ok:
            res.finding('R20', 'HierDictDocument._doc_to_object|key-count-as-'
                        'item-count', where, 'the reader adds 1 per key and '
                        '_check_freq_dict compares that with the item '
                        'bounds of an Array member: Array(Unicode(min_occurs='
                        '2, max_occurs=3)) is refused for 2 and 3 items and '
                        'max_occurs=2 accepts 3')
    arr = [b for b in walk_no_defs(g_.node) if isinstance(b, ast.If) and
           unparse(b.test) == 'issubclass(cls, Array)']
    res.floor('R20', 'array branches in _doc_to_object', len(arr), 1)
    for b in arr:
        cmps = [c for st in b.body for c in ast.walk(st)
                if isinstance(c, ast.Compare) and any(
                    isinstance(x, ast.Call) and call_name(x) == 'len'
                    for x in ast.walk(c))]
        lo = any('min_occurs' in unparse(c) for c in cmps)
        hi = any('max_occurs' in unparse(c) for c in cmps)
        raises = [r for st in b.body for r in ast.walk(st)
                  if isinstance(r, ast.Raise)]
        ok = lo and hi and len(raises) >= 3
        where = '%s:%d' % (g_.module.relpath, b.lineno)
        res.ob('R20', where, '_doc_to_object compares the number of items '
               'of an array with min_occurs: %s, max_occurs: %s' % (lo, hi),
               'ok' if ok else 'VIOLATED')
        if not ok:
            res.finding('R20', 'HierDictDocument._doc_to_object|items-not-'
                        'counted|%s' % ('max' if lo else 'min'), where,
                        'the array reader never compares the number of items '
                        'with the %s of the item type: the verdict differs '
                        'from HttpRpc for the same logical request' % (
                            'max_occurs' if lo else 'min_occurs'))
    # the XML sibling: same comparison in array_from_element
    x = prog.cls('spyne.protocol.xml:XmlDocument')
    af = x.methods.get('array_from_element')
    if af is None:
        raise AnalysisError('XmlDocument.array_from_element', 'not found')
    cmps = [c for c in ast.walk(af.node) if isinstance(c, ast.Compare) and
            any(isinstance(y, ast.Call) and call_name(y) == 'len'
                for y in ast.walk(c))]
    lo = any('min_occurs' in unparse(c) for c in cmps)
    hi = any('max_occurs' in unparse(c) for c in cmps)
    raises = [r for r in walk_no_defs(af.node) if isinstance(r, ast.Raise)]
    soft = any(any('SOFT_VALIDATION' in t for t, _ in guardspec.atoms_at(
        r, af.node)) for r in raises)
    ok = lo and hi and soft
    res.ob('R20', af.where, 'array_from_element compares the number of items '
           'with min_occurs: %s, max_occurs: %s, under soft validation: %s' % (
               lo, hi, soft), 'ok' if ok else 'VIOLATED')
    if not ok:
        res.finding('R20', 'XmlDocument.array_from_element|items-not-counted',
                    af.where, 'the XML array reader never compares the '
                    'number of items with the item type\'s min/max_occurs '
                    'under soft validation: Array(Unicode(max_occurs=2)) '
                    'takes 3 items over XML/SOAP soft while the lxml '
                    'validator and the dict documents refuse them')


def rule_r21(prog, res):
    res.rule('R21', 'text that reaches a Unicode member of a dict document '
             'as bytes (msgpack bin, bytearray, memoryview) is held to the '
             'string constraints after it is decoded: the early '
             'validate_string only sees str values')
    h = prog.cls('spyne.protocol.dictdoc.hier:HierDictDocument')
    f = h.methods.get('_from_dict_value')
    if f is None:
        raise AnalysisError('HierDictDocument._from_dict_value', 'not found')
    vs = [c for c in calls_in(f.node) if call_name(c) == 'validate_string'
          and len(c.args) >= 2]
    res.floor('R21', 'validate_string calls in _from_dict_value', len(vs), 1)
    early_str_only = False
    late = False
    for c in vs:
        atoms = guardspec.atoms_at(c, f.node)
        arg = unparse(c.args[1])
        if any('string_types' in t and pol for t, pol in atoms) and \
                arg in f.params():
            early_str_only = True       # validates the raw value if str
        if arg not in f.params() and any(
                'Unicode' in t and pol for t, pol in atoms):
            late = True                 # validates the decoded text
    ok = late or not early_str_only
    res.ob('R21', f.where, '_from_dict_value validates raw str values only: '
           '%s; validates decoded text of a Unicode member: %s' % (
               early_str_only, late), 'ok' if ok else 'VIOLATED')
    if not ok:
        res.finding('R21', 'HierDictDocument._from_dict_value|bytes-text-'
                    'unvalidated', f.where, 'validate_string runs only for '
                    'values that are already str; a msgpack bin value for '
                    'Unicode(max_len=3) is decoded afterwards and never held '
                    'to max_len/pattern/values: b"abcdef" is delivered')


def rule_r22(prog, res):
    res.rule('R22', 'get_cls_attrs applies the attributes given for the '
             'protocol class first and those given for the protocol instance '
             'last (instances override classes)')
    p = prog.cls('spyne.protocol._base:ProtocolMixin')
    f = p.methods.get('get_cls_attrs')
    if f is None:
        raise AnalysisError('ProtocolMixin.get_cls_attrs', 'not found')
    gets = sorted([c for c in calls_in(f.node) if call_name(c) == 'get' and
                   isinstance(c.func, ast.Attribute) and
                   'prot_attrs' in unparse(c.func.value) and c.args],
                  key=lambda c: (c.lineno, c.col_offset))
    keys = [unparse(c.args[0]) for c in gets]
    res.floor('R22', 'prot_attrs look-ups in get_cls_attrs', len(keys), 2)
    ok = bool(keys) and keys[-1] == 'self' and 'self.__class__' in keys[:-1]
    res.ob('R22', f.where, 'get_cls_attrs applies prot_attrs of %s, in that '
           'order' % keys, 'ok' if ok else 'VIOLATED')
    if not ok:
        res.finding('R22', 'ProtocolMixin.get_cls_attrs|override-order',
                    f.where, 'the attributes keyed by the protocol instance '
                    'are not the last ones applied (%s): the class-wide '
                    'min/max_occurs, nullable or max_str_len replace the '
                    'per-endpoint ones every reader validates with' % keys)


def rule_r23(prog, res):
    res.rule('R23', 'the validate_freq switch is read from the class that is '
             'being read, not from the item type of an array (primitives do '
             'not declare it: the per-protocol attribute table answers None)')
    n = 0
    for f in prog.all_functions():
        if not f.module.name.startswith('spyne.protocol.'):
            continue
        items = set()
        for a in walk_no_defs(f.node):
            if isinstance(a, ast.Assign) and isinstance(
                    a.targets[0], (ast.Tuple, ast.List)) and len(
                    a.targets[0].elts) == 1 and isinstance(
                    a.targets[0].elts[0], ast.Name) and \
                    unparse(a.value).endswith('._type_info.values()'):
                items.add(a.targets[0].elts[0].id)
        if not items:
            continue
        reads = [x for x in walk_no_defs(f.node) if isinstance(
            x, ast.Attribute) and x.attr == 'validate_freq' and
            isinstance(x.ctx, ast.Load)]
        for x in reads:
            n += 1
            recv = [x.value]
            if isinstance(x.value, ast.Name):
                # the closest assignment above the read
                prev = [a for a in walk_no_defs(f.node)
                        if isinstance(a, ast.Assign) and any(
                            isinstance(t, ast.Name) and t.id == x.value.id
                            for t in a.targets) and a.lineno <= x.lineno]
                recv = [max(prev, key=lambda a: a.lineno).value] if prev \
                    else []
            bad = [r for r in recv if isinstance(r, ast.Call) and
                   call_name(r) == 'get_cls_attrs' and r.args and
                   isinstance(r.args[-1], ast.Name) and
                   r.args[-1].id in items]
            where = '%s:%d' % (f.module.relpath, x.lineno)
            res.ob('R23', where, '%s reads validate_freq from %s' % (
                f.qualname, [unparse(r) for r in recv]),
                'VIOLATED' if bad else 'ok')
            if bad:
                res.finding('R23', '%s|validate-freq-of-item-type' %
                            f.qualname, where, '%s decides whether to count '
                            'the items of an array from the attributes of '
                            'the item type (%s): only complex classes '
                            'declare validate_freq, so for Array(Integer('
                            'max_occurs=2)) the switch reads as None and the '
                            'occurrence check is skipped, while the XML '
                            'readers refuse the same request' % (
                                f.qualname, unparse(bad[0])))
    res.floor('R23', 'validate_freq reads in array readers', n, 1)


def rule_r24(prog, res):
    from . import c04
    from ..report import Result
    res.share('R24', 'the enumeration facet is a membership test in the '
              'declared values, in the validator and in the readers (C04-R7)',
              'C04', c04.rule_r7, prog, Result)


# ------------------------------------------------------------------ R25
_FLIP = {ast.Lt: ast.Gt, ast.Gt: ast.Lt, ast.LtE: ast.GtE, ast.GtE: ast.LtE}


def _occurs_bound(e, aliases):
    """'min' / 'max' when ``e`` reads a declared occurrence bound (the
    attribute itself or a local bound to it), else None."""
    if isinstance(e, ast.Attribute) and e.attr in ('min_occurs',
                                                   'max_occurs'):
        return e.attr[:3]
    if isinstance(e, ast.Name):
        return aliases.get(e.id)
    return None


def rule_r25(prog, res):
    res.rule('R25', 'occurrence bounds are inclusive in every reader: a guard '
             'that refuses a request compares a count with the declared '
             'bounds as count < min_occurs / count > max_occurs (exactly '
             'min_occurs and exactly max_occurs items are accepted), in the '
             'XML readers, the dict-document readers and the flat reader '
             'alike')
    n = 0
    for m in prog.modules.values():
        if not (m.name.startswith('spyne.protocol') or
                m.name.startswith('spyne.model')):
            continue
        for f in [x for x in ast.walk(m.tree) if isinstance(
                x, (ast.FunctionDef, ast.Lambda))]:
            aliases = {}
            for a in walk_no_defs(f):
                if isinstance(a, ast.Assign) and len(a.targets) == 1:
                    t, v = a.targets[0], a.value
                    pairs = []
                    if isinstance(t, ast.Tuple) and isinstance(
                            v, ast.Tuple) and len(t.elts) == len(v.elts):
                        pairs = zip(t.elts, v.elts)
                    else:
                        pairs = [(t, v)]
                    for tt, vv in pairs:
                        if isinstance(tt, ast.Name) and isinstance(
                                vv, ast.Attribute) and vv.attr in (
                                'min_occurs', 'max_occurs'):
                            aliases[tt.id] = vv.attr[:3]
            for c in walk_no_defs(f):
                if not isinstance(c, ast.Compare) or len(c.ops) != 1 or \
                        type(c.ops[0]) not in _FLIP:
                    continue
                l, r = c.left, c.comparators[0]
                op = type(c.ops[0])
                kb = _occurs_bound(r, aliases)
                count = l
                if kb is None:
                    kb = _occurs_bound(l, aliases)
                    count = r
                    op = _FLIP[op]
                if kb is None or isinstance(count, ast.Constant) or \
                        _occurs_bound(count, aliases):
                    continue
                # a refusing guard: the innermost if whose test holds this
                # comparison positively and whose body always raises
                st = c
                while st is not None and not isinstance(st, ast.stmt):
                    st = parent(st)
                if not isinstance(st, ast.If) or not any(
                        x is c for x in ast.walk(st.test)):
                    continue
                pol = True
                cur = c
                while cur is not st.test:
                    p_ = parent(cur)
                    if isinstance(p_, ast.UnaryOp) and isinstance(
                            p_.op, ast.Not):
                        pol = not pol
                    cur = p_
                raising = bool(st.body) and all(
                    isinstance(x, ast.Raise) for x in st.body[-1:]) 
                if not raising:
                    continue
                n += 1
                if not pol:
                    op = {ast.Lt: ast.GtE, ast.GtE: ast.Lt, ast.Gt: ast.LtE,
                          ast.LtE: ast.Gt}[op]
                ok = (kb == 'min' and op is ast.Lt) or (
                    kb == 'max' and op is ast.Gt)
                where = '%s:%d' % (m.relpath, c.lineno)
                res.ob('R25', where, 'refusing guard %s (count vs %s_occurs)'
                       % (unparse(c), kb), 'ok' if ok else 'VIOLATED')
                if not ok:
                    res.finding('R25', '%s|occurs-bound|%s|%s' % (
                        getattr(f, 'name', 'lambda'), kb, unparse(c)), where,
                        'a request is refused when %s: a member that occurs '
                        'exactly %s_occurs times (or a count on the wrong '
                        'side of the bound) gets a verdict that differs '
                        'from the published schema and from the sibling '
                        'readers' % (unparse(c), kb))
    res.floor('R25', 'refusing occurrence guards', n, 6)


def run(prog, res, tier):
    res.run_rule(rule_r1, prog, res)
    res.run_rule(rule_r2, prog, res)
    res.run_rule(rule_r3, prog, res)
    res.run_rule(rule_r4, prog, res)
    res.run_rule(rule_r5, prog, res)
    res.run_rule(rule_r6, prog, res)
    res.run_rule(rule_r7, prog, res)
    res.run_rule(rule_r8, prog, res)
    res.run_rule(rule_r9, prog, res)
    res.run_rule(rule_r10, prog, res)
    res.run_rule(rule_r11, prog, res)
    res.run_rule(rule_r12, prog, res)
    res.run_rule(rule_r13, prog, res)
    res.run_rule(_index_order, prog, res)
    res.run_rule(rule_r14, prog, res)
    res.run_rule(rule_r15, prog, res)
    res.run_rule(rule_r16, prog, res)
    res.run_rule(rule_r17, prog, res)
    res.run_rule(rule_r18, prog, res)
    res.run_rule(rule_r19, prog, res)
    res.run_rule(rule_r20, prog, res)
    res.run_rule(rule_r21, prog, res)
    res.run_rule(rule_r22, prog, res)
    res.run_rule(rule_r23, prog, res)
    res.run_rule(rule_r24, prog, res)
    res.run_rule(rule_r25, prog, res)


_X = 'spyne/protocol/xml.py'
_H = 'spyne/protocol/dictdoc/hier.py'
_D = 'spyne/protocol/dictdoc/_base.py'
_N = 'spyne/model/primitive/number.py'
_S = 'spyne/model/primitive/string.py'
_DT = 'spyne/model/primitive/datetime.py'
_PB = 'spyne/model/primitive/_base.py'
_I = 'spyne/protocol/_inbase.py'
_SI = 'spyne/protocol/dictdoc/simple.py'

MUTANTS = [
    Mutant('hier-array-max-exclusive', 'R25', 'fire',
           'spyne/protocol/dictdoc/hier.py',
           in_func('HierDictDocument._doc_to_object',
                   "if len(retval) > attrs.max_occurs:",
                   "if len(retval) >= attrs.max_occurs:"), 'occurs-bound'),
    Mutant('xml-array-min-exclusive', 'R25', 'fire', 'spyne/protocol/xml.py',
           in_func('XmlDocument.array_from_element',
                   "if len(retval) < attrs.min_occurs",
                   "if len(retval) <= attrs.min_occurs"), 'occurs-bound'),
    Mutant('xml-array-bounds-flipped-operands', 'R25', 'benign',
           'spyne/protocol/xml.py',
           in_func('XmlDocument.array_from_element',
                   "if len(retval) < attrs.min_occurs",
                   "if attrs.min_occurs > len(retval)"), None),
    Mutant('array-freq-switch-from-item-type', 'R23', 'fire',
           'spyne/protocol/dictdoc/hier.py',
           in_func('HierDictDocument._doc_to_object',
                   "                                   and self.get_cls_attrs"
                   "(cls).validate_freq:\n",
                   "                            and self.get_cls_attrs"
                   "(serializer).validate_freq:\n"),
           'validate-freq-of-item-type'),
    Mutant('index-map-keyed-by-member-name', 'R13', 'fire', _SI,
           in_func('SimpleDictDocument.simple_dict_to_object',
                   "_m = idxmap[id(ninst)]", "_m = idxmap[pkey]"),
           'index-map-key'),
    Mutant('prot-attrs-class-overrides-instance', 'R22', 'fire',
           'spyne/protocol/_base.py',
           in_func('ProtocolMixin.get_cls_attrs',
                   r"            cls_attrs = cls\.Attributes\.prot_attrs\.get\("
                   r"self\.__class__, \{\}\)\n(.*?)attr\.update\(inst_attrs\)\n",
                   "            for key in (self, self.__class__):\n"
                   "                attr.update(cls.Attributes.prot_attrs.get("
                   "key, {}))\n", regex=True), 'override-order'),
    Mutant('array-index-one-digit', 'R13', 'fire', _SI,
           in_func(None, 'RE_HTTP_ARRAY_INDEX = re.compile(r"\\[([0-9]+)]")',
                   'RE_HTTP_ARRAY_INDEX = re.compile(r"\\[([0-9])]")'),
           'index-width'),
    Mutant('decoded-bytes-text-unvalidated', 'R21', 'fire', _H,
           in_func('HierDictDocument._from_dict_value',
                   "                                and not cls.validate_string"
                   "(cls, retval)):\n                        raise "
                   "ValidationError([key, retval])\n",
                   "                                and False):\n"
                   "                        raise ValidationError([key, retval"
                   "])\n"), 'bytes-text-unvalidated'),
    Mutant('xml-array-items-uncounted', 'R20', 'fire', _X,
           in_func('XmlDocument.array_from_element',
                   "        if self.validator is self.SOFT_VALIDATION:\n",
                   "        if self.validator is self.SCHEMA_VALIDATION:\n"),
           'items-not-counted'),
    Mutant('repeated-array-as-single-wrapper', 'R20', 'fire', _D,
           in_func('DictDocument._check_freq_dict',
                   "if issubclass(v, Array) and v.Attributes.max_occurs == 1:",
                   "if issubclass(v, Array):"), 'repeated-array-as-wrapper'),
    Mutant('indexes-innermost-first', 'R13', 'fire', _SI,
           in_func('SimpleDictDocument.simple_dict_to_object',
                   "nidx = int(indexes.popleft())",
                   "nidx = int(indexes.pop())"), 'index-order'),
    Mutant('array-own-bounds-discarded', 'R20', 'fire', _D,
           in_func('DictDocument._check_freq_dict',
                   "                if val == 0 and min_o > 0:\n"
                   "                    raise ValidationError(\"%r.%s\" % (cls"
                   ", k),\n                             '%%s member must occur"
                   " at least %d times.' % min_o)\n", ""),
           'array-bounds-discarded'),
    Mutant('hier-key-count-as-items', 'R20', 'fire', _H,
           in_func('HierDictDocument._doc_to_object',
                   "            self._check_freq_dict(cls, frequencies, "
                   "flat_type_info,\n                                        "
                   "                     counts_items=False)\n",
                   "            self._check_freq_dict(cls, frequencies, "
                   "flat_type_info)\n"), 'key-count-as-item-count'),
    Mutant('array-items-max-unchecked', 'R20', 'fire', _H,
           in_func('HierDictDocument._doc_to_object',
                   "                if len(retval) > attrs.max_occurs:\n",
                   "                if False:\n"), 'items-not-counted'),
    Mutant('xml-modifier-validates-itself', 'R19', 'fire',
           'spyne/model/complex.py',
           in_func('XmlModifier.validate_native',
                   "return cls.type.validate_native(cls.type, value)",
                   "return ModelBase.validate_native(cls, value)"),
           'constraints-of-wrapped-type'),
    Mutant('xml-modifier-string-check-on-wrapper', 'R19', 'fire',
           'spyne/model/complex.py',
           in_func('XmlModifier.validate_string',
                   "return cls.type.validate_string(cls.type, value)",
                   "return cls.type.validate_string(cls, value)"),
           'constraints-of-wrapped-type'),
    Mutant('header-reader-arguments-shifted', 'R17', 'fire',
           'spyne/protocol/http.py',
           in_func('HttpRpc.deserialize',
                   "in_header_class, self.validator, req_enc=req_enc)",
                   "in_header_class, 'iso-8859-1', self.validator)"),
           'validator-argument'),
    Mutant('unsigned-bounded-chains-to-decimal', 'R16', 'fire',
           'spyne/model/primitive/number.py',
           in_func('TBoundedUnsignedInteger',
                   "UnsignedInteger.validate_native(cls, value)",
                   "Decimal.validate_native(cls, value)"),
           'chains-past-parent'),
    Mutant('scalar-counts-once-per-key', 'R15', 'fire',
           'spyne/protocol/dictdoc/simple.py',
           in_func('SimpleDictDocument.simple_dict_to_object',
                   "frequencies[cfreq_key][member.path[-1]] += len(value)",
                   "frequencies[cfreq_key][member.path[-1]] += 1"),
           'leaf-counter'),
    Mutant('counter-key-by-position', 'R13', 'fire',
           'spyne/protocol/dictdoc/simple.py',
           in_func('SimpleDictDocument.simple_dict_to_object',
                   "                        cinst = ninst[cidx]\n",
                   "                        cinst = ninst[cidx]\n"
                   "                        nidx = cidx\n"), 'counter-key'),
    Mutant('min-len-skips-empty', 'R10', 'fire',
           'spyne/model/primitive/string.py',
           in_func('Unicode.validate_string', "and (value is None or (",
                   "and (not value or ("), 'truthiness'),
    Mutant('pattern-cache-tested-instead-of-facet', 'R11', 'fire',
           'spyne/model/primitive/_base.py',
           in_func('re_match_with_span', "if attr.pattern is None:",
                   "if attr._pattern_re is None:"), 'source-untested'),
    Mutant('pattern-facet-test-local', 'R11', 'benign',
           'spyne/model/primitive/_base.py',
           in_func('re_match_with_span', "if attr.pattern is None:",
                   "pattern = attr.pattern\n    if pattern is None:"), None),
    Mutant('empty-element-fast-path', 'R9', 'fire', _X,
           in_func('XmlDocument.complex_from_element',
                   "        # parse input to set incoming data to related "
                   "attributes.\n",
                   "        if len(elt) == 0 and len(elt.attrib) == 0:\n"
                   "            return inst\n"), 'early-return'),
    Mutant('count-key-rebound-by-loop', 'R2', 'fire', _X,
           in_func('XmlDocument.complex_from_element',
                   "            key = c.tag.split('}', 1)[-1]\n",
                   "            key = c.tag.split('}', 1)[-1]\n"
                   "            for key in c.attrib:\n"
                   "                logger.debug('attribute %r', key)\n"),
           'count-key-shadowed'),
    Mutant('native-check-skips-none', 'R7', 'fire', _H,
           in_func('HierDictDocument._from_dict_value',
                   "        if validator is self.SOFT_VALIDATION:\n"
                   "            if not cls.validate_native(cls, retval):",
                   "        if validator is self.SOFT_VALIDATION and "
                   "retval is not None:\n"
                   "            if not cls.validate_native(cls, retval):"),
           'extra-guard'),
    Mutant('native-check-merged-test', 'R7', 'benign', _H,
           in_func('HierDictDocument._from_dict_value',
                   "        if validator is self.SOFT_VALIDATION:\n"
                   "            if not cls.validate_native(cls, retval):\n"
                   "                raise ValidationError([key, retval])",
                   "        if validator is self.SOFT_VALIDATION and not "
                   "cls.validate_native(cls, retval):\n"
                   "            raise ValidationError([key, retval])\n"
                   "            pass"), None),
    Mutant('decimal-length-guard-short', 'R8', 'fire', _N,
           in_func('Decimal._s_customize',
                   "kwargs['max_str_len'] = td + 3",
                   "kwargs['max_str_len'] = td + 2"), 'max_str_len'),
    Mutant('decimal-length-guard-own-digits', 'R8', 'benign', _N,
           in_func('Decimal._s_customize',
                   "kwargs['max_str_len'] = td + 3",
                   "kwargs['max_str_len'] = td + 4"), None),
    Mutant('element-native-unvalidated', 'R1', 'fire', _X,
           in_func('XmlDocument.base_from_element',
                   r"        if self\.validator is self\.SOFT_VALIDATION and "
                   r"not \(\s*cls\.validate_native\(cls, retval\)\):\n"
                   r"            raise ValidationError\(retval\)\n", "",
                   regex=True), 'base_from_element'),
    Mutant('element-string-unvalidated', 'R1', 'fire', _X,
           in_func('XmlDocument.unicode_from_element',
                   r"        if self\.validator is self\.SOFT_VALIDATION and "
                   r"not \(\s*cls\.validate_string\(cls, s\)\):"
                   r"\n            raise ValidationError\(s\)\n",
                   "", regex=True), 'unicode_from_element'),
    Mutant('element-string-validated-before-substitution', 'R18', 'fire', _X,
           in_func('XmlDocument.unicode_from_element',
                   r"(        # an empty \(non-nil\) element is the empty "
                   r"string\n        s = element\.text\n        if s is None:"
                   r"\n            s = ''\n\n)(        if self\.validator is "
                   r"self\.SOFT_VALIDATION and not \(\s*cls\.validate_string\("
                   r"cls, s\)\):\n            raise ValidationError\(s\)\n\n)",
                   lambda m_: m_.group(2).replace("(cls, s)", "(cls, element."
                   "text)").replace("Error(s)", "Error(element.text)") +
                   m_.group(1), regex=True), 'validates-raw-text'),
    Mutant('attribute-unvalidated', 'R1', 'fire', _X,
           in_func('XmlDocument.complex_from_element',
                   "value = self._validated_from_unicode(member.type, "
                   "value_str)",
                   "value = self.from_unicode(member.type, value_str)"),
           'unvalidated'),
    Mutant('attr-helper-skips-native', 'R1', 'fire', _X,
           in_func('XmlDocument._validated_from_unicode',
                   r"        if self\.validator is self\.SOFT_VALIDATION and "
                   r"not \(\s*cls\.validate_native\(cls, retval\)\):\n"
                   r"            raise ValidationError\(retval\)\n", "",
                   regex=True), '_validated_from_unicode'),
    Mutant('dict-native-unvalidated', 'R1', 'fire', _H,
           in_func('HierDictDocument._from_dict_value',
                   "            if not cls.validate_native(cls, retval):\n"
                   "                raise ValidationError([key, retval])",
                   "            pass"), '_from_dict_value'),
    Mutant('twin-element-hoisted-flag', 'R1', 'benign', _X,
           in_func('XmlDocument.base_from_element',
                   r"        if self\.validator is self\.SOFT_VALIDATION and "
                   r"not \(\s*cls\.validate_string\(cls, element\.text\)\):",
                   "        soft = self.validator is self.SOFT_VALIDATION\n"
                   "        if soft and not cls.validate_string(cls, "
                   "element.text):", regex=True), ''),
    Mutant('freq-per-key', 'R2', 'fire', _H,
           in_func('HierDictDocument._doc_to_object',
                   r"                    frequencies\[k\] \+= 1\n\n"
                   r"            else:\n(.*?)\n                frequencies\[k\]"
                   r" \+= 1\n\n            inst\._safe_set\(k, subinst, "
                   r"member, member_attrs\)\n",
                   r"\n            else:\n\1\n\n            inst._safe_set("
                   r"k, subinst, member, member_attrs)\n"
                   r"            frequencies[k] += 1\n", regex=True),
           'per-key-count'),
    Mutant('freq-max-lenient', 'R2', 'fire', _D,
           in_func('DictDocument._check_freq_dict', "elif val > max_o:",
                   "elif val > max_o + 1:"), 'bounds'),
    Mutant('freq-min-dropped', 'R2', 'fire', _D,
           in_func('DictDocument._check_freq_dict', "if val < min_o:",
                   "if False:"), 'bounds'),
    Mutant('xml-freq-only-max', 'R2', 'fire', _X,
           in_func('XmlDocument.complex_from_element',
                   "if val < attr.min_occurs or val > attr.max_occurs:",
                   "if val > attr.max_occurs:"), 'bounds'),
    Mutant('unsigned-exclusive-max', 'R3', 'fire', _N,
           in_func('TBoundedUnsignedInteger',
                   "(_min_b <= value <= _max_b)", "(_min_b <= value < _max_b)"),
           'inclusive'),
    Mutant('signed-no-room-for-sign', 'R3', 'fire', _N,
           in_func('TBoundedInteger',
                   "max_str_len = math.ceil(math.log(2**num_bits, 10)) + 1",
                   "max_str_len = math.ceil(math.log(2**num_bits, 10))"),
           'max_str_len'),
    Mutant('signed-min-off-by-one', 'R3', 'fire', _N,
           in_func('TBoundedInteger',
                   "_min_b = -(0x8<<(num_bits-4))",
                   "_min_b = -(0x8<<(num_bits-4)) + 1"), 'bounds'),
    Mutant('unsigned-max-pow', 'R3', 'fire', _N,
           in_func('TBoundedUnsignedInteger', "_max_b = 2 ** num_bits - 1",
                   "_max_b = 2 ** num_bits"), 'bounds'),
    Mutant('int16-declared-15-bits', 'R3', 'fire', _N,
           in_func('', "TBoundedInteger(16, 'short')",
                   "TBoundedInteger(15, 'short')"), 'short'),
    Mutant('decimal-gt-inclusive', 'R4', 'fire', _N,
           in_func('Decimal.validate_native',
                   "value >  cls.Attributes.gt", "value >= cls.Attributes.gt"),
           'gt'),
    Mutant('decimal-le-strict', 'R4', 'fire', _N,
           in_func('Decimal.validate_native',
                   "value <= cls.Attributes.le", "value <  cls.Attributes.le"),
           'le'),
    Mutant('decimal-lt-dropped', 'R4', 'fire', _N,
           in_func('Decimal.validate_native',
                   "                value <  cls.Attributes.lt and\n", ""),
           'lt'),
    Mutant('time-ge-strict', 'R4', 'fire', _DT,
           in_func('Time.validate_native', "value >= cls.Attributes.ge",
                   "value > cls.Attributes.ge"), 'ge'),
    Mutant('datetime-rebase-aware', 'R4', 'fire', _DT,
           in_func('DateTime.validate_native',
                   "if isinstance(value, datetime.datetime) and "
                   "value.tzinfo is None:",
                   "if isinstance(value, datetime.datetime):"), 'tz-rebase'),
    Mutant('string-max-len-strict', 'R4', 'fire', _S,
           in_func('Unicode.validate_string',
                   "cls.Attributes.min_len <= len(value) <= "
                   "cls.Attributes.max_len",
                   "cls.Attributes.min_len <= len(value) < "
                   "cls.Attributes.max_len"), 'max_len'),
    Mutant('pattern-prefix-match', 'R4', 'fire', _PB,
           in_func('re_match_with_span',
                   "return attr._pattern_re.fullmatch(value) is not None",
                   "return attr._pattern_re.match(value) is not None"),
           'whole-string'),
    Mutant('pattern-match-plus-span', 'R4', 'fire', _PB,
           in_func('re_match_with_span',
                   "return attr._pattern_re.fullmatch(value) is not None",
                   "m = attr._pattern_re.match(value)\n    return (m is not "
                   "None) and (m.span() == (0, len(value)))"),
           'whole-string'),
    Mutant('twin-string-len-split', 'R4', 'benign', _S,
           in_func('Unicode.validate_string',
                   "cls.Attributes.min_len <= len(value) <= "
                   "cls.Attributes.max_len",
                   "len(value) >= cls.Attributes.min_len and len(value) <= "
                   "cls.Attributes.max_len"), ''),
    Mutant('nil-truthiness', 'R5', 'fire', _X,
           in_func('XmlDocument.from_element',
                   "if element.get(XSI('nil'), '').strip() in ('true', '1'):",
                   "if bool(element.get(XSI('nil'))):"), 'nil-lexical'),
    Mutant('nil-default-before-nillable', 'R5', 'fire', _X,
           in_func('XmlDocument.from_element',
                   r"(            if self\.validator is self\.SOFT_VALIDATION "
                   r"and not \\\n\s*cls_attrs\.nillable:\n"
                   r"                raise ValidationError\(None\)\n\n)"
                   r"(            if self\.replace_null_with_default:\n"
                   r"                return cls_attrs\.default\n\n)",
                   r"\2\1", regex=True), 'nil-order'),
    Mutant('misspelt-constraint', 'R6', 'fire', _I,
           in_func('InProtocolBase._datetime_from_unicode',
                   "retval = retval.astimezone(astz)",
                   "retval = retval.astimezone(cls_attrs.as_time_zone)"),
           'as_time_zone'),
]
