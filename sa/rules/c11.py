"""C11 - a request runs exactly the method it names."""
import ast

from ..core import (AnalysisError, dotted, unparse, calls_in, call_name,
                    walk_no_defs, parent, ancestors, ClassInfo, FuncInfo)
from ..flow import guards_at, flatten_guards, always_exits, SeqFlow, RETURN
from ..mutate import Mutant, in_func
from .. import guardspec

ID = 'C11'
EXPLANATION = (
    'R1 exact-name routing: the value of ctx.method_request_string reaches '
    'the routing table lookup through identity or the conditional '
    "qualification '{%s}%s' % (tns, name) only; case folding, stripping, "
    'partitioning, slicing, prefix/suffix or regex based selection and '
    'iteration over the map with a predicate are reported, at the lookup '
    '(get_call_handles and its overrides) and at every assignment of '
    'method_request_string. R2 duplicates are rejected at construction: '
    'check_unique_method_keys runs before the Interface is built and raises '
    'on a repeated key; in process_method the branch that lets a new primary '
    'descriptor in front of existing ones is taken only when the existing '
    'ones are auxiliary, the final branch raises, and stores into the routing '
    'maps are guarded by absence tests. R3 HTTP patterns are whole-string '
    'matches (span test or fullmatch after every regex match; equality for '
    'the last path segment). R4 the routing key format of writer and readers '
    'agree. Not decided: collisions among generated names.')
ASSUMPTIONS = ['dict lookup is exact-key']
LEVEL_TEXT = (
    'Static dataflow check that the request name reaches the routing lookup '
    'unmodified (blacklisted transformations on that flow), structural check '
    'of duplicate rejection and of whole-string HTTP pattern matching. '
    'Decides these for every lookup site and protocol override.')
LEVEL_NOTE = ('Trusted: dict exact-key semantics; unknown transformations '
              'are recorded, not flagged.')
TECHNIQUE = ('local taint/dataflow over the routing functions + structural '
             'branch analysis + guard entailment (ast)')

BLACK_METHODS = {'lower', 'upper', 'casefold', 'strip', 'lstrip', 'rstrip',
                 'replace', 'title', 'swapcase', 'capitalize', 'partition',
                 'rpartition', 'rsplit', 'translate', 'removeprefix',
                 'removesuffix'}
BLACK_FUNCS = {'unquote', 'unquote_plus', 'unquote_to_bytes', 'normalize',
               'sub', 'subn', 'url_unquote', 'unescape'}


def black_ops(value):
    """Blacklisted (name-changing) operations inside an expression."""
    black = []
    for x in ast.walk(value):
        if isinstance(x, ast.Call) and isinstance(x.func, ast.Attribute) \
                and x.func.attr in BLACK_METHODS:
            black.append('.%s()' % x.func.attr)
        if isinstance(x, ast.Call) and call_name(x) in BLACK_FUNCS and \
                x.args:
            black.append('%s()' % call_name(x))
        if isinstance(x, ast.Call) and isinstance(x.func, ast.Attribute) \
                and x.func.attr in ('decode', 'encode'):
            err = None
            if len(x.args) >= 2:
                err = x.args[1]
            for k in x.keywords:
                if k.arg == 'errors':
                    err = k.value
            if err is not None and not (isinstance(err, ast.Constant) and
                                        err.value == 'strict'):
                black.append('.%s(errors=%s)' % (x.func.attr, unparse(err)))
        if isinstance(x, ast.Subscript) and isinstance(x.slice, ast.Slice):
            black.append('slice')
        if isinstance(x, ast.Call) and isinstance(
                x.func, ast.Attribute) and x.func.attr == 'split':
            a = unparse(x.args[0]) if x.args else ''
            if a not in ("'/'", '"/"', 'self.SLASH'):
                black.append('.split(%s)' % a)
    return black


def backward_slice(fnode, value):
    """Values of the local assignments the expression depends on
    (transitively), the expression itself first."""
    out = [value]
    names = {x.id for x in ast.walk(value) if isinstance(x, ast.Name)}
    seen = set()
    changed = True
    while changed:
        changed = False
        for n in walk_no_defs(fnode):
            if isinstance(n, ast.Assign) and id(n) not in seen:
                tg = {t.id for tt in n.targets for t in ast.walk(tt)
                      if isinstance(t, ast.Name)}
                if tg & names:
                    seen.add(id(n))
                    out.append(n.value)
                    new = {x.id for x in ast.walk(n.value)
                           if isinstance(x, ast.Name)}
                    if not new <= names:
                        names |= new
                    changed = True
    return out


BLACK_PREDICATES = {'startswith', 'endswith', 'search', 'match', 'findall',
                    'fullmatch'}


def tainted_exprs(fnode, seeds):
    """Local names that carry the request name (transitively)."""
    names = set(seeds)
    changed = True
    while changed:
        changed = False
        for n in walk_no_defs(fnode):
            if isinstance(n, ast.Assign):
                src = {x.id for x in ast.walk(n.value)
                       if isinstance(x, ast.Name)}
                srcattr = any(isinstance(x, ast.Attribute) and
                              x.attr == 'method_request_string'
                              for x in ast.walk(n.value))
                if (src & names) or srcattr:
                    for t in n.targets:
                        for tt in (t.elts if isinstance(t, ast.Tuple)
                                   else [t]):
                            if isinstance(tt, ast.Name) and \
                                    tt.id not in names:
                                names.add(tt.id)
                                changed = True
    return names


def transformations(fnode, names):
    """Blacklisted transformations applied to a tainted value."""
    out = []
    for n in walk_no_defs(fnode):
        if isinstance(n, ast.Call) and isinstance(n.func, ast.Attribute) and \
                n.func.attr in BLACK_METHODS:
            base = n.func.value
            if _is_tainted(base, names):
                out.append((n, '.%s()' % n.func.attr))
        if isinstance(n, ast.Subscript) and isinstance(n.slice, ast.Slice) \
                and _is_tainted(n.value, names):
            out.append((n, 'slice ' + unparse(n.slice)))
        if isinstance(n, ast.Call) and isinstance(n.func, ast.Attribute) and \
                n.func.attr == 'split' and _is_tainted(n.func.value, names):
            arg = unparse(n.args[0]) if n.args else ''
            if arg not in ("'/'", 'self.SLASH', '"/"'):
                out.append((n, '.split(%s)' % arg))
    return out


def _is_tainted(expr, names):
    for x in ast.walk(expr):
        if isinstance(x, ast.Name) and x.id in names:
            return True
        if isinstance(x, ast.Attribute) and x.attr == 'method_request_string':
            return True
    return False



def _presence_norm(fnode, mapname):
    """``x = M.get(k)`` + ``x is [not] None`` is the presence test
    ``k [not] in M`` when nothing stores None in M (the stores in
    process_method put the descriptor there, which was dereferenced before):
    rewrite it to that form, and the other reads of x to ``M[k]``."""
    from ..core import set_parents
    if getattr(fnode, '_presence_done', None) == mapname:
        return
    fnode._presence_done = mapname
    stores = {}
    lines = {}
    for n in walk_no_defs(fnode):
        if isinstance(n, ast.Name) and isinstance(n.ctx, ast.Store):
            stores[n.id] = stores.get(n.id, 0) + 1
            lines.setdefault(n.id, []).append(n.lineno)
    cands = {}
    for n in walk_no_defs(fnode):
        if isinstance(n, ast.Assign) and len(n.targets) == 1 and isinstance(
                n.targets[0], ast.Name) and isinstance(n.value, ast.Call) \
                and call_name(n.value) == 'get' and isinstance(
                    n.value.func, ast.Attribute) and unparse(
                    n.value.func.value).endswith(mapname) and \
                not n.value.keywords and (len(n.value.args) == 1 or (
                    len(n.value.args) == 2 and isinstance(
                        n.value.args[1], ast.Constant) and
                    n.value.args[1].value is None)) and isinstance(
                    n.value.args[0], ast.Name) and \
                n in fnode.body and \
                n.targets[0].id not in cands and \
                stores.get(n.value.args[0].id, 0) <= 1:
            # the value is the one read up to the next store of the name
            later = [l for l in lines[n.targets[0].id] if l > n.lineno]
            cands[n.targets[0].id] = (n, n.value.func.value, n.value.args[0],
                                      n.lineno, min(later) if later
                                      else 10 ** 9)
    if not cands:
        return
    import copy

    def live(name):
        c = cands.get(name.id)
        return c is not None and c[3] < name.lineno < c[4]

    class T(ast.NodeTransformer):
        def visit_Compare(self, node):
            if isinstance(node.left, ast.Name) and live(node.left) \
                    and len(node.ops) == 1 and isinstance(
                        node.ops[0], (ast.Is, ast.IsNot)) and isinstance(
                        node.comparators[0], ast.Constant) and \
                    node.comparators[0].value is None:
                st, m, k = cands[node.left.id][:3]
                new = ast.Compare(
                    left=copy.deepcopy(k),
                    ops=[ast.NotIn() if isinstance(node.ops[0], ast.Is)
                         else ast.In()], comparators=[copy.deepcopy(m)])
                return ast.copy_location(new, node)
            return self.generic_visit(node)

        def visit_Name(self, node):
            if live(node) and isinstance(node.ctx, ast.Load):
                st, m, k = cands[node.id][:3]
                new = ast.Subscript(value=copy.deepcopy(m),
                                    slice=copy.deepcopy(k), ctx=ast.Load())
                ast.copy_location(new, node)
                ast.fix_missing_locations(new)
                return new
            return node

        def visit_Assign(self, node):
            for cand in cands.values():
                if node is cand[0]:
                    return ast.copy_location(ast.Pass(), node)
            return self.generic_visit(node)
    up = getattr(fnode, '_parent', None)
    T().visit(fnode)
    ast.fix_missing_locations(fnode)
    set_parents(fnode)
    fnode._parent = up


def rule_r1(prog, res, tier):
    res.rule('R1', 'the request name reaches the routing lookup unmodified')
    proto = prog.cls('spyne.protocol._base:ProtocolMixin')
    impls = []
    for k in prog.subclasses(proto):
        f = k.methods.get('get_call_handles')
        if f is not None:
            impls.append((k, f))
    res.floor('R1', 'get_call_handles implementations', len(impls), 1)
    for k, f in impls:
        names = tainted_exprs(f.node, [])
        where = f.where
        bad = transformations(f.node, names)
        for n, what in bad:
            res.ob('R1', '%s:%d' % (f.module.relpath, n.lineno),
                   '%s.get_call_handles applies %s' % (k.name, what),
                   'VIOLATED')
            res.finding('R1', '%s.get_call_handles|transform|%s' % (k.name,
                                                                    what),
                        '%s:%d' % (f.module.relpath, n.lineno),
                        'the requested method name is transformed with %s '
                        'before the routing lookup: names that differ from a '
                        'registered one (case, prefix/suffix, foreign '
                        'namespace) would be routed to it' % what)
        # the lookup is an exact key lookup with the tainted name
        lookups = []
        for n in walk_no_defs(f.node):
            if isinstance(n, ast.Call) and call_name(n) == 'get' and \
                    'service_method_map' in unparse(n.func):
                lookups.append((n, n.args[0] if n.args else None))
            if isinstance(n, ast.Subscript) and 'service_method_map' in \
                    unparse(n.value) and isinstance(n.ctx, ast.Load):
                lookups.append((n, n.slice))
        for n, key in lookups:
            ok = key is not None and isinstance(key, ast.Name) and \
                key.id in names
            res.ob('R1', '%s:%d' % (f.module.relpath, n.lineno),
                   '%s.get_call_handles looks up %s' % (k.name,
                                                        unparse(n)[:60]),
                   'ok' if ok else 'unclassified')
            if not ok:
                res.unclass('R1', where, 'lookup key ' + unparse(n)[:60])
        # iteration over the map with a predicate
        for n in walk_no_defs(f.node):
            it = None
            if isinstance(n, (ast.For,)):
                it = n.iter
            elif isinstance(n, ast.comprehension):
                it = n.iter
            if it is not None and 'service_method_map' in unparse(it):
                res.ob('R1', '%s:%d' % (f.module.relpath, it.lineno),
                       '%s.get_call_handles iterates the routing map' %
                       k.name, 'VIOLATED')
                res.finding('R1', '%s.get_call_handles|scan' % k.name,
                            '%s:%d' % (f.module.relpath, it.lineno),
                            'the routing map is scanned with a predicate '
                            'instead of an exact key lookup')
        # the qualification: '{%s}%s' % (tns, name) under not startswith('{')
        quals = [n for n in walk_no_defs(f.node) if isinstance(n, ast.BinOp)
                 and isinstance(n.op, ast.Mod) and isinstance(
                     n.left, ast.Constant)]
        for q in quals:
            fmt = q.left.value
            ok = fmt == '{%s}%s'
            g = flatten_guards(guards_at(q, stop=f.node))
            guarded = any(
                isinstance(e, ast.Call) and call_name(e) == 'startswith' and
                e.args and isinstance(e.args[0], ast.Constant) and
                e.args[0].value == '{' and not pol for e, pol in g)
            res.ob('R1', '%s:%d' % (f.module.relpath, q.lineno),
                   '%s.get_call_handles qualifies with %r %s' % (
                       k.name, fmt, 'only when the name is unqualified'
                       if guarded else 'UNCONDITIONALLY'),
                   'ok' if ok and guarded else 'VIOLATED')
            if not ok:
                res.finding('R1', '%s.get_call_handles|format|%s' % (k.name,
                                                                     fmt),
                            '%s:%d' % (f.module.relpath, q.lineno),
                            'routing key format %r differs from the '
                            "'{%%s}%%s' used when the table is built" % fmt)
            elif not guarded:
                res.finding('R1', '%s.get_call_handles|requalify' % k.name,
                            '%s:%d' % (f.module.relpath, q.lineno),
                            'the name is re-qualified with the application '
                            'namespace even when it already carries a '
                            'namespace: a name qualified with a foreign '
                            'namespace would be routed')
    # every assignment of method_request_string
    n_assign = 0
    for f in prog.all_functions():
        rel = f.module.relpath
        if not (rel.startswith('spyne/protocol/') or
                rel.startswith('spyne/server/')):
            continue
        core = not rel.startswith('spyne/server/twisted')
        for n in walk_no_defs(f.node):
            if not (isinstance(n, ast.Assign) and any(
                    isinstance(t, ast.Attribute) and
                    t.attr == 'method_request_string' for t in n.targets)):
                continue
            n_assign += 1
            where = '%s:%d' % (rel, n.lineno)
            v = n.value
            black = []
            for vv in backward_slice(f.node, v):
                black.extend(black_ops(vv))
            inst = '%s: method_request_string = %s' % (f.qualname,
                                                       unparse(v)[:60])
            if black and core:
                res.ob('R1', where, inst, 'VIOLATED')
                res.finding('R1', '%s|assign|%s' % (f.qualname, black[0]),
                            where, 'the method name taken from the request is '
                            'transformed with %s' % black[0])
            else:
                res.ob('R1', where, inst, 'ok')
    res.floor('R1', 'method_request_string assignments', n_assign, 7)
    # name generators of the dict protocols
    for cfq in ('spyne.protocol.dictdoc._base:DictDocument',
                'spyne.protocol.msgpack:MessagePackDocument',
                'spyne.protocol.json:JsonDocument'):
        c = prog.cls(cfq, required=False)
        if c is None:
            continue
        g = c.methods.get('gen_method_request_string')
        if g is None:
            continue
        names = set()
        for n in walk_no_defs(g.node):
            if isinstance(n, ast.Assign):
                for t in n.targets:
                    for tt in (t.elts if isinstance(t, ast.Tuple) else [t]):
                        if isinstance(tt, ast.Name):
                            names.add(tt.id)
        bad = transformations(g.node, names)
        res.ob('R1', g.where, '%s.gen_method_request_string: %d blacklisted '
               'transformations' % (c.name, len(bad)),
               'ok' if not bad else 'VIOLATED')
        for n, what in bad:
            res.finding('R1', '%s.gen_method_request_string|transform|%s' % (
                c.name, what), '%s:%d' % (g.module.relpath, n.lineno),
                'the single key naming the method is transformed with %s' %
                what)
        # single key: destructuring with exactly one target
        single = any(isinstance(n, ast.Assign) and isinstance(
            n.targets[0], ast.Tuple) and len(n.targets[0].elts) == 1
            for n in walk_no_defs(g.node))
        res.ob('R1', g.where, '%s.gen_method_request_string requires exactly '
               'one key' % c.name, 'ok' if single else 'unclassified')


def rule_r2(prog, res):
    res.rule('R2', 'two methods answering to one name are rejected at '
             'construction')
    app = prog.cls('spyne.application:Application')
    init = app.methods['__init__']
    chk = None
    itf = None
    for c in calls_in(init.node):
        if call_name(c) == 'check_unique_method_keys' and chk is None:
            chk = c
        if call_name(c) == 'Interface' and itf is None:
            itf = c
    ok = chk is not None and itf is not None and chk.lineno < itf.lineno
    res.ob('R2', init.where, 'Application.__init__ calls '
           'check_unique_method_keys before building the Interface',
           'ok' if ok else 'VIOLATED')
    if not ok:
        res.finding('R2', 'Application.__init__|check-unique', init.where,
                    'check_unique_method_keys is %s' % (
                        'not called' if chk is None else
                        'called after the Interface is built'))
    cu = app.methods.get('check_unique_method_keys')
    if cu is None:
        raise AnalysisError('Application.check_unique_method_keys',
                            'not found')
    raises = [n for n in walk_no_defs(cu.node) if isinstance(n, ast.Raise)]
    good = False
    for r in raises:
        g = flatten_guards(guards_at(r, stop=cu.node))
        if any(isinstance(e, ast.Compare) and isinstance(e.ops[0], ast.IsNot)
               and pol for e, pol in g) or any(
                isinstance(e, ast.Compare) and isinstance(e.ops[0], ast.In)
                and pol for e, pol in g):
            good = True
    stores = [n for n in walk_no_defs(cu.node) if isinstance(n, ast.Assign)
              and isinstance(n.targets[0], ast.Subscript) and
              'internal_key' in unparse(n.targets[0].slice)]
    gets = [c for c in calls_in(cu.node) if call_name(c) == 'get' and c.args
            and 'internal_key' in unparse(c.args[0])]
    ok = good and bool(stores) and (bool(gets) or any(
        'internal_key' in unparse(e) for r in raises
        for e, pol in flatten_guards(guards_at(r, stop=cu.node))))
    res.ob('R2', cu.where, 'check_unique_method_keys raises on a repeated '
           'internal_key and records each key', 'ok' if ok else 'VIOLATED')
    if not ok:
        res.finding('R2', 'Application.check_unique_method_keys|shape',
                    cu.where, 'check_unique_method_keys no longer raises for '
                    'a repeated internal_key (raise guarded by presence: %s, '
                    'keys recorded: %s)' % (good, bool(stores)))
    # loops over every service and every public method
    loops = [n for n in walk_no_defs(cu.node) if isinstance(n, ast.For)]
    its = [unparse(l.iter) for l in loops]
    ok = any('services' in i for i in its) and any(
        'public_methods' in i for i in its)
    res.ob('R2', cu.where, 'check_unique_method_keys iterates %s' % its,
           'ok' if ok else 'VIOLATED')
    if not ok:
        res.finding('R2', 'Application.check_unique_method_keys|coverage',
                    cu.where, 'not every public method of every service is '
                    'checked: loops over %s' % its)

    itfc = prog.cls('spyne.interface._base:Interface')
    pm = itfc.methods.get('process_method')
    if pm is None:
        raise AnalysisError('Interface.process_method', 'not found')
    _presence_norm(pm.node, 'method_id_map')
    # the if-chain on val
    chain = None
    for n in walk_no_defs(pm.node):
        if not isinstance(n, ast.If):
            continue
        tests = [n.test]
        if isinstance(n.test, ast.BoolOp) and isinstance(n.test.op, ast.Or):
            tests = list(n.test.values)     # merged with the aux branch
        if any(unparse(t_).replace(' ', '') in ('len(val)==0', 'notval')
               for t_ in tests):
            chain = n
    if chain is None:
        raise AnalysisError('Interface.process_method', 'no branch on val')
    branches = []
    cur = chain
    while True:
        branches.append((cur.test, cur.body))
        if len(cur.orelse) == 1 and isinstance(cur.orelse[0], ast.If):
            cur = cur.orelse[0]
            continue
        branches.append((None, cur.orelse))
        break
    where = '%s:%d' % (pm.module.relpath, chain.lineno)
    last_test, last_body = branches[-1]
    ok = last_test is None and any(isinstance(s, ast.Raise)
                                   for s in last_body) and always_exits(
        last_body)
    res.ob('R2', where, 'process_method: a second primary method under one '
           'name ends in raise', 'ok' if ok else 'VIOLATED')
    if not ok:
        res.finding('R2', 'Interface.process_method|no-raise', where,
                    'the branch for a second primary descriptor under the '
                    'same name does not raise (silent last-wins / first-wins)')
    for test, body in branches[1:-1]:
        t = unparse(test)
        inserts = [c for s in body for c in calls_in(s)
                   if call_name(c) == 'insert']
        appends = [c for s in body for c in calls_in(s)
                   if call_name(c) == 'append']
        if inserts:
            # primary goes first only when everything already there is aux
            good_test = ('val[0].aux is not None' in t) or (
                t.startswith('all(') and '.aux is not None' in t)
            bad_any = t.startswith('any(')
            res.ob('R2', where, 'process_method: primary inserted first '
                   'when %s' % t, 'ok' if good_test else (
                       'VIOLATED' if bad_any else 'unclassified'))
            if bad_any:
                res.finding('R2', 'Interface.process_method|any-aux', where,
                            'a new primary descriptor is accepted when ANY '
                            'existing descriptor is auxiliary (%s): with '
                            '[primary, aux] already registered a second '
                            'primary silently replaces the first' % t)
            elif not good_test:
                res.unclass('R2', where, 'insert branch test ' + t)
            for c in inserts:
                a0 = c.args[0] if c.args else None
                ok = isinstance(a0, ast.Constant) and a0.value == 0 and \
                    len(c.args) == 2
                res.ob('R2', where, 'process_method: %s' % unparse(c),
                       'ok' if ok else 'VIOLATED')
                if not ok:
                    res.finding('R2', 'Interface.process_method|insert-args|'
                                '%s' % unparse(c), where, 'the primary '
                                'descriptor must be inserted at index 0: %s' %
                                unparse(c))
        elif appends:
            ok = 'method.aux is not None' in t
            res.ob('R2', where, 'process_method: appended when %s' % t,
                   'ok' if ok else 'unclassified')
    # stores into the routing maps are guarded by absence tests
    for n in walk_no_defs(pm.node):
        if isinstance(n, ast.Assign) and isinstance(
                n.targets[0], ast.Subscript):
            tgt = unparse(n.targets[0].value)
            if tgt.endswith('method_id_map'):
                key = unparse(n.targets[0].slice)
                g = flatten_guards(guards_at(n, stop=pm.node))
                ok = any(isinstance(e, ast.Compare) and isinstance(
                    e.ops[0], ast.In) and unparse(e.left) == key and
                    not pol for e, pol in g)
                w2 = '%s:%d' % (pm.module.relpath, n.lineno)
                res.ob('R2', w2, 'process_method: method_id_map[%s] stored '
                       'only when absent' % key, 'ok' if ok else 'VIOLATED')
                if not ok:
                    res.finding('R2', 'Interface.process_method|id-map-'
                                'overwrite', w2, 'method_id_map[%s] is '
                                'assigned without a preceding "already '
                                'registered" exit' % key)


def rule_r3(prog, res):
    res.rule('R3', 'HTTP patterns select an endpoint only on whole-string '
             'matches')
    hb = prog.cls('spyne.server.http:HttpBase')
    mp = hb.methods.get('match_pattern')
    if mp is None:
        raise AnalysisError('HttpBase.match_pattern', 'not found')
    n = 0
    for node in walk_no_defs(mp.node):
        if not (isinstance(node, ast.Assign) and isinstance(
                node.value, ast.Call) and isinstance(
                node.value.func, ast.Attribute) and
                node.value.func.attr in ('match', 'search', 'fullmatch')):
            continue
        n += 1
        var = unparse(node.targets[0])
        subj = unparse(node.value.args[0]) if node.value.args else '?'
        where = '%s:%d' % (mp.module.relpath, node.lineno)
        if node.value.func.attr == 'fullmatch':
            res.ob('R3', where, 'match_pattern: fullmatch(%s)' % subj, 'ok')
            continue
        if node.value.func.attr == 'search':
            res.ob('R3', where, 'match_pattern: search(%s)' % subj,
                   'VIOLATED')
            res.finding('R3', 'HttpBase.match_pattern|search|%s' % subj,
                        where, 'the pattern is searched anywhere in %s' %
                        subj)
            continue
        blk = None
        p = parent(node)
        for fld in ('body', 'orelse'):
            lst = getattr(p, fld, None)
            if isinstance(lst, list) and node in lst:
                blk = lst[lst.index(node) + 1:]
        none_ok = span_ok = False
        for s in blk or []:
            if isinstance(s, ast.Assign) and unparse(s.targets[0]) == var:
                break
            if isinstance(s, ast.If) and always_exits(s.body):
                t = unparse(s.test).replace(' ', '')
                if t in ('%sisNone' % var, 'not%s' % var):
                    none_ok = True
                if 'span()' in t and 'len(%s)' % subj in t and (
                        t.startswith('not') or '!=' in t):
                    span_ok = True
                if '.end()' in t and 'len(%s)' % subj in t and '!=' in t:
                    span_ok = True
        ok = none_ok and span_ok
        res.ob('R3', where, 'match_pattern: %s = match(%s): None test %s, '
               'whole-string test %s' % (var, subj, none_ok, span_ok),
               'ok' if ok else 'VIOLATED')
        if not span_ok:
            res.finding('R3', 'HttpBase.match_pattern|prefix-match|%s' % subj,
                        where, 're.match on %s is not followed by a span() == '
                        '(0, len(%s)) test: a prefix match (or a "$" that '
                        'also matches before a trailing newline) selects the '
                        'endpoint' % (subj, subj))
        elif not none_ok:
            res.finding('R3', 'HttpBase.match_pattern|none|%s' % subj, where,
                        'the match on %s is not tested for None' % subj)
    res.floor('R3', 'regex matches in match_pattern', n, 3)
    # the no-address branch compares the last path segment for equality
    found = False
    for node in walk_no_defs(mp.node):
        if isinstance(node, ast.If) and 'endpoint.name' in unparse(node.test):
            found = True
            t = node.test
            ok = isinstance(t, ast.Compare) and isinstance(
                t.ops[0], ast.NotEq) and always_exits(node.body) and \
                '[-1]' in unparse(t)
            where = '%s:%d' % (mp.module.relpath, node.lineno)
            res.ob('R3', where, 'match_pattern: %s' % unparse(t)[:70],
                   'ok' if ok else 'VIOLATED')
            if not ok:
                res.finding('R3', 'HttpBase.match_pattern|segment-compare',
                            where, 'the last path segment must be compared '
                            'with the endpoint name for (in)equality: %s' %
                            unparse(t)[:80])
    if not found:
        res.unclass('R3', mp.where, 'no endpoint.name comparison found')
    # selection: exactly the matched pattern's endpoint name, then break
    sel = [x for x in walk_no_defs(mp.node) if isinstance(x, ast.Assign) and
           any(isinstance(t, ast.Attribute) and
               t.attr == 'method_request_string' for t in x.targets)]
    for s_ in sel:
        ok = unparse(s_.value) in ('d.name', 'patt.endpoint.name')
        res.ob('R3', '%s:%d' % (mp.module.relpath, s_.lineno),
               'match_pattern selects %s' % unparse(s_.value),
               'ok' if ok else 'unclassified')


def rule_r4(prog, res):
    res.rule('R4', 'routing key format agrees between the table writer and '
             'the readers')
    itf = prog.cls('spyne.interface._base:Interface')
    pm = itf.methods['process_method']
    fmts = []
    for n in walk_no_defs(pm.node):
        if isinstance(n, ast.Assign) and any(
                unparse(t) == 'method_key' for t in n.targets) and \
                isinstance(n.value, ast.BinOp) and isinstance(
                n.value.left, ast.Constant):
            fmts.append((n, n.value.left.value, unparse(n.value.right)))
    res.floor('R4', 'method_key formats', len(fmts), 1)
    for n, fmt, args in fmts:
        ok = fmt.startswith('{%s}%s') and 'self.app.tns' in args and \
            'method.name' in args
        res.ob('R4', '%s:%d' % (pm.module.relpath, n.lineno),
               'process_method: method_key = %r %% %s' % (fmt, args),
               'ok' if ok else 'VIOLATED')
        if not ok:
            res.finding('R4', 'Interface.process_method|key-format|%s' % fmt,
                        '%s:%d' % (pm.module.relpath, n.lineno),
                        'the routing key is built as %r %% %s, not '
                        "'{%%s}%%s' %% (tns, method.name)" % (fmt, args))
    # the table is filled for every public method of every service
    pi = itf.methods.get('populate_interface')
    calls = [c for c in calls_in(pi.node) if call_name(c) == 'process_method']
    res.ob('R4', pi.where, 'populate_interface registers methods through '
           'process_method (%d sites)' % len(calls), 'ok' if calls else
           'VIOLATED')
    if not calls:
        res.finding('R4', 'Interface.populate_interface|no-registration',
                    pi.where, 'populate_interface no longer calls '
                    'process_method')


# ------------------------------------------------------------------- R5
SERVICE_ACCESSORS = ('get_service_name', 'get_service_class_name',
                     'get_service_module', 'get_service_key')


def _accessors(fnode):
    out = set()
    for n in ast.walk(fnode):
        if isinstance(n, ast.Call) and call_name(n) in SERVICE_ACCESSORS:
            out.add(call_name(n))
        if isinstance(n, ast.Attribute) and n.attr in (
                '__name__', '__service_name__'):
            out.add(n.attr)
    return out


def rule_r5(prog, res):
    res.rule('R5', 'the uniqueness check and the routing table identify a '
             'service by the same name accessor')
    svc = prog.cls('spyne.service:ServiceBaseBase')
    md = prog.cls('spyne.descriptor:MethodDescriptor')
    ik = svc.methods.get('get_internal_key')
    on = md.methods.get('get_owner_name')
    gk = md.methods.get('gen_interface_key')
    if ik is None or on is None or gk is None:
        raise AnalysisError('C11-R5', 'get_internal_key / get_owner_name / '
                            'gen_interface_key not found')
    # the uniqueness key really is built from get_internal_key
    ikp = md.methods.get('internal_key')
    uses = ikp is not None and any(call_name(c) == 'get_internal_key'
                                   for c in calls_in(ikp.node))
    a_int = _accessors(ik.node) - {'get_service_module'}
    a_itf = set()
    if any(call_name(c) == 'get_owner_name' for c in calls_in(gk.node)):
        a_itf = _accessors(on.node)
    a_itf |= _accessors(gk.node) - {'__name__'} if False else set()
    # the Service branch of get_owner_name
    svc_names = set()
    for r in walk_no_defs(on.node):
        if isinstance(r, ast.Return):
            g = flatten_guards(guards_at(r, stop=on.node))
            if any(pol and 'issubclass' in unparse(e) for e, pol in g):
                svc_names |= _accessors(r)
    ok = uses and bool(svc_names) and svc_names <= a_int
    res.ob('R5', ik.where, 'uniqueness key names the service through %s; '
           'interface key through %s' % (sorted(a_int), sorted(svc_names)),
           'ok' if ok else 'VIOLATED', nontrivial=True)
    res.floor('R5', 'service-name accessors on the interface side',
              len(svc_names), 1)
    if not ok:
        res.finding('R5', 'ServiceBaseBase.get_internal_key|accessor|%s' %
                    sorted(a_int), ik.where,
                    'Application.check_unique_method_keys compares keys '
                    'built from %s while Interface.process_method keys '
                    'methods through %s: two service classes published '
                    'under one service name with a same-named method pass '
                    'the uniqueness check, and the second is silently '
                    'dropped by process_method, so the function that runs '
                    'depends on the order of the services list' % (
                        sorted(a_int), sorted(svc_names)))


# ------------------------------------------------------------------- R6
def rule_r6(prog, res):
    res.rule('R6', 'method tables are keyed by unique identities: the '
             'attribute name in a service, module + owner + name in the '
             'interface, and the descriptor\'s public name on the HTTP path')
    sm = prog.cls('spyne.service:ServiceMeta')
    f = sm.methods.get('__init__')
    if f is None:
        raise AnalysisError('ServiceMeta.__init__', 'not found')
    n = 0
    for a in walk_no_defs(f.node):
        if isinstance(a, ast.Assign) and len(a.targets) == 1 and isinstance(
                a.targets[0], ast.Subscript) and unparse(
                a.targets[0].value).endswith('public_methods'):
            n += 1
            key = a.targets[0].slice
            loop = None
            for l_ in ancestors(a):
                if isinstance(l_, ast.For):
                    loop = l_
                    break
            loopkeys = set()
            if loop is not None and 'items' in unparse(loop.iter) and \
                    isinstance(loop.target, ast.Tuple) and loop.target.elts:
                k0 = loop.target.elts[0]
                if isinstance(k0, ast.Name):
                    loopkeys.add(k0.id)
            ok = isinstance(key, ast.Name) and key.id in loopkeys
            where = '%s:%d' % (f.module.relpath, a.lineno)
            res.ob('R6', where, 'ServiceMeta: public_methods[%s] (loop key '
                   '%s)' % (unparse(key), sorted(loopkeys)),
                   'ok' if ok else 'VIOLATED')
            if not ok:
                res.finding('R6', 'ServiceMeta.__init__|public-methods-key|%s'
                            % unparse(key), where, 'the per-service method '
                            'table is keyed by %s instead of the attribute '
                            'name it iterates over: two functions of one '
                            'service that answer to the same public name '
                            'overwrite each other silently, and the request '
                            'name routes to the last one defined instead of '
                            'being rejected at construction' % unparse(key))
    res.floor('R6', 'stores into public_methods', n, 1)
    md = prog.cls('spyne.descriptor:MethodDescriptor')
    gk = md.methods.get('gen_interface_key')
    k = 0
    for r in walk_no_defs(gk.node):
        if not isinstance(r, ast.Return):
            continue
        comp = None
        if isinstance(r.value, ast.Call) and call_name(r.value) == 'format':
            comp = list(r.value.args)
        elif isinstance(r.value, ast.BinOp) and isinstance(
                r.value.op, ast.Mod) and isinstance(r.value.right, ast.Tuple):
            comp = list(r.value.right.elts)
        if comp is None:
            continue
        g = flatten_guards(guards_at(r, stop=gk.node))
        if not any(pol and 'ServiceBaseBase' in unparse(e) for e, pol in g):
            continue
        k += 1
        ok = bool(comp) and unparse(comp[0]) == 'cls.__module__'
        where = '%s:%d' % (gk.module.relpath, r.lineno)
        res.ob('R6', where, 'gen_interface_key (services): components %s' %
               [unparse(c)[:30] for c in comp], 'ok' if ok else 'VIOLATED')
        if not ok:
            res.finding('R6', 'MethodDescriptor.gen_interface_key|module|%s' %
                        (unparse(comp[0])[:40] if comp else '-'), where,
                        'the interface key of a service method takes its '
                        'module part from %s, not from cls.__module__: '
                        'same-named services of different modules collapse '
                        'onto one key, process_method silently drops the '
                        'second, and the function that answers depends on '
                        'the order of the services list' % (
                            unparse(comp[0])[:40] if comp else '-'))
    res.floor('R6', 'service branch of gen_interface_key', k, 1)
    hb = prog.cls('spyne.server.http:HttpBase')
    mp = hb.methods.get('match_pattern')
    j = 0
    for a in walk_no_defs(mp.node):
        if isinstance(a, ast.Assign) and any(
                isinstance(t, ast.Attribute) and
                t.attr == 'method_request_string' for t in a.targets):
            j += 1
            v = a.value
            ok = isinstance(v, ast.Attribute) and v.attr == 'name'
            where = '%s:%d' % (mp.module.relpath, a.lineno)
            res.ob('R6', where, 'match_pattern routes to %s' % unparse(v),
                   'ok' if ok else 'VIOLATED')
            if not ok:
                res.finding('R6', 'HttpBase.match_pattern|route-name|%s' %
                            unparse(v), where, 'a matched HTTP pattern '
                            'routes to %s, but the routing table is keyed by '
                            'the descriptor\'s public name (method.name in '
                            'Interface.process_method): methods with a custom '
                            'public name answer 404 or another function '
                            'runs' % unparse(v))
    res.floor('R6', 'routing assignments in match_pattern', j, 1)


# ------------------------------------------------------------------- R7
def rule_r7(prog, res):
    res.rule('R7', 'nothing outside the routing table claims a request: the '
             'WSDL shortcut needs "?wsdl" or a ".wsdl" suffix, transports '
             'keep their patterns per instance, name conflicts are only '
             'waived for identical classes')
    w = prog.cls('spyne.server.wsgi:WsgiApplication')
    f = w.methods.get('is_wsdl_request')
    if f is None:
        raise AnalysisError('WsgiApplication.is_wsdl_request', 'not found')
    n = 0
    for c in calls_in(f.node):
        if call_name(c) == 'endswith' and c.args and isinstance(
                c.args[0], ast.Constant):
            n += 1
            lit = c.args[0].value
            ok = isinstance(lit, str) and lit.startswith('.')
            where = '%s:%d' % (f.module.relpath, c.lineno)
            res.ob('R7', where, 'is_wsdl_request: path suffix %r' % (lit,),
                   'ok' if ok else 'VIOLATED')
            if not ok:
                res.finding('R7', 'WsgiApplication.is_wsdl_request|suffix|%s'
                            % lit, where, 'a GET whose path merely ends in '
                            '%r is answered with the WSDL before any '
                            'routing: a registered method named get_wsdl '
                            'never runs, an unregistered one gets a document '
                            'instead of a not-found fault' % (lit,))
    res.floor('R7', 'suffix tests in is_wsdl_request', n, 1)
    from . import c12
    from ..report import Result
    res.share('R7', 'nothing outside the routing table claims a request',
              'C12', c12.rule_r6, prog, Result)
    itf = prog.cls('spyne.interface._base:Interface')
    h = itf.methods.get('has_class')
    k = 0
    from ..flow import entails, guards_at, flatten_guards
    reasons = ['o1 is o2', 'set((o1, o2)) == set((Array, Iterable))',
               'not issubclass(c, ComplexModelBase) or not issubclass(cls, '
               'ComplexModelBase)']
    for r in walk_no_defs(h.node):
        if isinstance(r, ast.Return) and isinstance(
                r.value, ast.Constant) and r.value.value is True:
            k += 1
            g = flatten_guards(guards_at(r, stop=h.node))
            why = [t for t in reasons if entails(g, t)]
            where = '%s:%d' % (h.module.relpath, r.lineno)
            res.ob('R7', where, 'Interface.has_class waives a class-name '
                   'conflict because %s' % (why or 'of nothing recognised'),
                   'ok' if why else 'VIOLATED')
            if not why:
                res.finding('R7', 'Interface.has_class|waiver|%d|widened' % k,
                            where, 'has_class answers True for a class whose '
                            'key is taken without one of the recognised '
                            'reasons holding (same original class, Array/'
                            'Iterable pair, not both complex): two different '
                            'classes under one name are taken for one, under '
                            '%s' % [('' if pol else 'not ') + unparse(e)
                                    for e, pol in g])
    res.floor('R7', 'waivers in Interface.has_class', k, 2)


# ------------------------------------------------------------------- R8
def rule_r8(prog, res):
    res.rule('R8', 'a second function under an interface key that is already '
             'taken is rejected, not taken for a repeated registration')
    itf = prog.cls('spyne.interface._base:Interface')
    f = itf.methods.get('process_method')
    if f is None:
        raise AnalysisError('Interface.process_method', 'not found')
    _presence_norm(f.node, 'method_id_map')
    # the "already registered" branch
    branches = [n for n in walk_no_defs(f.node) if isinstance(n, ast.If) and
                any(isinstance(c, ast.Compare) and isinstance(
                    c.ops[0], ast.In) and 'method_id_map' in unparse(
                        c.comparators[0]) for c in ast.walk(n.test))]
    res.floor('R8', 'already-registered branches in process_method',
              len(branches), 1)
    br = branches[0]
    raises = [r for st in br.body for r in ast.walk(st)
              if isinstance(r, ast.Raise)]
    plain = []
    for r in raises:
        atoms = guardspec.atoms_at(r, br)
        # a raise for plain service methods: no parent class involved, and
        # conditioned on the stored descriptor being another one
        if any('is None' in t and pol for t, pol in atoms) and any(
                ('is not method' in t and pol) or ('is method' in t and
                                                   not pol)
                for t, pol in atoms):
            plain.append(r)
    # the descriptors' functions are compared themselves, not through a
    # coarser key (code object, name, repr)
    for r in plain:
        for e, pol in flatten_guards(guards_at(r, stop=br)):
            for cmp_ in ast.walk(e):
                if not (isinstance(cmp_, ast.Compare) and isinstance(
                        cmp_.ops[0], (ast.Is, ast.IsNot, ast.Eq, ast.NotEq))):
                    continue
                sides = [cmp_.left] + cmp_.comparators
                if not any('function' in unparse(x) for x in sides):
                    continue
                coarse = [unparse(x) for x in sides
                          if not isinstance(x, (ast.Name, ast.Attribute))]
                where_ = '%s:%d' % (f.module.relpath, cmp_.lineno)
                res.ob('R8', where_, 'process_method compares %s' % unparse(
                    cmp_), 'VIOLATED' if coarse else 'ok')
                if coarse:
                    res.finding('R8', 'Interface.process_method|coarse-'
                                'function-identity', where_, 'the test that '
                                'tells a repeated registration from a second '
                                'function compares %s: two functions made by '
                                'one def (a service factory) share it, so the '
                                'second one is dropped silently and the '
                                'service listed first answers the name' %
                                coarse[0])
    ok = bool(plain)
    where = '%s:%d' % (f.module.relpath, br.lineno)
    res.ob('R8', where, 'process_method: the already-registered branch has '
           '%d raising paths, %d of them for a different descriptor of a '
           'plain service method' % (len(raises), len(plain)),
           'ok' if ok else 'VIOLATED')
    if not ok:
        res.finding('R8', 'Interface.process_method|silent-shadow', where,
                    'a method whose interface key is already registered is '
                    'dropped without comparing the descriptors: two @rpc '
                    'functions that answer to the same message name (bare '
                    'methods with one _in_message_name) are accepted and the '
                    'second one can never be called')


# ------------------------------------------------------------------- R9
def rule_r9(prog, res):
    res.rule('R9', 'the name a member method answers to is built from the '
             'type name of its class, the accessor the interface compares '
             'with; HTTP verbs reach the pattern matcher as they were sent')
    d = prog.module('spyne.decorator')
    itf = prog.cls('spyne.interface._base:Interface')
    pm = itf.methods.get('process_method')
    accessor = None
    for c in ast.walk(pm.node):
        if isinstance(c, ast.Compare) and 'method_object_name' in unparse(c):
            for side in [c.left] + c.comparators:
                if isinstance(side, ast.Call) and isinstance(
                        side.func, ast.Attribute):
                    accessor = side.func.attr
    if accessor is None:
        raise AnalysisError('Interface.process_method', 'comparison with the '
                            'class part of the method name not found')
    n = 0
    for fn in d.functions.values():
        for a in walk_no_defs(fn.node):
            if not (isinstance(a, ast.Assign) and any(
                    isinstance(t, ast.Name) and t.id in (
                        '_in_message_name', '_out_message_name')
                    for t in a.targets)):
                continue
            v = a.value
            if not (isinstance(v, ast.BinOp) and isinstance(v.op, ast.Mod)
                    and isinstance(v.right, ast.Tuple)):
                continue
            first = v.right.elts[0]
            if '_self_ref_replacement' not in unparse(first):
                continue
            n += 1
            ok = isinstance(first, ast.Call) and isinstance(
                first.func, ast.Attribute) and first.func.attr == accessor
            where = '%s:%d' % (d.relpath, a.lineno)
            res.ob('R9', where, '%s: class part of the message name = %s '
                   '(interface compares with %s())' % (
                       fn.qualname, unparse(first), accessor),
                   'ok' if ok else 'VIOLATED')
            if not ok:
                res.finding('R9', '%s|class-part|%s' % (fn.qualname,
                                                        unparse(first)[:40]),
                            where, 'the default message name of a member '
                            'method is prefixed with %s, while '
                            'Interface.process_method recognises the prefix '
                            'by %s(): for a class whose type name differs '
                            'from that value the published name is not found '
                            'and a longer, unpublished name runs the '
                            'function' % (unparse(first), accessor))
    res.floor('R9', 'member-method message names', n, 1)
    # HTTP verb: no case folding between the environ and match_pattern
    w = prog.cls('spyne.server.wsgi:WsgiApplication')
    f = w.methods.get('decompose_incoming_envelope')
    k = 0
    for c in calls_in(f.node):
        if call_name(c) != 'match_pattern' or len(c.args) < 2:
            continue
        k += 1
        verb = c.args[1]
        srcs = [verb]
        if isinstance(verb, ast.Name):
            srcs = [b.value for b in walk_no_defs(f.node) if isinstance(
                b, ast.Assign) and any(isinstance(t, ast.Name) and
                                       t.id == verb.id for t in b.targets)]
        folded = [x for v in srcs for x in ast.walk(v) if isinstance(
            x, ast.Call) and call_name(x) in ('upper', 'lower', 'title',
                                              'capitalize', 'casefold',
                                              'strip')]
        where = '%s:%d' % (f.module.relpath, c.lineno)
        res.ob('R9', where, 'match_pattern receives the verb %s' % (
            [unparse(v)[:50] for v in srcs]), 'VIOLATED' if folded else 'ok')
        for x in folded[:1]:
            res.finding('R9', 'WsgiApplication.decompose_incoming_envelope|'
                        'verb-folded|%s' % call_name(x), where, 'the request '
                        'method is passed through %s() before it is matched: '
                        'verb patterns are compared exactly, so "delete" or '
                        '"Get" now run the functions registered for DELETE '
                        'and GET instead of finding nothing' % call_name(x))
    res.floor('R9', 'match_pattern calls in the WSGI transport', k, 1)


# ------------------------------------------------------------------- R10
def rule_r10(prog, res):
    res.rule('R10', 'HTTP patterns are tried in an order that does not come '
             'from a set, two patterns answering to the same requests for '
             'different functions are rejected when the transport is built, '
             'and an @rpc function cannot take the name of an attribute the '
             'service class machinery calls (call_wrapper, initialize, ...)')
    from ..setflow import is_set_expr
    from ..flow import entails, guards_at, flatten_guards
    h = prog.cls('spyne.server.http:HttpBase')
    f = h.methods.get('__init__')
    if f is None:
        raise AnalysisError('HttpBase.__init__', 'not found')
    binds = [a for a in walk_no_defs(f.node) if isinstance(a, ast.Assign) and
             any(unparse(t) == 'self._http_patterns' for t in a.targets)]
    res.floor('R10', 'bindings of _http_patterns', len(binds), 1)
    for a in binds:
        is_set = is_set_expr(a.value, set(), ())
        where = '%s:%d' % (f.module.relpath, a.lineno)
        res.ob('R10', where, 'HttpBase.__init__ binds _http_patterns to %s' %
               unparse(a.value)[:50], 'VIOLATED' if is_set else 'ok')
        if is_set:
            res.finding('R10', 'HttpBase.__init__|patterns-in-a-set', where,
                        'the patterns are collected in a set of objects that '
                        'hash by identity and then sorted by (address, host) '
                        'only: patterns that tie keep the set\'s order, so '
                        'which function answers changes with the service '
                        'order and between runs')
    loops = [lp for lp in walk_no_defs(f.node) if isinstance(lp, ast.For) and
             'service_method_map' in unparse(lp.iter)]
    res.floor('R10', 'pattern collecting loops', len(loops), 1)
    rejects = []
    for lp in loops:
        for r in ast.walk(lp):
            if isinstance(r, ast.Raise):
                atoms = guardspec.atoms_at(r, lp)
                if any('.endpoint' in t for t, _ in atoms):
                    rejects.append(r)
    # a registry the rejection reads must be filled by the same loop
    dicts = {t.id for a in walk_no_defs(f.node) if isinstance(a, ast.Assign)
             and (isinstance(a.value, ast.Dict) or isinstance(
                 a.value, ast.Call) and call_name(a.value) == 'dict')
             for t in a.targets if isinstance(t, ast.Name)}
    for lp in loops:
        for d_ in sorted(dicts):
            reads = [c for c in ast.walk(lp) if isinstance(c, ast.Call) and
                     isinstance(c.func, ast.Attribute) and unparse(
                         c.func.value) == d_ and c.func.attr == 'get'] + [
                x for x in ast.walk(lp) if isinstance(x, ast.Subscript) and
                unparse(x.value) == d_ and isinstance(x.ctx, ast.Load)] + [
                x for x in ast.walk(lp) if isinstance(x, ast.Compare) and
                isinstance(x.ops[0], (ast.In, ast.NotIn)) and
                unparse(x.comparators[0]) == d_]
            writes = [c for c in ast.walk(lp) if isinstance(c, ast.Call) and
                      isinstance(c.func, ast.Attribute) and unparse(
                          c.func.value) == d_ and c.func.attr in (
                              'setdefault', 'update')] + [
                x for x in ast.walk(lp) if isinstance(x, ast.Subscript) and
                unparse(x.value) == d_ and isinstance(x.ctx, ast.Store)]
            if not reads and not writes:
                continue
            okw = bool(writes)
            where_ = '%s:%d' % (f.module.relpath, lp.lineno)
            res.ob('R10', where_, 'HttpBase.__init__: registry %s is read %d '
                   'and written %d times in the collecting loop' % (
                       d_, len(reads), len(writes)),
                   'ok' if okw else 'VIOLATED')
            if not okw:
                res.finding('R10', 'HttpBase.__init__|registry-never-filled|'
                            '%s' % d_, where_, 'the loop looks patterns up in '
                            '%s but never stores one: the registry stays '
                            'empty, the "answer to the same requests" '
                            'rejection cannot fire and the service order '
                            'decides which function serves the URL' % d_)
    where = '%s:%d' % (f.module.relpath, loops[0].lineno)
    res.ob('R10', where, 'HttpBase.__init__: %d rejections of a second '
           'endpoint for one pattern' % len(rejects),
           'ok' if rejects else 'VIOLATED')
    if not rejects:
        res.finding('R10', 'HttpBase.__init__|duplicate-patterns-accepted',
                    where, 'two methods registered under the same (verb, '
                    'host, address) are both accepted: the first match wins '
                    'and the other function can never be reached')
    m = prog.cls('spyne.service:ServiceMeta')
    g_ = m.methods.get('__init__')
    if g_ is None:
        raise AnalysisError('ServiceMeta.__init__', 'not found')
    sets = [c for c in calls_in(g_.node) if call_name(c) == 'setattr' and
            len(c.args) == 3 and unparse(c.args[0]) == 'self' and
            'function' in unparse(c.args[2])]
    res.floor('R10', 'stores of @rpc functions on the service class',
              len(sets), 1)
    for c in sets:
        k = unparse(c.args[1])
        st = c
        while not isinstance(st, ast.stmt):
            st = st._parent
        gs = flatten_guards(guards_at(st, stop=g_.node))
        ok = entails(gs, 'not hasattr(ServiceBaseBase, %s)' % k) or entails(
            gs, 'not hasattr(ServiceBase, %s)' % k)
        where = '%s:%d' % (g_.module.relpath, c.lineno)
        res.ob('R10', where, 'ServiceMeta stores the function under its name '
               '%s' % ('only when the base class has no such attribute'
                       if ok else 'whatever the name'),
               'ok' if ok else 'VIOLATED')
        if not ok:
            res.finding('R10', 'ServiceMeta.__init__|hook-name-shadowed',
                        where, 'an @rpc function named call_wrapper or '
                        'initialize replaces the hook of that name on the '
                        'service class: Application.call_wrapper then runs '
                        'that function for requests naming other methods of '
                        'the service, and initialize runs without a request')


# ------------------------------------------------------------------- R11
def rule_r11(prog, res):
    res.rule('R11', 'a placeholder in an HttpPattern address stands for one '
             'path segment ([^/]*), and the URL-path fallback of the WSGI '
             'transport only names the method when no pattern did')
    h = prog.cls('spyne.protocol.http:HttpPattern')
    f = h.methods.get('_compile_url_pattern')
    if f is None:
        raise AnalysisError('HttpPattern._compile_url_pattern', 'not found')
    n = 0
    for c in calls_in(f.node):
        if call_name(c) != 'sub' or not c.args or not isinstance(
                c.args[0], ast.Constant):
            continue
        v = c.args[0].value
        t = v.decode('latin1') if isinstance(v, bytes) else v
        if '(?P<' not in t:
            continue
        n += 1
        ok = '[^/]*' in t and '.*' not in t.replace('[^/]*', '')
        where = '%s:%d' % (f.module.relpath, c.lineno)
        res.ob('R11', where, '_compile_url_pattern replaces a placeholder by '
               '%r' % t, 'ok' if ok else 'VIOLATED')
        if not ok:
            res.finding('R11', 'HttpPattern._compile_url_pattern|segment|%s'
                        % t, where, 'a placeholder of an address compiles to '
                        '%r, which crosses "/": /shelf/{cat} answers to every '
                        'URL below /shelf/, so /shelf/scifi/dune runs '
                        'list_shelf and an unregistered /shelf/a/b/c runs a '
                        'method instead of getting a not-found fault' % t)
    res.floor('R11', 'placeholder substitutions in _compile_url_pattern', n, 4)
    w = prog.cls('spyne.server.wsgi:WsgiApplication')
    d = w.methods.get('decompose_incoming_envelope')
    if d is None:
        raise AnalysisError('WsgiApplication.decompose_incoming_envelope',
                            'not found')
    k = 0
    for a in walk_no_defs(d.node):
        if isinstance(a, ast.Assign) and any(
                unparse(t) == 'ctx.method_request_string'
                for t in a.targets) and 'PATH_INFO' in unparse(a.value):
            k += 1
            guardspec.check(res, 'R11', d, a, 'the URL-path fallback',
                            allowed=[('ctx.method_request_string is None',
                                      True)],
                            required=[('ctx.method_request_string is None',
                                       True)],
                            key='WsgiApplication.decompose_incoming_envelope|'
                                'fallback')
    res.floor('R11', 'URL-path fallbacks', k, 1)


def rule_r12(prog, res):
    res.rule('R12', 'the in-message is the argument type itself exactly for '
             'the body styles whose descriptor is BODY_STYLE_BARE (the key a '
             'method is registered under comes from that message); each '
             'descriptor of a request gets a context of its own or its '
             'function follows the descriptor')
    from ..constfold import try_fold
    d = prog.module('spyne.decorator')
    vb = d.functions.get('_validate_body_style')
    pi = d.functions.get('_produce_input_message')
    ex = d.functions.get('rpc.explain.explain_method')
    if vb is None or pi is None or ex is None:
        raise AnalysisError('spyne.decorator body style functions',
                            'not found')
    styles = None
    for c_ in walk_no_defs(vb.node):
        if isinstance(c_, ast.Compare) and isinstance(
                c_.ops[0], (ast.In, ast.NotIn)) and isinstance(
                c_.left, ast.Name) and 'body_style' in c_.left.id:
            src_ = c_.comparators[0]
            if isinstance(src_, ast.Name):
                loc = [a.value for a in walk_no_defs(vb.node)
                       if isinstance(a, ast.Assign) and any(
                           isinstance(t, ast.Name) and t.id == src_.id
                           for t in a.targets)]
                if len(loc) == 1:
                    src_ = loc[0]
            known, v = try_fold(prog, d, src_)
            if known and v and all(isinstance(x, str) for x in v):
                styles = list(v)
    if not styles:
        raise AnalysisError('_validate_body_style', 'allowed styles not found')

    def when(node, fn, var):
        """styles for which ``node`` is reached, None when undecidable"""
        out = set()
        conds = [(e, pol) for e, pol in flatten_guards(guards_at(
            node, stop=fn.node)) if var in {
                y.id for y in ast.walk(e) if isinstance(y, ast.Name)}]
        if not conds:
            return None
        for st in styles:
            ok = True
            for e, pol in conds:
                known, v = try_fold(prog, d, e, {var: st})
                if not known:
                    return None
                if bool(v) != pol:
                    ok = False
            if ok:
                out.add(st)
        return out
    params = [a.arg for a in pi.node.args.args]
    var_in = next((p_ for p_ in params if 'body_style' in p_), None)
    shape = [a for a in walk_no_defs(pi.node) if isinstance(a, ast.Assign) and
             isinstance(a.targets[0], (ast.Tuple, ast.List)) and
             unparse(a.value).endswith('in_params.values()')]
    consts = [a for a in walk_no_defs(ex.node) if isinstance(a, ast.Assign)
              and unparse(a.value) == 'BODY_STYLE_BARE']
    # ... or a table from the style string to the constant
    table = None
    for a in walk_no_defs(ex.node):
        if isinstance(a, ast.Assign) and any(
                unparse(t) == 'body_style' for t in a.targets) and \
                isinstance(a.value, ast.Subscript) and isinstance(
                    a.value.value, ast.Name) and \
                unparse(a.value.slice) == 'body_style_str':
            for top in d.tree.body:
                if isinstance(top, ast.Assign) and any(
                        isinstance(t, ast.Name) and t.id == a.value.value.id
                        for t in top.targets) and isinstance(
                        top.value, ast.Dict):
                    table = {k.value: unparse(v) for k, v in zip(
                        top.value.keys, top.value.values)
                        if isinstance(k, ast.Constant)}
    res.floor('R12', 'bare in-message shapes', len(shape), 1)
    if var_in is not None:
        s_shape = set()
        s_const = set()
        und = False
        for a in shape:
            w_ = when(a, pi, var_in)
            und = und or w_ is None
            s_shape |= (w_ or set())
        for a in consts:
            w_ = when(a, ex, 'body_style_str')
            und = und or w_ is None
            s_const |= (w_ or set())
        if table is not None:
            s_const |= {k_ for k_, v_ in table.items()
                        if v_ == 'BODY_STYLE_BARE'}
        elif not consts:
            und = True
        where = '%s:%d' % (d.relpath, shape[0].lineno)
        if und:
            res.unclass('R12', where, 'body style conditions not decidable')
        else:
            ok = s_shape == s_const
            res.ob('R12', where, 'the in-message is the argument type for '
                   'styles %s; the descriptor is BODY_STYLE_BARE for %s' % (
                       sorted(s_shape), sorted(s_const)),
                   'ok' if ok else 'VIOLATED')
            if not ok:
                res.finding('R12', '_produce_input_message|bare-shape-for|%s'
                            % ','.join(sorted(s_shape)), where, 'the '
                            'in-message is the (renamed) argument type for '
                            'the styles %s but the descriptor is '
                            'BODY_STYLE_BARE only for %s: for the others the '
                            'method name is taken from in_message.'
                            'get_type_name(), i.e. the TYPE name of the '
                            'argument - a request naming the method is not '
                            'found and one naming the type runs it' % (
                                sorted(s_shape), sorted(s_const)))
    # contexts
    mc = prog.cls('spyne.context:MethodContext')
    sd = mc.methods.get('set_descriptor')
    pm = prog.cls('spyne.protocol._base:ProtocolMixin')
    gm = pm.methods.get('generate_method_contexts')
    if sd is None or gm is None:
        raise AnalysisError('set_descriptor / generate_method_contexts',
                            'not found')
    fa = [a for a in walk_no_defs(sd.node) if isinstance(a, ast.Assign) and
          unparse(a.targets[0]) == 'self.function']
    res.floor('R12', 'function stores in set_descriptor', len(fa), 1)
    uncond = any(not flatten_guards(guards_at(a, stop=sd.node)) for a in fa)
    fresh = True
    k = 0
    for a in walk_no_defs(gm.node):
        if isinstance(a, ast.Assign) and isinstance(
                a.targets[0], ast.Attribute) and \
                a.targets[0].attr == 'descriptor' and isinstance(
                    a.targets[0].value, ast.Name):
            k += 1
            nm = a.targets[0].value.id
            vals = [x.value for x in walk_no_defs(gm.node)
                    if isinstance(x, ast.Assign) and any(
                        isinstance(t, ast.Name) and t.id == nm
                        for t in x.targets)]
            if not vals or not all(isinstance(v, ast.Call) and
                                   call_name(v) == 'copy' for v in vals):
                fresh = False
    res.floor('R12', 'descriptor stores in generate_method_contexts', k, 1)
    ok = uncond or fresh
    res.ob('R12', sd.where, 'set_descriptor replaces the function %s; '
           'generate_method_contexts gives each descriptor %s' % (
               'always' if uncond else 'only when none is set',
               'a copy of the context' if fresh else 'a shared context for '
               'some'), 'ok' if ok else 'VIOLATED')
    if not ok:
        res.finding('R12', 'MethodContext.set_descriptor|function-kept-across-'
                    'descriptors', sd.where, 'the contexts of a request are '
                    'copies of one that already carries the primary function '
                    'and set_descriptor keeps a function that is set: every '
                    'auxiliary context runs the primary function, which '
                    'therefore runs once per handler while the auxiliary '
                    'functions never run')


def rule_r13(prog, res):
    res.rule('R13', 'the auxiliary methods of a successful request are run '
             'after the last point at which the request can still be handed '
             'to handle_error, which runs them as well')
    w = prog.cls('spyne.server.wsgi:WsgiApplication')
    f = w.methods.get('handle_rpc')
    if f is None:
        raise AnalysisError('WsgiApplication.handle_rpc', 'not found')
    errs = [c for c in calls_in(f.node) if call_name(c) == 'handle_error']
    aux = [c for c in calls_in(f.node) if call_name(c) == 'process_contexts']
    res.floor('R13', 'handle_error / process_contexts calls in handle_rpc',
              min(len(errs), len(aux)), 1)
    for c in aux:
        late = [e for e in errs if e.lineno > c.lineno]
        where = '%s:%d' % (f.module.relpath, c.lineno)
        res.ob('R13', where, 'handle_rpc runs the auxiliary contexts with %d '
               'handle_error exits still ahead' % len(late),
               'VIOLATED' if late else 'ok')
        if late:
            res.finding('R13', 'WsgiApplication.handle_rpc|aux-before-error-'
                        'exit', where, 'process_contexts(others) runs before '
                        'the handle_error exit at line %d: when producing the '
                        'response fails after it, handle_error runs the '
                        'auxiliary methods again - twice for one request' %
                        late[0].lineno)


def run(prog, res, tier):
    res.run_rule(rule_r1, prog, res, tier)
    res.run_rule(rule_r2, prog, res)
    res.run_rule(rule_r3, prog, res)
    res.run_rule(rule_r4, prog, res)
    res.run_rule(rule_r5, prog, res)
    res.run_rule(rule_r6, prog, res)
    res.run_rule(rule_r7, prog, res)
    res.run_rule(rule_r8, prog, res)
    res.run_rule(rule_r9, prog, res)
    res.run_rule(rule_r10, prog, res)
    res.run_rule(rule_r11, prog, res)
    res.run_rule(rule_r12, prog, res)
    res.run_rule(rule_r13, prog, res)


_P = 'spyne/protocol/_base.py'
_I = 'spyne/interface/_base.py'
_A = 'spyne/application.py'
_H = 'spyne/server/http.py'
_W = 'spyne/server/wsgi.py'
_X = 'spyne/protocol/xml.py'

MUTANTS = [
    Mutant('aux-contexts-before-late-error-exits', 'R13', 'fire',
           'spyne/server/wsgi.py',
           in_func('WsgiApplication.handle_rpc',
                   "        assert p_ctx.out_object is not None\n",
                   "        process_contexts(self, others, p_ctx, error=None)\n"
                   "        assert p_ctx.out_object is not None\n"),
           'aux-before-error-exit'),
    Mutant('in-message-bare-for-out-bare', 'R12', 'fire', 'spyne/decorator.py',
           in_func('_produce_input_message',
                   "    if body_style_str == 'bare':\n",
                   "    if body_style_str.endswith('bare'):\n"),
           'bare-shape-for'),
    Mutant('in-message-bare-by-membership', 'R12', 'twin',
           'spyne/decorator.py',
           in_func('_produce_input_message',
                   "    if body_style_str == 'bare':\n",
                   "    if body_style_str in ('bare',):\n"), None),
    Mutant('function-kept-and-context-shared', 'R12', 'fire',
           'spyne/context.py',
           in_func('MethodContext.set_descriptor',
                   "        self.function = descriptor.function",
                   "        if self.function is None:\n"
                   "            self.function = descriptor.function"),
           'function-kept-across-descriptors',
           also=[('spyne/protocol/_base.py',
                  in_func('ProtocolMixin.generate_method_contexts',
                          "            c = ctx.copy()\n",
                          "            c = ctx if len(retval) == 0 else "
                          "ctx.copy()\n"))]),
    Mutant('function-kept-contexts-copied', 'R12', 'twin', 'spyne/context.py',
           in_func('MethodContext.set_descriptor',
                   "        self.function = descriptor.function",
                   "        if self.function is None:\n"
                   "            self.function = descriptor.function"), None),
    Mutant('full-placeholder-crosses-slashes', 'R11', 'fire',
           'spyne/protocol/http.py',
           in_func('HttpPattern._compile_url_pattern',
                   "pattern = _full_pattern_re.sub(r'(?P<\\1>[^/]*)', pattern)",
                   "pattern = _full_pattern_re.sub(r'(?P<\\1>.*)', pattern)"),
           'segment'),
    Mutant('fallback-when-no-params', 'R11', 'fire', _W,
           in_func('WsgiApplication.decompose_incoming_envelope',
                   "        if ctx.method_request_string is None:\n",
                   "        if not params:\n"), 'fallback'),
    Mutant('duplicate-by-code-object', 'R8', 'fire', _I,
           in_func('Interface.process_method',
                   "if om is not method and om.function is not "
                   "method.function:",
                   "if om is not method and six.get_function_code("
                   "om.function) is not six.get_function_code("
                   "method.function):"), 'coarse-function-identity'),
    Mutant('claimed-patterns-never-stored', 'R10', 'fire', _H,
           in_func('HttpBase.__init__',
                   "other = claimed.setdefault((patt.verb, patt.host, "
                   "address), patt)",
                   "other = claimed.get((patt.verb, patt.host, address), "
                   "patt)"), 'registry-never-filled'),
    Mutant('patterns-collected-in-a-set', 'R10', 'fire', _H,
           in_func('HttpBase.__init__',
                   "        self._http_patterns = []\n",
                   "        self._http_patterns = set()\n"),
           'patterns-in-a-set'),
    Mutant('duplicate-pattern-check-dropped', 'R10', 'fire', _H,
           in_func('HttpBase.__init__',
                   "                if other.endpoint is not patt.endpoint:\n",
                   "                if False:\n"),
           'duplicate-patterns-accepted'),
    Mutant('hook-names-allowed', 'R10', 'fire', 'spyne/service.py',
           in_func('ServiceMeta.__init__',
                   "            if hasattr(ServiceBaseBase, k):\n",
                   "            if hasattr(ServiceBaseBase, k) and k.startswith"
                   "('_'):\n"), 'hook-name-shadowed'),
    Mutant('member-name-from-class-name', 'R9', 'fire', 'spyne/decorator.py',
           lambda src: src.replace(
               "(_self_ref_replacement.get_type_name(), _in_message_name)",
               "(_self_ref_replacement.__name__, _in_message_name)"),
           'class-part'),
    Mutant('verb-upper-cased-before-match', 'R9', 'fire',
           'spyne/server/wsgi.py',
           in_func('WsgiApplication.decompose_incoming_envelope',
                   "wsgi_env.get('REQUEST_METHOD', ''),",
                   "wsgi_env.get('REQUEST_METHOD', '').upper(),"),
           'verb-folded'),
    Mutant('same-key-silently-shadowed', 'R8', 'fire',
           'spyne/interface/_base.py',
           in_func('Interface.process_method',
                   "if om is not method and om.function is not "
                   "method.function:", "if False:"), 'silent-shadow'),
    Mutant('wsdl-shortcut-any-suffix', 'R7', 'fire', _W,
           in_func('WsgiApplication.is_wsdl_request',
                   "req_env['PATH_INFO'].endswith('.wsdl')",
                   "req_env['PATH_INFO'].endswith('wsdl')"), 'suffix'),
    Mutant('same-structure-conflict-waived', 'R7', 'fire', _I,
           in_func('Interface.has_class',
                   "            raise ValueError(\"classes %r and %r have "
                   "conflicting names: '%s'\" %",
                   "            if o1._type_info == o2._type_info:\n"
                   "                return True\n"
                   "            raise ValueError(\"classes %r and %r have "
                   "conflicting names: '%s'\" %"), 'widened'),
    Mutant('public-methods-by-public-name', 'R6', 'fire', 'spyne/service.py',
           in_func('ServiceMeta.__init__',
                   "self.public_methods[k] = descriptor",
                   "self.public_methods[descriptor.name] = descriptor"),
           'public-methods-key'),
    Mutant('interface-key-coarse-module', 'R6', 'fire', 'spyne/descriptor.py',
           in_func('MethodDescriptor.gen_interface_key',
                   "return u'{}.{}.{}'.format(cls.__module__,",
                   "return u'{}.{}.{}'.format(self._get_class_module_name("
                   "cls),"), 'module'),
    Mutant('pattern-routes-operation-name', 'R6', 'fire', _H,
           in_func('HttpBase.match_pattern',
                   "ctx.method_request_string = d.name",
                   "ctx.method_request_string = d.operation_name"),
           'route-name'),
    Mutant('internal-key-by-class-name', 'R5', 'fire', 'spyne/service.py',
           in_func('ServiceBaseBase.get_internal_key',
                   "cls.get_service_name()", "cls.get_service_class_name()"),
           'accessor'),
    Mutant('internal-key-format-changed', 'R5', 'benign', 'spyne/service.py',
           in_func('ServiceBaseBase.get_internal_key',
                   '"%s.%s" % (cls.get_service_module(), '
                   'cls.get_service_name())',
                   '"{}.{}".format(cls.get_service_module(), '
                   'cls.get_service_name())'), None),
    Mutant('path-name-unquoted', 'R1', 'fire', _W,
           in_func('WsgiApplication.decompose_incoming_envelope',
                   "wsgi_env['PATH_INFO'].split('/')[-1])",
                   "unquote(wsgi_env['PATH_INFO'].split('/')[-1]))"),
           'unquote'),
    Mutant('msgpack-name-lossy-decode', 'R1', 'fire',
           'spyne/protocol/msgpack.py',
           in_func('MessagePackRpc.decompose_incoming_envelope',
                   r"msgname_or_error\.decode\(\s*self\."
                   r"default_string_encoding\)",
                   "msgname_or_error.decode(self.default_string_encoding, "
                   "'ignore')", regex=True), 'decode(errors'),
    Mutant('case-insensitive-routing', 'R1', 'fire', _P,
           in_func('ProtocolMixin.get_call_handles',
                   "name = ctx.method_request_string",
                   "name = ctx.method_request_string.lower()"), 'lower'),
    Mutant('requalify-always', 'R1', 'fire', _P,
           in_func('ProtocolMixin.get_call_handles',
                   "        if not name.startswith(u\"{\"):\n"
                   "            name = u'{%s}%s' % (self.app.interface."
                   "get_tns(), name)",
                   "        name = u'{%s}%s' % (self.app.interface.get_tns(), "
                   "name.rpartition('}')[-1])"), ''),
    Mutant('strip-name', 'R1', 'fire', _P,
           in_func('ProtocolMixin.get_call_handles',
                   "name = ctx.method_request_string",
                   "name = ctx.method_request_string.strip()"), 'strip'),
    Mutant('prefix-scan', 'R1', 'fire', _P,
           in_func('ProtocolMixin.get_call_handles',
                   "        call_handles = self.app.interface.service_method_"
                   "map.get(name, [])",
                   "        call_handles = [d for k, v in self.app.interface."
                   "service_method_map.items() if k.startswith(name) "
                   "for d in v]"), 'scan'),
    Mutant('xml-tag-lowered', 'R1', 'fire', _X,
           in_func('XmlDocument.decompose_incoming_envelope',
                   "ctx.method_request_string = ctx.in_body_doc.tag",
                   "ctx.method_request_string = ctx.in_body_doc.tag.lower()"),
           'assign'),
    Mutant('twin-rename-local', 'R1', 'benign', _P,
           in_func('ProtocolMixin.get_call_handles',
                   r"name = ctx\.method_request_string\n(.*)name, \[\]\)",
                   lambda m: "mrs = ctx.method_request_string\n" +
                   m.group(1).replace('name', 'mrs') + "mrs, [])",
                   regex=True), ''),
    Mutant('unique-check-dropped', 'R2', 'fire', _A,
           in_func('Application.__init__',
                   "        self.check_unique_method_keys()", "        pass"),
           'check-unique'),
    Mutant('unique-check-no-raise', 'R2', 'fire', _A,
           in_func('Application.check_unique_method_keys',
                   "                    raise MethodAlreadyExistsError("
                   "mdesc.internal_key)", "                    pass"),
           'shape'),
    Mutant('second-primary-last-wins', 'R2', 'fire', _I,
           in_func('Interface.process_method',
                   r"            raise ValueError\(\"\\nThe message %r defined"
                   r" in both '%s\.%s'\"(.*?)os\.__name__\)\)",
                   "            val[0] = method", regex=True), 'no-raise'),
    Mutant('any-aux', 'R2', 'fire', _I,
           in_func('Interface.process_method',
                   "elif val[0].aux is not None:",
                   "elif any(m.aux is not None for m in val):"), 'any-aux'),
    Mutant('insert-swapped', 'R2', 'fire', _I,
           in_func('Interface.process_method', "val.insert(0, method)",
                   "val.insert(method, 0)"), 'insert-args'),
    Mutant('twin-all-aux', 'R2', 'benign', _I,
           in_func('Interface.process_method',
                   "elif val[0].aux is not None:",
                   "elif all(m.aux is not None for m in val):"), ''),
    Mutant('address-prefix-match', 'R3', 'fire', _H,
           in_func('HttpBase.match_pattern',
                   "                if not (match.span() == (0, len(path))):\n"
                   "                    continue\n", ""), 'path'),
    Mutant('verb-prefix-match', 'R3', 'fire', _H,
           in_func('HttpBase.match_pattern',
                   "                if not (match.span() == (0, len(method)))"
                   ":\n                    continue\n", ""), 'method'),
    Mutant('segment-endswith', 'R3', 'fire', _H,
           in_func('HttpBase.match_pattern',
                   "if path.split(self.SLASH)[-1] != patt.endpoint.name:",
                   "if not path.endswith(patt.endpoint.name):"),
           'segment-compare'),
    Mutant('key-format-changed', 'R4', 'fire', _I,
           in_func('Interface.process_method',
                   "method_key = u'{%s}%s' % (self.app.tns, method.name)",
                   "method_key = u'%s:%s' % (self.app.tns, method.name)"),
           'key-format'),
]
