"""C09 - faults arrive intact, are classified correctly and never leak
internals."""
import ast

from ..core import (AnalysisError, dotted, unparse, calls_in, call_name,
                    walk_no_defs, parent, ancestors, ClassInfo, FuncInfo)
from ..flow import (SeqFlow, RETURN, guards_at, flatten_guards,
                    handler_names)
from ..constfold import try_fold
from ..mutate import Mutant, in_func
from .. import guardspec

ID = 'C09'
EXPLANATION = (
    'R1 no-leak taint: in every except handler for a non-Fault class on the '
    'request path the caught exception, traceback.* and sys.exc_info() flow '
    'only into loggers and get_fault_string_from_exception, whose default '
    'returns a literal; nothing in spyne/ installs the traceback variant. '
    'R2 status table: fault_to_http_response_code is read as an ordered '
    'isinstance decision list and compared with the documented table '
    '(413/404/405/401, Client* -> 400, else 500; SOAP constant 500); exact-'
    'type dispatch that loses subclasses is reported. R3: in every serialize '
    'the result object is read only where out_error is None. R4: except Fault '
    'handlers store the caught fault itself. R5: on every path of handle_rpc '
    'that reaches handle_error the status set for success has been reset, and '
    'handle_error derives the status from the fault. R6: the tags written for '
    'fault documents equal the tags read back. R7: out_error only ever holds a '
    'Fault. Not decided: that arbitrary sub-codes, Unicode messages and '
    'nested details survive each codec (value level).')
ASSUMPTIONS = ['loggers are not part of the response',
               'Fault subclasses are recognised through the class hierarchy']
LEVEL_TEXT = (
    'Static taint, decision-list, dominance and typestate checks over the '
    'exception funnel, the status mapping, every serialize implementation and '
    'the WSGI error path. Decides the no-leak, classification and '
    'result-exclusion clauses for every path and every protocol subclass; '
    'does not decide value fidelity of fault fields through the codecs.')
LEVEL_NOTE = ('Trusted: logging does not reach the client; the frozen status '
              'table is the documented one (spyne.protocol docs, property '
              'text).')
TECHNIQUE = ('handler-local taint analysis + ordered decision-list reading + '
             'dominating guards + path typestate (ast)')

FAULT = 'spyne.model.fault:Fault'
LOG_PREFIXES = ('logger', 'logging', 'logger_client', 'logger_server',
                'logger_invalid')

STATUS_TABLE = {
    'RequestTooLongError': 'HTTP_413',
    'ResourceNotFoundError': 'HTTP_404',
    'RequestNotAllowed': 'HTTP_405',
    'InvalidCredentialsError': 'HTTP_401',
}


def is_fault_class(prog, module, expr):
    r = prog.resolve_expr(module, expr)
    if isinstance(r, ClassInfo):
        return prog.is_subclass(r, 'Fault')
    d = dotted(expr) or ''
    return d.split('.')[-1] in ('Fault', 'ValidationError', 'InternalError',
                                'ResourceNotFoundError',
                                'RequestTooLongError', 'RequestNotAllowed',
                                'InvalidCredentialsError', 'ArgumentError',
                                'InvalidInputError')


def handler_catches_nonfault(prog, f, h):
    names = handler_names(h)
    if not names:
        return True
    for e in (h.type.elts if isinstance(h.type, ast.Tuple) else [h.type]):
        if not is_fault_class(prog, f.module, e):
            return True
    return False


# ------------------------------------------------------------------- R1
def taint_sinks(prog, f, h, res, rule='R1'):
    """Examine every use of the caught exception / traceback in handler h."""
    var = h.name
    n_uses = 0
    for stmt in h.body:
        for n in walk_no_defs(stmt):
            tainted = False
            if var and isinstance(n, ast.Name) and n.id == var and \
                    isinstance(n.ctx, ast.Load):
                tainted = True
            if isinstance(n, ast.Call):
                d = dotted(n.func) or ''
                if d.startswith('traceback.') or d in ('sys.exc_info',
                                                       'format_exc'):
                    tainted = True
            if not tainted:
                continue
            n_uses += 1
            where = '%s:%d' % (f.module.relpath, n.lineno)
            # climb to the sink
            cur = n
            verdict = None
            while True:
                p = parent(cur)
                if p is None or isinstance(p, ast.ExceptHandler):
                    break
                if isinstance(p, ast.Call) and cur is not p.func:
                    d = dotted(p.func) or ''
                    nm = call_name(p)
                    if d.split('.')[0] in LOG_PREFIXES:
                        verdict = ('ok', 'logged: ' + d)
                        break
                    if nm == 'get_fault_string_from_exception':
                        verdict = ('ok', 'get_fault_string_from_exception')
                        break
                    if nm in ('isinstance', 'issubclass', 'type', 'id'):
                        verdict = ('ok', nm)
                        break
                    if is_fault_class(prog, f.module, p.func):
                        # a Fault subclass whose constructor ignores the
                        # argument (InternalError) does not leak it
                        rc = prog.resolve_expr(f.module, p.func)
                        ignored = False
                        if isinstance(rc, ClassInfo) and rc.name != 'Fault':
                            ci = rc.methods.get('__init__')
                            if ci is not None:
                                ps = ci.params()[1:]
                                pname = None
                                if cur in p.args and p.args.index(cur) < \
                                        len(ps):
                                    pname = ps[p.args.index(cur)]
                                for kw in p.keywords:
                                    if kw.value is cur:
                                        pname = kw.arg
                                if pname is not None and not any(
                                        isinstance(x, ast.Name) and
                                        x.id == pname and isinstance(
                                            x.ctx, ast.Load)
                                        for x in ast.walk(ci.node)):
                                    ignored = True
                        if ignored:
                            verdict = ('ok', '%s(...) ignores its argument'
                                       % d)
                        else:
                            verdict = ('leak', 'argument of %s(...)' % d)
                        break
                    if nm in ('start_response', 'write', 'send', 'append',
                              'extend', 'encode'):
                        verdict = ('leak', 'passed to %s' % nm)
                        break
                    if nm in ('str', 'repr', 'format', 'format_exc',
                              'format_exception', 'text_type', 'unicode',
                              'join'):
                        cur = p
                        continue
                    verdict = ('unknown', 'argument of ' + (d or nm or '?'))
                    break
                if isinstance(p, ast.Raise):
                    verdict = ('ok', 're-raised')
                    break
                if isinstance(p, (ast.Assign, ast.AugAssign, ast.AnnAssign)):
                    tg = p.targets if isinstance(p, ast.Assign) else [p.target]
                    tt = [unparse(t) for t in tg]
                    if any(t.endswith('out_error') or t.endswith('in_error')
                           or t.endswith('out_string') or
                           t.endswith('out_document') or
                           t.endswith('out_object') for t in tt):
                        from .. import guardspec as _gs
                        if isinstance(p.value, ast.Name) and any(
                                tx.startswith('isinstance(%s, ' % p.value.id)
                                and 'Fault' in tx and pol
                                for tx, pol in _gs.atoms_at(p, f.node)):
                            verdict = ('ok', 'stored as it is only where it '
                                       'is a Fault')
                        else:
                            verdict = ('leak', 'stored into ' + ', '.join(tt))
                    elif any(t.endswith('wsdl_error') for t in tt):
                        verdict = ('ok', 'kept on the transport context for '
                                   'the wsdl_exception event, never '
                                   'serialised')
                    elif all(isinstance(t, ast.Name) for t in tg):
                        verdict = ('unknown', 'assigned to local ' +
                                   ', '.join(tt))
                    else:
                        verdict = ('unknown', 'stored into ' + ', '.join(tt))
                    break
                if isinstance(p, ast.Return):
                    verdict = ('leak', 'returned')
                    break
                if isinstance(p, (ast.Attribute,)) and p.value is cur:
                    # e.message / e.args / e.faultcode ...
                    cur = p
                    continue
                if isinstance(p, (ast.BinOp, ast.JoinedStr,
                                  ast.FormattedValue, ast.Tuple, ast.List,
                                  ast.Dict, ast.Subscript, ast.keyword,
                                  ast.Starred, ast.IfExp)):
                    cur = p
                    continue
                if isinstance(p, (ast.Compare, ast.BoolOp, ast.UnaryOp,
                                  ast.If, ast.Expr)):
                    verdict = ('ok', 'tested only')
                    break
                verdict = ('unknown', type(p).__name__)
                break
            if verdict is None:
                verdict = ('unknown', 'no sink')
            inst = '%s: except %s as %s: %s -> %s' % (
                f.qualname, '/'.join(handler_names(h)) or '<bare>', var,
                unparse(n)[:30], verdict[1])
            if verdict[0] == 'ok':
                res.ob(rule, where, inst, 'ok')
            elif verdict[0] == 'leak':
                res.ob(rule, where, inst, 'VIOLATED')
                res.finding(rule, '%s|leak|%s|%s' % (
                    f.qualname, '/'.join(handler_names(h)) or 'bare',
                    verdict[1]), where, 'the caught non-Fault exception (or '
                    'its traceback) flows into the response: %s in %s' % (
                        verdict[1], f.qualname))
            else:
                res.ob(rule, where, inst, 'unclassified', nontrivial=False)
                res.unclass(rule, where, inst)
    return n_uses


def rule_r1(prog, res, tier):
    res.rule('R1', 'non-Fault exceptions reach only loggers and the literal '
             'fault string')
    mods = ['spyne.service', 'spyne.application', 'spyne.server._base', 'spyne.server.wsgi',
            'spyne.server.http', 'spyne.auxproc._base']
    if tier == 'thorough':
        mods = [m for m in prog.modules if m.startswith('spyne.server') or
                m.startswith('spyne.auxproc') or m in ('spyne.application',
                                                       'spyne.service')]
    n_handlers = 0
    for mn in sorted(mods):
        m = prog.module(mn)
        for f in m.functions.values():
            for n in walk_no_defs(f.node):
                if isinstance(n, ast.Try):
                    for h in n.handlers:
                        if handler_catches_nonfault(prog, f, h):
                            n_handlers += 1
                            taint_sinks(prog, f, h, res)
    res.floor('R1', 'non-Fault handlers on the request path', n_handlers, 6)
    # the default fault string is a literal
    m = prog.module('spyne.application')
    g = m.functions.get('get_fault_string_from_exception')
    if g is None:
        raise AnalysisError('get_fault_string_from_exception', 'not found')
    rets = [n for n in walk_no_defs(g.node) if isinstance(n, ast.Return)]
    ok = bool(rets) and all(isinstance(r.value, ast.Constant) and
                            isinstance(r.value.value, str) for r in rets)
    res.ob('R1', g.where, 'get_fault_string_from_exception returns %s' % (
        [unparse(r.value) for r in rets]), 'ok' if ok else 'VIOLATED')
    if not ok:
        res.finding('R1', 'get_fault_string_from_exception|not-literal',
                    g.where, 'the default fault string for unhandled '
                    'exceptions is not a literal: %s' % (
                        [unparse(r.value)[:60] for r in rets]))
    # who installs the traceback variant / rebinds the global
    n_inst = 0
    for f in prog.all_functions():
        for n in walk_no_defs(f.node):
            if isinstance(n, ast.Call) and call_name(n) == \
                    'return_traceback_in_unhandled_exceptions':
                n_inst += 1
                res.finding('R1', '%s|installs-traceback' % f.qualname,
                            '%s:%d' % (f.module.relpath, n.lineno),
                            '%s enables tracebacks in fault strings' %
                            f.qualname)
            if isinstance(n, ast.Global) and \
                    'get_fault_string_from_exception' in n.names and \
                    f.name != 'return_traceback_in_unhandled_exceptions':
                res.finding('R1', '%s|rebinds-fault-string' % f.qualname,
                            '%s:%d' % (f.module.relpath, n.lineno),
                            '%s rebinds get_fault_string_from_exception' %
                            f.qualname)
    res.ob('R1', 'spyne/**', 'no caller of '
           'return_traceback_in_unhandled_exceptions (%d)' % n_inst,
           'ok' if n_inst == 0 else 'VIOLATED')
    # every Fault built in a non-Fault handler uses only literals + the helper
    for mn in sorted(mods):
        m = prog.module(mn)
        for f in m.functions.values():
            for n in walk_no_defs(f.node):
                if not isinstance(n, ast.Try):
                    continue
                for h in n.handlers:
                    if not handler_catches_nonfault(prog, f, h):
                        continue
                    for st in h.body:
                        for c in calls_in(st):
                            if call_name(c) == 'Fault':
                                args = list(c.args) + [k.value
                                                       for k in c.keywords]
                                bad = [a for a in args if not (
                                    isinstance(a, ast.Constant) or (
                                        isinstance(a, ast.Call) and
                                        call_name(a) ==
                                        'get_fault_string_from_exception'))]
                                where = '%s:%d' % (m.relpath, c.lineno)
                                if bad:
                                    res.ob('R1', where, '%s builds %s' % (
                                        f.qualname, unparse(c)[:70]),
                                        'VIOLATED')
                                    res.finding('R1', '%s|fault-args|%s' % (
                                        f.qualname, unparse(bad[0])[:40]),
                                        where, 'the generic Server fault is '
                                        'built from non-literal data: ' +
                                        unparse(c)[:90])
                                else:
                                    res.ob('R1', where, '%s builds %s' % (
                                        f.qualname, unparse(c)[:70]), 'ok')


# ------------------------------------------------------------------- R2
def decision_list(f):
    """[(kind, detail, returned name)] for a body of if-return statements."""
    out = []
    for s in f.node.body:
        if isinstance(s, ast.Expr) and isinstance(s.value, ast.Constant):
            continue
        if isinstance(s, ast.Return):
            out.append(('default', None, unparse(s.value), s))
        elif isinstance(s, ast.If) and not s.orelse and len(s.body) == 1 and \
                isinstance(s.body[0], ast.Return):
            out.append(('if', s.test, unparse(s.body[0].value), s))
        else:
            out.append(('other', s, None, s))
    return out


def rule_r2(prog, res):
    res.rule('R2', 'HTTP status decision list equals the documented table')
    base = prog.method('spyne.protocol._outbase:OutProtocolBase',
                       'fault_to_http_response_code')
    dl = decision_list(base)
    where = base.where
    seen = {}
    client_idx = None
    shape_ok = True
    for i, (kind, test, ret, node) in enumerate(dl):
        if kind == 'other':
            shape_ok = False
            continue
        if kind == 'default':
            ok = ret == 'HTTP_500'
            res.ob('R2', where, 'default -> %s' % ret,
                   'ok' if ok else 'VIOLATED')
            if not ok:
                res.finding('R2', 'OutProtocolBase.fault_to_http_response_code'
                            '|default|%s' % ret, where, 'faults that are '
                            'neither dedicated nor Client must map to 500, '
                            'found %s' % ret)
            continue
        t = test
        if isinstance(t, ast.Call) and call_name(t) == 'isinstance' and \
                len(t.args) == 2:
            cls = (dotted(t.args[1]) or '').split('.')[-1]
            seen[cls] = (i, ret)
            continue
        txt = unparse(t)
        if 'faultcode' in txt:
            client_idx = i
            sw = [c for c in ast.walk(t) if isinstance(c, ast.Call) and
                  call_name(c) == 'startswith']
            eq = [c for c in ast.walk(t) if isinstance(c, ast.Compare) and
                  isinstance(c.ops[0], ast.Eq)]
            sw_ok = any(c.args and isinstance(c.args[0], ast.Constant) and
                        c.args[0].value == 'Client.' for c in sw)
            eq_ok = any(isinstance(c.comparators[0], ast.Constant) and
                        c.comparators[0].value == 'Client' for c in eq)
            or_ok = any(isinstance(b, ast.BoolOp) and isinstance(b.op, ast.Or)
                        for b in ast.walk(t))
            ok = sw_ok and eq_ok and or_ok and ret == 'HTTP_400'
            res.ob('R2', where, 'Client family test: %s -> %s' % (txt[:70],
                                                                 ret),
                   'ok' if ok else 'VIOLATED')
            if not ok:
                res.finding('R2', 'OutProtocolBase.fault_to_http_response_code'
                            '|client-test', where, 'the Client-family test '
                            'must be faultcode == "Client" or faultcode.'
                            'startswith("Client.") -> 400; found %s -> %s' % (
                                txt[:80], ret))
            continue
        shape_ok = False
    for cls, want in sorted(STATUS_TABLE.items()):
        if cls not in seen:
            if shape_ok:
                res.ob('R2', where, '%s has no dedicated status' % cls,
                       'VIOLATED')
                res.finding('R2', 'OutProtocolBase.fault_to_http_response_code'
                            '|missing|%s' % cls, where, '%s must map to %s '
                            'but has no isinstance branch' % (cls, want))
            continue
        i, ret = seen[cls]
        ok = ret == want
        before = client_idx is None or i < client_idx
        res.ob('R2', where, 'isinstance(fault, %s) -> %s (position %d)' % (
            cls, ret, i), 'ok' if ok and before else 'VIOLATED')
        if not ok:
            res.finding('R2', 'OutProtocolBase.fault_to_http_response_code|'
                        'status|%s|%s' % (cls, ret), where, '%s must map to '
                        '%s, found %s' % (cls, want, ret))
        if not before:
            res.finding('R2', 'OutProtocolBase.fault_to_http_response_code|'
                        'order|%s' % cls, where, 'the dedicated test for %s '
                        'comes after the generic Client test (its faultcode '
                        'is Client.*, so it would answer 400)' % cls)
    if not shape_ok:
        # not an if-return chain: look for exact-type dispatch
        exact = [n for n in walk_no_defs(base.node) if isinstance(n, ast.Call)
                 and call_name(n) == 'type' and n.args and
                 unparse(n.args[0]) == 'fault']
        exact += [n for n in walk_no_defs(base.node)
                  if isinstance(n, ast.Attribute) and n.attr == '__class__'
                  and unparse(n.value) == 'fault']
        if exact:
            res.ob('R2', where, 'status chosen by exact type of the fault',
                   'VIOLATED')
            res.finding('R2', 'OutProtocolBase.fault_to_http_response_code|'
                        'exact-type', where, 'the status is looked up by '
                        'type(fault): subclasses of the dedicated errors '
                        '(e.g. RespawnError < ResourceNotFoundError) fall '
                        'through to the generic rule')
        else:
            res.unclass('R2', where, 'fault_to_http_response_code is not an '
                        'if/return decision list')
    # overrides
    n_over = 0
    proto = prog.cls('spyne.protocol._outbase:OutProtocolBase')
    for k in prog.subclasses(proto, strict=True):
        f = k.methods.get('fault_to_http_response_code')
        if f is None:
            continue
        n_over += 1
        rets = [n for n in walk_no_defs(f.node) if isinstance(n, ast.Return)]
        if prog.is_subclass(k, 'Soap11'):
            ok = len(rets) == 1 and unparse(rets[0].value) == 'HTTP_500' and \
                len([s for s in f.node.body if not isinstance(s, ast.Expr)]) \
                == 1
            res.ob('R2', f.where, '%s.fault_to_http_response_code -> %s' % (
                k.name, [unparse(r.value) for r in rets]),
                'ok' if ok else 'VIOLATED')
            if not ok:
                res.finding('R2', '%s.fault_to_http_response_code|soap-500' %
                            k.name, f.where, 'SOAP must always answer 500 '
                            'for faults')
        else:
            res.unclass('R2', f.where, 'override of '
                        'fault_to_http_response_code in ' + k.name)
    res.floor('R2', 'SOAP override', n_over, 1)
    # the constants mean what their names say
    m = prog.module('spyne.const.http')
    for nm in ('HTTP_400', 'HTTP_401', 'HTTP_404', 'HTTP_405', 'HTTP_413',
               'HTTP_500', 'HTTP_200'):
        v = m.consts.get(nm)
        ok, val = try_fold(prog, m, v) if v is not None else (False, None)
        good = ok and isinstance(val, str) and val.startswith(nm[5:] + ' ')
        res.ob('R2', m.relpath, '%s = %r' % (nm, val), 'ok' if good else
               'VIOLATED')
        if not good:
            res.finding('R2', 'const|%s' % nm, m.relpath, 'status constant '
                        '%s is %r' % (nm, val))


# ------------------------------------------------------------------- R3
def rule_r3(prog, res):
    res.rule('R3', 'serialize reads the result only when out_error is None')
    proto = prog.cls('spyne.protocol._outbase:OutProtocolBase')
    n = 0
    n_funcs = 0
    core = ('spyne/protocol/xml.py', 'spyne/protocol/soap/',
            'spyne/protocol/dictdoc/', 'spyne/protocol/json.py',
            'spyne/protocol/yaml.py', 'spyne/protocol/msgpack.py',
            'spyne/protocol/http.py')
    for k in prog.subclasses(proto):
        f = k.methods.get('serialize')
        if f is None:
            continue
        if not any(f.module.relpath.startswith(c) for c in core):
            # csv / cloth / html are output-only toys outside the protocols
            # the property names: observations only
            if any(isinstance(x, ast.Attribute) and x.attr == 'out_object'
                   for x in walk_no_defs(f.node)) and not any(
                    isinstance(x, ast.Attribute) and x.attr == 'out_error'
                    for x in walk_no_defs(f.node)):
                res.note('%s.serialize (%s) never looks at ctx.out_error '
                         '(protocol outside the property\'s quantifier)' % (
                             k.name, f.where))
            continue
        reads = [x for x in walk_no_defs(f.node)
                 if isinstance(x, ast.Attribute) and x.attr == 'out_object'
                 and isinstance(x.ctx, ast.Load) and
                 (dotted(x.value) or '').endswith('ctx')]
        tests = [x for x in walk_no_defs(f.node)
                 if isinstance(x, ast.Attribute) and x.attr == 'out_error']
        if not reads and not tests:
            continue
        n_funcs += 1
        for r in reads:
            n += 1
            g = flatten_guards(guards_at(r, stop=f.node))
            ok = False
            for e, pol in g:
                t = unparse(e)
                if t.endswith('out_error is not None') and not pol:
                    ok = True
                if t.endswith('out_error is None') and pol:
                    ok = True
                if t.endswith('ctx.out_error') and not pol:
                    ok = True
            where = '%s:%d' % (f.module.relpath, r.lineno)
            res.ob('R3', where, '%s.serialize reads ctx.out_object under '
                   'out_error is None' % k.name, 'ok' if ok else 'VIOLATED')
            if not ok:
                res.finding('R3', '%s.serialize|result-on-fault-path' %
                            k.name, where, '%s.serialize reads ctx.out_object '
                            'on a path where ctx.out_error may be set: the '
                            'method\'s return value would be sent along with '
                            '(or instead of) the fault' % k.name)
        # the fault branch serialises ctx.out_error
        uses = [x for x in tests if isinstance(x.ctx, ast.Load)]
        if reads and len(uses) < 2:
            res.finding('R3', '%s.serialize|fault-not-serialised' % k.name,
                        f.where, '%s.serialize tests but never serialises '
                        'ctx.out_error' % k.name)
    res.floor('R3', 'serialize implementations with a result read', n_funcs, 5)
    res.floor('R3', 'out_object reads', n, 8)


# ------------------------------------------------------------------- R4/R7
def rule_r4_r7(prog, res, tier):
    res.rule('R4', 'except Fault handlers store the caught fault itself')
    res.rule('R7', 'out_error only ever holds a Fault')
    n4 = n7 = 0
    for f in prog.all_functions():
        rel = f.module.relpath
        if not (rel.startswith('spyne/server/') or rel in (
                'spyne/application.py', 'spyne/auxproc/_base.py',
                'spyne/auxproc/sync.py', 'spyne/auxproc/thread.py')):
            continue
        core = rel in ('spyne/application.py', 'spyne/server/_base.py',
                       'spyne/server/wsgi.py', 'spyne/server/null.py',
                       'spyne/server/http.py')
        if not core and tier == 'quick':
            continue
        for n in walk_no_defs(f.node):
            if not isinstance(n, ast.Assign):
                continue
            for t in n.targets:
                if not (isinstance(t, ast.Attribute) and
                        t.attr == 'out_error'):
                    continue
                n7 += 1
                v = n.value
                where = '%s:%d' % (rel, n.lineno)
                # enclosing handler
                h = None
                for a in ancestors(n):
                    if isinstance(a, ast.ExceptHandler):
                        h = a
                        break
                    if isinstance(a, (ast.FunctionDef, ast.Lambda)):
                        break
                kind = None
                if isinstance(v, ast.Call) and is_fault_class(
                        prog, f.module, v.func):
                    kind = 'Fault construction'
                elif isinstance(v, ast.Constant) and v.value is None:
                    kind = 'None'
                elif isinstance(v, ast.Attribute) and v.attr in (
                        'in_error', 'out_error'):
                    kind = 'copied from ' + v.attr
                elif isinstance(v, ast.Name) and h is not None and \
                        h.name == v.id:
                    from .. import guardspec as _gs
                    if not handler_catches_nonfault(prog, f, h) or any(
                            tx.startswith('isinstance(%s, ' % v.id) and
                            'Fault' in tx and pol
                            for tx, pol in _gs.atoms_at(n, f.node)):
                        kind = 'the caught Fault'
                        n4 += 1
                        res.ob('R4', where, '%s: except %s as %s: out_error '
                               '= %s' % (f.qualname, '/'.join(
                                   handler_names(h)), h.name, v.id), 'ok')
                    else:
                        kind = None
                        res.ob('R7', where, '%s: out_error = %s (caught as '
                               '%s)' % (f.qualname, v.id, '/'.join(
                                   handler_names(h)) or 'bare'), 'VIOLATED')
                        tag = 'R7'
                        res.finding(
                            tag, '%s|non-fault|%s' % (f.qualname, '/'.join(
                                handler_names(h)) or 'bare'), where,
                            'a non-Fault exception caught as %s is stored '
                            'in out_error: its class name and str() would be '
                            'serialised to the client' % (
                                '/'.join(handler_names(h)) or 'bare except'))
                        continue
                elif isinstance(v, ast.Name):
                    # parameter named error/fault handed in by a caller
                    kind = None
                if kind is not None:
                    res.ob('R7', where, '%s: out_error = %s [%s]' % (
                        f.qualname, unparse(v)[:40], kind), 'ok',
                        nontrivial=core)
                else:
                    if core:
                        res.ob('R7', where, '%s: out_error = %s' % (
                            f.qualname, unparse(v)[:40]), 'unclassified')
                    res.unclass('R7', where, '%s: out_error = %s' % (
                        f.qualname, unparse(v)[:40]))
                # R4: in an except Fault handler the stored value must be e
                if h is not None and not handler_catches_nonfault(
                        prog, f, h) and h.name and core:
                    if not (isinstance(v, ast.Name) and v.id == h.name):
                        res.ob('R4', where, '%s: except Fault as %s stores '
                               '%s' % (f.qualname, h.name, unparse(v)[:40]),
                               'VIOLATED')
                        res.finding('R4', '%s|replaced|%s' % (
                            f.qualname, unparse(v)[:40]), where,
                            'the Fault raised by user code is replaced by %s '
                            'instead of travelling unchanged' %
                            unparse(v)[:60])
    res.floor('R7', 'out_error stores', n7, 6)
    res.floor('R4', 'except-Fault stores', n4, 1)


# ------------------------------------------------------------------- R5
def rule_r5(prog, res):
    res.rule('R5', 'the error path recomputes the HTTP status from the fault')
    c = prog.cls('spyne.server.wsgi:WsgiApplication')
    hrpc = prog.find_method(c, 'handle_rpc')
    herr = prog.find_method(c, 'handle_error')

    def classify(call):
        nm = call_name(call)
        d = dotted(call.func) or ''
        if nm == 'handle_error' and d.startswith('self.'):
            return ('CALL',), True
        if d.split('.')[0] in LOG_PREFIXES:
            return (), False
        return (), True

    def on_stmt(s):
        if isinstance(s, ast.Assign):
            for t in s.targets:
                if isinstance(t, ast.Attribute) and t.attr == 'resp_code':
                    if isinstance(s.value, ast.Constant) and \
                            s.value.value is None:
                        return ['RC=None']
                    return ['RC=' + unparse(s.value)[:20]]
        return None
    sf = SeqFlow(classify, on_stmt=on_stmt)
    seqs = sf.run(hrpc.node)
    n = 0
    allq = set()
    for k, v in seqs.items():
        allq |= v
    bad = set()
    for q in allq:
        for i, e in enumerate(q):
            if e == 'CALL':
                n += 1
                prev = [x for x in q[:i] if x.startswith('RC=')]
                if prev and prev[-1] != 'RC=None':
                    bad.add(q[:i + 1])
    res.count('cfg_paths', len(allq))
    for q in sorted(bad):
        res.ob('R5', hrpc.where, 'handle_rpc path ' + ' > '.join(q),
               'VIOLATED')
        res.finding('R5', 'WsgiApplication.handle_rpc|stale-status|%s' % (
            [x for x in q if x.startswith('RC=')][-1]), hrpc.where,
            'handle_error is reached with resp_code already set (%s) and '
            'handle_error keeps a non-None code: the fault is sent with the '
            'success status' % ' > '.join(q))
    if not bad:
        res.ob('R5', hrpc.where, 'handle_rpc: every one of %d paths into '
               'handle_error has resp_code unset or reset' % n, 'ok')
    res.floor('R5', 'paths into handle_error', n, 3)
    # handle_error computes the status from the fault when it is unset
    ok = False
    for s in walk_no_defs(herr.node):
        if isinstance(s, ast.Assign) and any(
                isinstance(t, ast.Attribute) and t.attr == 'resp_code'
                for t in s.targets) and isinstance(s.value, ast.Call) and \
                call_name(s.value) == 'fault_to_http_response_code' and \
                s.value.args and unparse(s.value.args[0]) == 'error':
            g = flatten_guards(guards_at(s, stop=herr.node))
            if any(unparse(e).endswith('resp_code is None') and pol
                   for e, pol in g) or not g:
                ok = True
    res.ob('R5', herr.where, 'handle_error: resp_code = '
           'fault_to_http_response_code(error) when unset', 'ok' if ok else
           'VIOLATED')
    if not ok:
        res.finding('R5', 'WsgiApplication.handle_error|status-from-fault',
                    herr.where, 'handle_error does not derive the status from '
                    'the fault it was given')
    # the status comes from the protocol object that serialises this
    # context's error (ctx.out_protocol in ServerBase.get_out_string*), not
    # from the application-wide default
    ctxp = [p_ for p_ in herr.params() if p_ != 'self'][:1]
    for x in calls_in(herr.node):
        if call_name(x) != 'fault_to_http_response_code' or not isinstance(
                x.func, ast.Attribute):
            continue
        recv = unparse(x.func.value)
        ok = bool(ctxp) and recv == '%s.out_protocol' % ctxp[0]
        where = '%s:%d' % (herr.module.relpath, x.lineno)
        res.ob('R5', where, 'handle_error: status decided by %s' % recv,
               'ok' if ok else 'VIOLATED')
        if not ok:
            res.finding('R5', 'WsgiApplication.handle_error|status-protocol|'
                        '%s' % recv, where, 'the HTTP status of the fault is '
                        'decided by %s while the body is written by %s.'
                        'out_protocol: when the context carries its own out '
                        'protocol (per-method or negotiated protocol) status '
                        'line and body follow different rules, e.g. a SOAP '
                        'fault body sent with a 4xx HttpRpc status' % (
                            recv, ctxp[0] if ctxp else 'ctx'))
    # and start_response uses that code
    srs = [x for x in calls_in(herr.node) if call_name(x) == 'start_response']
    for sr in srs:
        ok = sr.args and unparse(sr.args[0]).endswith('resp_code')
        res.ob('R5', '%s:%d' % (herr.module.relpath, sr.lineno),
               'handle_error: start_response(%s, ...)' % (
                   unparse(sr.args[0]) if sr.args else ''),
               'ok' if ok else 'VIOLATED')
        if not ok:
            res.finding('R5', 'WsgiApplication.handle_error|status-arg',
                        '%s:%d' % (herr.module.relpath, sr.lineno),
                        'handle_error does not pass the computed status to '
                        'start_response')


# ------------------------------------------------------------------- R6
def _elem_tags(fnode):
    """Tag literals of E('tag', ...) / SubElement(x, 'tag') / Element calls."""
    out = []
    for c in calls_in(fnode):
        nm = call_name(c)
        if nm == 'E' and c.args and isinstance(c.args[0], ast.Constant):
            out.append(c.args[0].value)
        if nm in ('SubElement',) and len(c.args) > 1 and isinstance(
                c.args[1], ast.Constant):
            out.append(c.args[1].value)
    return out


def rule_r6(prog, res):
    res.rule('R6', 'fault writer tags/keys agree with the reader')
    xml = prog.cls('spyne.protocol.xml:XmlDocument')
    w = xml.methods.get('_fault_to_parent_impl') or \
        xml.methods.get('fault_to_parent')
    r = xml.methods.get('fault_from_element')
    if w is None or r is None:
        raise AnalysisError('XmlDocument fault writer/reader', 'not found')
    wt = set(t for t in _elem_tags(w.node) if isinstance(t, str))
    for nm in ('fault_to_parent', '_fault_to_parent_impl'):
        if nm in xml.methods:
            wt |= set(t for t in _elem_tags(xml.methods[nm].node)
                      if isinstance(t, str))
    rt = set()
    for c in calls_in(r.node):
        if call_name(c) in ('find', 'findtext') and c.args and isinstance(
                c.args[0], ast.Constant):
            rt.add(c.args[0].value)
    need = {'faultcode', 'faultstring', 'faultactor', 'detail'}
    for t in sorted(need):
        okw = t in wt or any(
            isinstance(x, ast.Constant) and x.value == t
            for nm in ('fault_to_parent', '_fault_to_parent_impl')
            if nm in xml.methods for x in ast.walk(xml.methods[nm].node))
        okr = t in rt
        res.ob('R6', w.where, 'SOAP 1.1 fault member %s: written=%s read=%s'
               % (t, okw, okr), 'ok' if okw and okr else 'VIOLATED')
        if not (okw and okr):
            res.finding('R6', 'XmlDocument.fault|%s|w=%s,r=%s' % (t, okw,
                                                                  okr),
                        w.where, 'fault member <%s> is %s by '
                        '_fault_to_parent_impl and %s by fault_from_element'
                        % (t, 'written' if okw else 'NOT written',
                           'read' if okr else 'NOT read'))
    # Fault.to_dict keys are accepted by Fault.__init__
    flt = prog.cls(FAULT)
    td = flt.methods.get('to_dict')
    init = flt.methods.get('__init__')
    keys = set()
    for n in walk_no_defs(td.node):
        if isinstance(n, ast.Dict) and n is not None:
            pass
    main = [n for n in walk_no_defs(td.node) if isinstance(n, ast.Assign) and
            isinstance(n.value, ast.Dict)]
    for n in main:
        for k in n.value.keys:
            if isinstance(k, ast.Constant):
                keys.add(k.value)
    for n in walk_no_defs(td.node):
        if isinstance(n, ast.Assign) and isinstance(
                n.targets[0], ast.Subscript) and isinstance(
                n.targets[0].slice, ast.Constant):
            keys.add(n.targets[0].slice.value)
    params = set(init.params()[1:])
    extra = sorted(k for k in keys if k not in params)
    res.ob('R6', td.where, 'Fault.to_dict keys %s accepted by Fault(**doc) '
           'parameters %s' % (sorted(keys), sorted(params)),
           'ok' if not extra and {'faultcode', 'faultstring'} <= keys
           else 'VIOLATED')
    if extra:
        res.finding('R6', 'Fault.to_dict|keys|%s' % extra, td.where,
                    'Fault.to_dict writes keys %s that Fault(**doc) does not '
                    'accept' % extra)
    if not {'faultcode', 'faultstring'} <= keys:
        res.finding('R6', 'Fault.to_dict|missing-core-keys', td.where,
                    'Fault.to_dict does not write faultcode/faultstring')
    # to_dict copies the fields verbatim
    for n in main:
        for k, v in zip(n.value.keys, n.value.values):
            if isinstance(k, ast.Constant) and k.value in (
                    'faultcode', 'faultstring') and isinstance(
                    v, ast.Attribute) and dotted(v.value) == 'value':
                ok = v.attr == k.value
                res.ob('R6', td.where, 'to_dict[%s] = value.%s' % (
                    k.value, v.attr), 'ok' if ok else 'VIOLATED')
                if not ok:
                    res.finding('R6', 'Fault.to_dict|swapped|%s' % k.value,
                                td.where, 'Fault.to_dict stores value.%s '
                                'under %r' % (v.attr, k.value))


# ------------------------------------------------------------------- R8
def rule_r8(prog, res):
    res.rule('R8', 'callee preconditions of the fault-detail converter hold '
             'at every call site')
    m = prog.module('spyne.util.etreeconv')
    f = m.functions.get('root_dict_to_etree')
    if f is None:
        raise AnalysisError('root_dict_to_etree', 'not found')
    pre = [n for n in f.node.body if isinstance(n, ast.Assert) and
           unparse(n.test).replace(' ', '') in ('len(d)==1', '1==len(d)')]
    single = bool(pre) or any(
        isinstance(n, ast.Assign) and isinstance(n.targets[0], ast.Tuple) and
        len(n.targets[0].elts) == 1 for n in walk_no_defs(f.node))
    if not single:
        res.ob('R8', f.where, 'root_dict_to_etree accepts any dict', 'ok',
               nontrivial=False)
        return
    n = 0
    for g in prog.all_functions():
        if not g.module.relpath.startswith('spyne/protocol/'):
            continue
        for c in calls_in(g.node):
            if call_name(c) != 'root_dict_to_etree' or not c.args:
                continue
            n += 1
            a = c.args[0]
            where = '%s:%d' % (g.module.relpath, c.lineno)
            ok = isinstance(a, ast.Dict) and len(a.keys) == 1 and \
                a.keys[0] is not None
            if not ok:
                gd = flatten_guards(guards_at(c, stop=g.node))
                ok = any('len(' in unparse(e) and '== 1' in unparse(e) and pol
                         for e, pol in gd)
            res.ob('R8', where, '%s: %s' % (g.qualname, unparse(c)[:70]),
                   'ok' if ok else 'VIOLATED')
            if not ok:
                res.finding('R8', '%s|root_dict_to_etree|%s' % (
                    g.qualname, unparse(a)[:40]), where,
                    'root_dict_to_etree requires a single-key dict but %s '
                    'passes %s: a fault detail with two or more top-level '
                    'keys fails while the fault is being serialised' % (
                        g.qualname, unparse(a)[:60]))
    res.floor('R8', 'root_dict_to_etree call sites', n, 2)


# ------------------------------------------------------------------- R9
def rule_r9(prog, res):
    res.rule('R9', 'fault constructors format their message with a tuple '
             'operand and writers of fault detail keep falsy values')
    m = prog.module('spyne.error')
    n = 0
    for f in m.functions.values():
        if f.name != '__init__':
            continue
        params = set(f.params())
        for b in walk_no_defs(f.node):
            if not (isinstance(b, ast.BinOp) and isinstance(b.op, ast.Mod)):
                continue
            n += 1
            where = '%s:%d' % (m.relpath, b.lineno)
            bare = isinstance(b.right, ast.Name) and b.right.id in params
            res.ob('R9', where, '%s: %s' % (f.qualname, unparse(b)[:60]),
                   'VIOLATED' if bare else 'ok')
            if bare:
                res.finding('R9', '%s|bare-format-operand|%s' % (
                    f.qualname, b.right.id), where,
                    '%s formats its message with "%% %s": when the caller '
                    'passes a tuple (a composite key) the %% operator '
                    'spreads it over the placeholders and raises TypeError '
                    'instead of constructing the fault, which the server '
                    'then reports as an internal error' % (
                        f.qualname, b.right.id))
    res.floor('R9', 'formatted fault messages in spyne.error', n, 3)
    ec = prog.module('spyne.util.etreeconv')
    funcs = [ec.functions[k] for k in ('dict_to_etree', 'root_dict_to_etree')
             if k in ec.functions]
    k = guardspec.presence_rule(
        res, 'R9', funcs, {'v', 'val', 'value', 'e', 'a', 'd'},
        'falsy scalars in a fault detail dict (0, False, "") lose their '
        'text and arrive as empty elements')
    res.floor('R9', 'None tests in the detail converter', k, 1)


# ------------------------------------------------------------------ R10
def rule_r10(prog, res):
    res.rule('R10', 'the positional fault form has the same arity on every '
             'path; SOAP 1.2 sub-codes are linked into one chain')
    from ..flow import SeqFlow, RETURN
    fc = prog.cls('spyne.model.fault:Fault')
    f = fc.methods.get('to_list')
    if f is None:
        raise AnalysisError('Fault.to_list', 'not found')

    def on_stmt(st):
        if isinstance(st, ast.Assign) and isinstance(
                st.value, (ast.List, ast.Tuple)) and any(
                isinstance(t, ast.Name) for t in st.targets):
            return ['N%d' % len(st.value.elts)]
        if isinstance(st, ast.Return) and isinstance(
                st.value, (ast.List, ast.Tuple)):
            return ['N%d' % len(st.value.elts)]
        return None

    def classify(call):
        if call_name(call) == 'append' and isinstance(
                call.func, ast.Attribute) and isinstance(
                call.func.value, ast.Name):
            return ('+1',), False
        if call_name(call) in ('extend', 'insert', 'pop', 'remove'):
            return ('?',), False
        return (), False
    seqs = SeqFlow(classify, on_stmt=on_stmt).run(f.node)
    sizes = set()
    for q in seqs.get(RETURN, set()):
        if '?' in q:
            sizes.add('?')
            continue
        tot = 0
        for e in q:
            if e.startswith('N'):
                tot = int(e[1:])
            elif e == '+1':
                tot += 1
        sizes.add(tot)
    ok = len(sizes) == 1 and '?' not in sizes
    res.ob('R10', f.where, 'Fault.to_list: list length on the returning '
           'paths: %s' % sorted(map(str, sizes)), 'ok' if ok else 'VIOLATED',
           nontrivial=True)
    res.floor('R10', 'returning paths of Fault.to_list', len(seqs.get(
        RETURN, ())), 2)
    if not ok:
        res.finding('R10', 'Fault.to_list|arity|%s' % sorted(map(str, sizes)),
                    f.where, 'the positional fault document has %s items '
                    'depending on the path: when an optional slot is left '
                    'out the following slots shift, so a reader that takes '
                    '[code, string, actor, detail] by position finds the '
                    'detail in the actor slot and no detail' % sorted(
                        map(str, sizes)))
    # SOAP 1.2 sub-code chain
    c12_ = prog.cls('spyne.protocol.soap.soap12:Soap12', required=False)
    g = c12_.methods.get('_fault_to_parent_impl') if c12_ else None
    if g is None:
        return
    loops = [l_ for l_ in walk_no_defs(g.node) if isinstance(l_, ast.For) and
             'faultcodes' in unparse(l_.iter)]
    res.floor('R10', 'sub-code loops in Soap12._fault_to_parent_impl',
              len(loops), 1)
    for lp in loops:
        made = [c for c in calls_in(lp) if call_name(c) == 'generate_subcode']
        linked = False
        # (a) the node built so far is passed as the child of the next one
        carried = {t.id for a in walk_no_defs(lp) if isinstance(a, ast.Assign)
                   and isinstance(a.value, ast.Call) and
                   call_name(a.value) == 'generate_subcode'
                   for t in a.targets if isinstance(t, ast.Name)}
        for c in made:
            if len(c.args) >= 2 and isinstance(c.args[1], ast.Name) and \
                    c.args[1].id in carried:
                linked = True
        # (b) or the anchor is re-bound to the node just created
        for a in walk_no_defs(lp):
            if isinstance(a, ast.Assign) and isinstance(a.value, ast.Name) \
                    and a.value.id in carried and any(
                    isinstance(t, ast.Name) for t in a.targets):
                anchors = {t.id for t in a.targets if isinstance(t, ast.Name)}
                if any(call_name(c) == 'append' and isinstance(
                        c.func.value, ast.Name) and c.func.value.id in anchors
                        for c in calls_in(lp)):
                    linked = True
        where = '%s:%d' % (g.module.relpath, lp.lineno)
        res.ob('R10', where, 'Soap12 sub-codes: each new Subcode %s' % (
            'receives/joins the chain built so far' if linked else
            'is attached to a fixed anchor'), 'ok' if linked else 'VIOLATED')
        if not linked:
            res.finding('R10', 'Soap12._fault_to_parent_impl|subcode-chain',
                        where, 'the loop over the dotted fault code creates '
                        'Subcode elements without linking each to the one '
                        'created before: from the third sub-code on they '
                        'become siblings, so a client following the nested '
                        'Code/Subcode chain reads a truncated fault code')


# ------------------------------------------------------------------ R11
def rule_r11(prog, res):
    res.rule('R11', 'a fault keeps the message it was given unless that '
             'message is empty; SOAP answers every fault with 500')
    fc = prog.cls('spyne.model.fault:Fault')
    f = fc.methods.get('__init__')
    if f is None:
        raise AnalysisError('Fault.__init__', 'not found')
    bad = [c for c in calls_in(f.node) if isinstance(c.func, ast.Attribute)
           and isinstance(c.func.value, ast.Name) and
           c.func.value.id == 'faultstring' and c.func.attr in (
               'isspace', 'strip', 'lstrip', 'rstrip', 'lower', 'upper',
               'title', 'replace', 'split', 'encode', 'decode', 'format')]
    stores = [a for a in walk_no_defs(f.node) if isinstance(a, ast.Assign)
              and any(unparse(t) == 'self.faultstring' for t in a.targets)]
    res.floor('R11', 'stores of the fault message', len(stores), 1)
    res.ob('R11', f.where, 'Fault.__init__: faultstring %s' % (
        'is inspected with %s' % [unparse(c)[:30] for c in bad] if bad else
        'is stored as given (fallback only when falsy)'),
        'VIOLATED' if bad else 'ok')
    for c in bad[:1]:
        res.finding('R11', 'Fault.__init__|message-rewritten|%s' %
                    c.func.attr, '%s:%d' % (f.module.relpath, c.lineno),
                    'Fault.__init__ tests or transforms the message with %s: '
                    'messages that fail the test (whitespace-only text) are '
                    'replaced by the class name, so the client does not '
                    'receive the fault the user raised' % unparse(c)[:40])
    # SOAP: constant 500 whatever the fault class
    s11 = prog.cls('spyne.protocol.soap.soap11:Soap11')
    g = s11.methods.get('fault_to_http_response_code')
    if g is not None:
        rets = [r for r in walk_no_defs(g.node) if isinstance(r, ast.Return)]
        ok = len(rets) == 1 and unparse(rets[0].value) == 'HTTP_500'
        res.ob('R11', g.where, 'Soap11.fault_to_http_response_code returns '
               '%s' % [unparse(r.value) for r in rets],
               'ok' if ok else 'VIOLATED')
        if not ok:
            res.finding('R11', 'Soap11.fault_to_http_response_code|not-'
                        'constant', g.where, 'the SOAP status is no longer '
                        'the constant 500 (%s): SOAP 1.1 over HTTP answers '
                        'every fault with 500' % [unparse(r.value)
                                                  for r in rets])


# ------------------------------------------------------------------ R12
def rule_r12(prog, res):
    res.rule('R12', 'each part of a fault document is written whenever the '
             'fault has it: its presence depends on that part alone; the '
             'SOAP 1.2 sub-code list and the detail converter decide on the '
             'item they handle')
    fc = prog.cls('spyne.model.fault:Fault')
    f = fc.methods.get('to_dict')
    if f is None:
        raise AnalysisError('Fault.to_dict', 'not found')
    n = 0
    for a in walk_no_defs(f.node):
        if not isinstance(a, ast.Assign):
            continue
        for t in a.targets:
            if not (isinstance(t, ast.Subscript) and isinstance(
                    t.slice, ast.Constant) and isinstance(t.slice.value,
                                                          str)):
                continue
            key = t.slice.value
            n += 1
            atoms = guardspec.atoms_at(a, f.node)
            foreign = [(tx, pol) for tx, pol in atoms
                       if 'issubclass(cls' not in tx and
                       ('value.%s' % key) not in tx and
                       not (key == 'faultactor' and
                            'ignore_empty_faultactor' in tx)]
            where = '%s:%d' % (f.module.relpath, a.lineno)
            res.ob('R12', where, 'Fault.to_dict writes %r under %s' % (
                key, ['%s%s' % ('' if pol else 'not ', tx)
                      for tx, pol in atoms]),
                'VIOLATED' if foreign else 'ok')
            for tx, pol in foreign[:1]:
                res.finding('R12', 'Fault.to_dict|%s|foreign-condition' % key,
                            where, 'the %r entry of the fault document is '
                            'written only under "%s%s", a condition on '
                            'another part of the fault: faults that fail it '
                            'lose their %s on every dict-document protocol' %
                            (key, '' if pol else 'not ', tx, key))
    res.floor('R12', 'entries of the fault document', n, 2)
    # SOAP 1.2: code and sub-codes come from one split
    s12 = prog.cls('spyne.protocol.soap.soap12:Soap12')
    g = s12.methods.get('gen_fault_codes')
    if g is None:
        raise AnalysisError('Soap12.gen_fault_codes', 'not found')
    rets = [r for r in walk_no_defs(g.node) if isinstance(r, ast.Return) and
            isinstance(r.value, ast.Tuple) and len(r.value.elts) == 2]
    res.floor('R12', 'returns of gen_fault_codes', len(rets), 1)
    for r in rets:
        sub = r.value.elts[1]
        resplit = [c for c in ast.walk(sub) if isinstance(c, ast.Call) and
                   call_name(c) in ('split', 'rsplit')]
        srcs = []
        if isinstance(sub, ast.Name):
            srcs = [a.value for a in walk_no_defs(g.node) if isinstance(
                a, ast.Assign) and any(isinstance(t, ast.Name) and
                                       t.id == sub.id for t in a.targets)]
            resplit += [c for v in srcs for c in ast.walk(v)
                        if isinstance(c, ast.Call) and call_name(c) in (
                            'split', 'rsplit')]
        # a split of the *remainder* (partition, maxsplit) yields [''] for a
        # code without sub-codes
        remainder = [c for c in resplit if isinstance(c.func, ast.Attribute)
                     and unparse(c.func.value) not in g.params()]
        guarded = [c for c in remainder
                   if guardspec.atoms_at(c, g.node) and any(
                       unparse(c.func.value) in tx
                       for tx, _ in guardspec.atoms_at(c, g.node))]
        bad = [c for c in remainder if c not in guarded]
        where = '%s:%d' % (g.module.relpath, r.lineno)
        res.ob('R12', where, 'gen_fault_codes returns sub-codes %s' % (
            unparse(sub)[:40]), 'VIOLATED' if bad else 'ok')
        for c in bad[:1]:
            res.finding('R12', 'Soap12.gen_fault_codes|remainder-split',
                        where, 'the sub-code list is %s, a split of the '
                        'remainder of the code: for a code without '
                        'sub-codes ("Server") the remainder is empty and '
                        '"".split(".") is [""], so the fault gets an empty '
                        'Subcode and decodes as "Server."' % unparse(c)[:40])
    # the detail converter tests the item it is about to convert
    m = prog.module('spyne.util.etreeconv')
    k = 0
    for fn in m.functions.values():
        if fn.name not in ('dict_to_etree', 'root_dict_to_etree'):
            continue
        for loop in walk_no_defs(fn.node):
            if not isinstance(loop, ast.For):
                continue
            it = unparse(loop.iter)
            for st in loop.body:
                for x in ast.walk(st):
                    if isinstance(x, ast.If):
                        k += 1
                        tests = [c for c in ast.walk(x.test) if isinstance(
                            c, ast.Call) and call_name(c) == 'isinstance' and
                            c.args and unparse(c.args[0]) == it]
                        where = '%s:%d' % (m.relpath, x.lineno)
                        res.ob('R12', where, '%s: item test %s in the loop '
                               'over %s' % (fn.qualname,
                                            unparse(x.test)[:50], it),
                               'VIOLATED' if tests else 'ok')
                        if tests:
                            res.finding('R12', '%s|container-tested-in-loop'
                                        % fn.qualname, where, 'inside the '
                                        'loop over %s the kind test looks at '
                                        '%s itself, not at the item: the '
                                        'branch is decided once for the whole '
                                        'list, so dicts inside a list are '
                                        'written as their str() instead of '
                                        'nested elements' % (it, it))
    res.floor('R12', 'item tests in the detail converter loops', k, 1)


# ------------------------------------------------------------------ R13
def rule_r13(prog, res):
    res.rule('R13', 'SOAP 1.2 fault writer: the "no sub-code yet" marker is '
             'one the final test recognises (initial constant evaluated '
             'against the comparison that guards the append)')
    s12 = prog.cls('spyne.protocol.soap.soap12:Soap12')
    f = s12.methods.get('_fault_to_parent_impl')
    if f is None:
        raise AnalysisError('Soap12._fault_to_parent_impl', 'not found')
    n = 0
    for a in walk_no_defs(f.node):
        if not (isinstance(a, ast.Assign) and len(a.targets) == 1 and
                isinstance(a.targets[0], ast.Name) and
                isinstance(a.value, ast.Constant)):
            continue
        var, init = a.targets[0].id, a.value.value
        for t in walk_no_defs(f.node):
            if not (isinstance(t, ast.If) and t.lineno > a.lineno):
                continue
            c = t.test
            uses = [x for st in t.body for x in ast.walk(st) if isinstance(
                x, ast.Call) and call_name(x) in ('append', 'extend',
                                                  'insert') and any(
                isinstance(y, ast.Name) and y.id == var for y in x.args)]
            if not uses:
                continue
            verdict = None
            if isinstance(c, ast.Compare) and len(c.ops) == 1 and isinstance(
                    c.left, ast.Name) and c.left.id == var and isinstance(
                    c.comparators[0], ast.Constant):
                k = c.comparators[0].value
                op = c.ops[0]
                try:
                    verdict = {ast.NotEq: init != k, ast.Eq: init == k,
                               ast.IsNot: init is not k, ast.Is: init is k
                               }.get(type(op))
                except Exception:
                    verdict = None
            elif isinstance(c, ast.Name) and c.id == var:
                verdict = bool(init)
            elif isinstance(c, ast.UnaryOp) and isinstance(c.op, ast.Not) and \
                    isinstance(c.operand, ast.Name) and c.operand.id == var:
                verdict = not init
            if verdict is None:
                continue
            n += 1
            where = '%s:%d' % (f.module.relpath, t.lineno)
            res.ob('R13', where, '%s starts as %r; "%s" is %s for that '
                   'marker' % (var, init, unparse(c), verdict),
                   'VIOLATED' if verdict else 'ok')
            if verdict:
                res.finding('R13', 'Soap12._fault_to_parent_impl|marker|%s' %
                            var, where, '%s is initialised to %r, for which '
                            'the test "%s" holds: a fault code without '
                            'sub-codes ("Server", "Client") appends the '
                            'marker itself to the Code element and the '
                            'serialisation of the fault raises TypeError' % (
                                var, init, unparse(c)))
    res.floor('R13', 'marker tests in the SOAP 1.2 fault writer', n, 1)


# ------------------------------------------------------------------ R14
def rule_r14(prog, res):
    res.rule('R14', 'an exception raised while the response is serialized '
             'keeps its class when it is a Fault, and the error response is '
             'built from scratch (nothing of the abandoned response stays in '
             'out_document / out_string)')
    w = prog.cls('spyne.server.wsgi:WsgiApplication')
    f = w.methods.get('handle_rpc')
    n = 0
    for t in walk_no_defs(f.node):
        if not isinstance(t, ast.Try):
            continue
        for h in t.handlers:
            if h.type is None or unparse(h.type) not in ('Exception',
                                                         'BaseException'):
                continue
            if not any(call_name(x) == 'handle_error' for st in h.body
                       for x in ast.walk(st) if isinstance(x, ast.Call)):
                continue
            n += 1
            keeps = any(isinstance(a, ast.Assign) and any(
                unparse(tg).endswith('.out_error') for tg in a.targets) and
                isinstance(a.value, ast.Name) and a.value.id == h.name
                for st in h.body for a in ast.walk(st))
            where = '%s:%d' % (f.module.relpath, h.lineno)
            res.ob('R14', where, 'handler of %s %s a Fault as it is' % (
                unparse(t.body[0])[:40], 'keeps' if keeps else
                'does not keep'), 'ok' if keeps else 'VIOLATED')
            if not keeps:
                res.finding('R14', 'WsgiApplication.handle_rpc|fault-'
                            'reclassified|%d' % n, where, 'the handler '
                            'replaces whatever was raised by a generic Server '
                            'fault: a Fault raised by lazily run user code '
                            '(a generator result, a lazy serializer) reaches '
                            'the client as Server / Internal Error with '
                            'status 500 instead of its own code, message and '
                            'detail')
            serializes = any(call_name(c) == 'get_out_string'
                             for st in t.body for c in ast.walk(st)
                             if isinstance(c, ast.Call))
            if serializes:
                resets = {unparse(tg).split('.')[-1] for st in h.body
                          for a in ast.walk(st) if isinstance(a, ast.Assign)
                          and isinstance(a.value, ast.Constant) and
                          a.value.value is None for tg in a.targets}
                ok = 'out_document' in resets and 'out_string' in resets
                res.ob('R14', where, 'handler resets %s before the error '
                       'response is built' % sorted(resets),
                       'ok' if ok else 'VIOLATED')
                if not ok:
                    res.finding('R14', 'WsgiApplication.handle_rpc|stale-'
                                'response', where, 'the handler goes to '
                                'handle_error without clearing out_document '
                                'and out_string: get_out_string serializes '
                                'only when out_document is None, so the '
                                'half-built response (an empty SOAP Envelope, '
                                'or the method\'s return value) is sent with '
                                'the error status instead of the fault')
    res.floor('R14', 'funnelling handlers in handle_rpc', n, 2)


# ------------------------------------------------------------------ R15
def rule_r15(prog, res):
    res.rule('R15', 'SOAP 1.2 faults: element names use the envelope '
             'namespace, every fault writer leaves the first slot to Code, '
             'byte messages are decoded, and the reader looks elements up by '
             'namespace, not by the sender\'s prefix')
    s12 = prog.cls('spyne.protocol.soap.soap12:Soap12')
    n = 0
    for nm, f in sorted(s12.methods.items()):
        for b in walk_no_defs(f.node):
            if isinstance(b, ast.BinOp) and isinstance(b.op, ast.Mod) and \
                    isinstance(b.left, ast.Constant) and isinstance(
                        b.left.value, str) and \
                    b.left.value.startswith('{%s}'):
                n += 1
                arg = unparse(b.right)
                ok = arg in ('self.ns_soap_env', '(self.ns_soap_env,)',
                             'NS_XML', '(NS_XML,)')
                where = '%s:%d' % (f.module.relpath, b.lineno)
                if not ok:
                    res.ob('R15', where, '%s: %s' % (f.qualname, unparse(b)),
                           'VIOLATED')
                    res.finding('R15', '%s|tag-namespace|%s' % (f.qualname,
                                                                arg), where,
                                '%s builds the element name %s with %s, which '
                                'is not the envelope namespace (soap_env is '
                                'the prefix): the element ends up in a '
                                'namespace no reader knows' % (
                                    f.qualname, b.left.value, arg))
        for c in calls_in(f.node):
            if call_name(c) == '_fault_to_parent_impl' and len(c.args) >= 6:
                lst = c.args[5]
                src = lst
                if isinstance(lst, ast.Name):
                    vals = [a.value for a in walk_no_defs(f.node)
                            if isinstance(a, ast.Assign) and any(
                                isinstance(t, ast.Name) and t.id == lst.id
                                for t in a.targets)]
                    src = vals[-1] if vals else None
                ok = isinstance(src, ast.List) and src.elts and isinstance(
                    src.elts[0], ast.Constant) and src.elts[0].value is None
                where = '%s:%d' % (f.module.relpath, c.lineno)
                res.ob('R15', where, '%s hands %s to _fault_to_parent_impl' %
                       (f.qualname, 'a list that starts with the Code slot'
                        if ok else 'a list without the Code slot'),
                       'ok' if ok else 'VIOLATED')
                if not ok:
                    res.finding('R15', '%s|code-slot' % f.qualname, where,
                                '_fault_to_parent_impl stores the Code element '
                                'into slot 0 of the list it is given; %s '
                                'passes a list whose first element is already '
                                'a child, which Code overwrites' % f.qualname)
        for c in calls_in(f.node):
            if call_name(c) in ('find', 'findall', 'xpath', 'iterfind'):
                for k in c.keywords:
                    if k.arg == 'namespaces':
                        srcs = [unparse(k.value)]
                        if isinstance(k.value, ast.Name):
                            srcs += [unparse(a.value)
                                     for a in walk_no_defs(f.node)
                                     if isinstance(a, ast.Assign) and any(
                                         isinstance(t, ast.Name) and
                                         t.id == k.value.id
                                         for t in a.targets)]
                        bad = [s_ for s_ in srcs if s_.endswith('.nsmap')]
                        where = '%s:%d' % (f.module.relpath, c.lineno)
                        if bad:
                            res.ob('R15', where, '%s: %s' % (
                                f.qualname, unparse(c)[:50]), 'VIOLATED')
                            res.finding('R15', '%s|prefix-lookup' %
                                        f.qualname, where, '%s resolves the '
                                        'prefixes of its search path with '
                                        'the nsmap of the received element '
                                        '(%s): the fault is readable only if '
                                        'the sender used the same prefix' % (
                                            f.qualname, bad[0]))
    sv = s12.methods.get('schema_validation_error_to_parent')
    if sv is not None:
        decodes = any(call_name(c) in ('fromstring', 'decode')
                      for c in calls_in(sv.node))
        res.ob('R15', sv.where, 'Soap12.schema_validation_error_to_parent %s '
               'the byte message' % ('decodes' if decodes else
                                     'does not decode'),
               'ok' if decodes else 'VIOLATED')
        if not decodes:
            res.finding('R15', 'Soap12.schema_validation_error_to_parent|'
                        'bytes-message', sv.where, 'the message of a '
                        'SchemaValidationError is bytes '
                        '(__validate_lxml encodes it); lxml\'s E() refuses '
                        'bytes, so every schema-invalid request under '
                        'Soap12(validator="lxml") raises TypeError out of '
                        'the request')
    res.floor('R15', 'element names built in Soap12', n, 6)


def rule_r16(prog, res):
    res.rule('R16', 'the servers serialise with the protocol of the request '
             'context (ctx.out_protocol), which user code may have switched, '
             'never with the application\'s: the fault document and its '
             'bytes must come from one protocol')
    n = k = 0
    for mod in prog.modules.values():
        if not mod.relpath.startswith('spyne/server/') or \
                '/twisted/' in mod.relpath:
            continue
        for fn in mod.functions.values():
            for c in calls_in(fn.node):
                if not isinstance(c.func, ast.Attribute):
                    continue
                base = unparse(c.func.value)
                if base.endswith('ctx.out_protocol'):
                    n += 1
                elif base.endswith('app.out_protocol'):
                    k += 1
                    where = '%s:%d' % (mod.relpath, c.lineno)
                    res.ob('R16', where, '%s calls %s' % (
                        fn.qualname, unparse(c.func)), 'VIOLATED')
                    res.finding('R16', '%s|app-out-protocol|%s' % (
                        fn.qualname, c.func.attr), where, '%s calls %s: when '
                        'a method assigned ctx.out_protocol and then raised, '
                        'the fault is serialised by the application\'s '
                        'protocol and turned into bytes (and given its '
                        'content type and status) by the request\'s: a SOAP '
                        '1.1 fault under the SOAP 1.2 content type, or a '
                        'TypeError out of the WSGI callable' % (
                            fn.qualname, unparse(c.func)))
    res.ob('R16', 'spyne/server/', 'calls on ctx.out_protocol: %d, on '
           'app.out_protocol: %d' % (n, k), 'ok')
    res.floor('R16', 'calls on the context\'s out protocol', n, 3)


def rule_r17(prog, res):
    from . import c01
    from ..report import Result
    res.share('R17', 'what Soap12 inherits from Soap11 (the fault test of '
              'deserialize included) names elements through self.ns_soap_env '
              '(C01-R15)', 'C01', c01.rule_r15, prog, Result)
    res.rule('R17', 'the plain fault writer puts the fault message into '
             'faultstring as it is (no markup parsing of the text)')
    x = prog.cls('spyne.protocol.xml:XmlDocument')
    f = x.methods.get('fault_to_parent')
    if f is None:
        raise AnalysisError('XmlDocument.fault_to_parent', 'not found')
    n = 0
    for c in calls_in(f.node):
        if call_name(c) == 'E' and c.args and isinstance(
                c.args[0], ast.Constant) and c.args[0].value == 'faultstring':
            n += 1
            t = unparse(c.args[1]) if len(c.args) > 1 else ''
            ok = 'fromstring' not in t and 'html' not in t
            where = '%s:%d' % (f.module.relpath, c.lineno)
            res.ob('R17', where, 'fault_to_parent writes faultstring from %s'
                   % t[:50], 'ok' if ok else 'VIOLATED')
            if not ok:
                res.finding('R17', 'XmlDocument.fault_to_parent|message-'
                            'parsed-as-markup', where, 'the fault message '
                            'goes through %s before it is written: "expected '
                            '<int> but got <str>" arrives as "expected ", '
                            'character references are resolved, leading '
                            'blanks dropped' % t[:40])
    res.floor('R17', 'faultstring elements in fault_to_parent', n, 1)


def rule_r18(prog, res):
    res.rule('R18', 'the fault writers of the XML family dispatch on the kind '
             'of the detail only: no value of an accepted kind falls through '
             'to the closing raise')
    n = 0
    for cfq in ('spyne.protocol.xml:XmlDocument',
                'spyne.protocol.soap.soap12:Soap12'):
        k = prog.cls(cfq)
        f = k.methods.get('_fault_to_parent_impl')
        if f is None or f.cls is not k:
            continue
        for top in walk_no_defs(f.node):
            if not isinstance(top, ast.If) or (
                    isinstance(parent(top), ast.If) and
                    top in parent(top).orelse and
                    len(parent(top).orelse) == 1):
                continue
            chain = []
            cur = top
            while True:
                chain.append(cur)
                if len(cur.orelse) == 1 and isinstance(cur.orelse[0], ast.If):
                    cur = cur.orelse[0]
                    continue
                break
            last = cur.orelse
            if not any(isinstance(x, ast.Raise) for x in last) or not all(
                    '.detail' in unparse(c.test) for c in chain):
                continue
            n += 1
            for c in chain:
                conj = c.test.values if isinstance(
                    c.test, ast.BoolOp) and isinstance(
                    c.test.op, ast.And) else [c.test]
                kinds = [x for x in conj if (isinstance(x, ast.Call) and
                         call_name(x) == 'isinstance') or (
                         isinstance(x, ast.Compare) and isinstance(
                             x.ops[0], ast.Is))]
                extra = [x for x in conj if x not in kinds]
                where = '%s:%d' % (f.module.relpath, c.lineno)
                bad = bool(kinds) and bool(extra)
                res.ob('R18', where, '%s._fault_to_parent_impl: branch "%s"'
                       % (k.name, unparse(c.test)[:60]),
                       'VIOLATED' if bad else 'ok')
                if bad:
                    res.finding('R18', '%s._fault_to_parent_impl|kind-branch-'
                                'narrowed' % k.name, where, 'the branch for '
                                '"%s" is taken only when "%s": the other '
                                'values of that kind reach the closing '
                                '"raise TypeError" while the error response '
                                'is being built, so the client gets neither '
                                'the fault nor its status' % (
                                    unparse(kinds[0]), unparse(extra[0])))
    res.floor('R18', 'detail dispatch chains in the XML fault writers', n, 2)


def run(prog, res, tier):
    res.run_rule(rule_r8, prog, res)
    res.run_rule(rule_r1, prog, res, tier)
    res.run_rule(rule_r2, prog, res)
    res.run_rule(rule_r3, prog, res)
    res.run_rule(rule_r4_r7, prog, res, tier)
    res.run_rule(rule_r5, prog, res)
    res.run_rule(rule_r6, prog, res)
    res.run_rule(rule_r9, prog, res)
    res.run_rule(rule_r10, prog, res)
    res.run_rule(rule_r11, prog, res)
    res.run_rule(rule_r12, prog, res)
    res.run_rule(rule_r13, prog, res)
    res.run_rule(rule_r14, prog, res)
    res.run_rule(rule_r15, prog, res)
    res.run_rule(rule_r16, prog, res)
    res.run_rule(rule_r17, prog, res)
    res.run_rule(rule_r18, prog, res)


_A = 'spyne/application.py'
_W = 'spyne/server/wsgi.py'
_O = 'spyne/protocol/_outbase.py'
_X = 'spyne/protocol/xml.py'
_H = 'spyne/protocol/dictdoc/hier.py'
_F = 'spyne/model/fault.py'

MUTANTS = [
    Mutant('empty-detail-dict-falls-to-raise', 'R18', 'fire',
           'spyne/protocol/xml.py',
           in_func('XmlDocument._fault_to_parent_impl',
                   "        elif isinstance(inst.detail, dict):\n"
                   "            if len(inst.detail) > 0:\n"
                   "                _append(",
                   "        elif isinstance(inst.detail, dict) and "
                   "len(inst.detail) > 0:\n"
                   "            if True:\n"
                   "                _append("), 'kind-branch-narrowed'),
    Mutant('fault-message-through-html-parser', 'R17', 'fire', _X,
           in_func('XmlDocument.fault_to_parent',
                   'E("faultstring", inst.faultstring),',
                   'E("faultstring", html.fromstring(inst.faultstring).text),'),
           'message-parsed-as-markup'),
    Mutant('serialize-with-app-protocol', 'R16', 'fire',
           'spyne/server/_base.py',
           in_func('ServerBase.get_out_string_pull',
                   "ret = ctx.out_protocol.serialize(ctx,",
                   "ret = self.app.out_protocol.serialize(ctx,"),
           'app-out-protocol'),
    Mutant('soap12-reader-by-sender-prefix', 'R15', 'fire',
           'spyne/protocol/soap/soap12.py',
           in_func('Soap12.fault_from_element',
                   "nsmap = {'soap': self.ns_soap_env}",
                   "nsmap = element.nsmap"), 'prefix-lookup'),
    Mutant('soap12-validation-fault-bytes', 'R15', 'fire',
           'spyne/protocol/soap/soap12.py',
           in_func('Soap12.schema_validation_error_to_parent',
                   "            faultstring = html.fromstring(faultstring)."
                   "text\n", "            pass\n"), 'bytes-message'),
    Mutant('soap12-validation-fault-no-code-slot', 'R15', 'fire',
           'spyne/protocol/soap/soap12.py',
           in_func('Soap12.schema_validation_error_to_parent',
                   "            None,  # The code tag is put here down the "
                   "road\n", ""), 'code-slot'),
    Mutant('error-response-keeps-half-built-document', 'R14', 'fire', _W,
           in_func('WsgiApplication.handle_rpc',
                   "            p_ctx.out_document = None\n", ""),
           'stale-response'),
    Mutant('subcode-marker-none', 'R13', 'fire',
           'spyne/protocol/soap/soap12.py',
           in_func('Soap12._fault_to_parent_impl',
                   "child_subcode = False", "child_subcode = None"),
           'marker'),
    Mutant('subcode-marker-truthiness-test', 'R13', 'silent',
           'spyne/protocol/soap/soap12.py',
           in_func('Soap12._fault_to_parent_impl',
                   "if child_subcode != 0:", "if child_subcode:"), None),
    Mutant('detail-only-with-actor', 'R12', 'fire', 'spyne/model/fault.py',
           in_func('Fault.to_dict',
                   "        if value.detail is not None:\n"
                   "            retval[\"detail\"] = value.detail_to_doc(prot)",
                   "            if value.detail is not None:\n"
                   "                retval[\"detail\"] = "
                   "value.detail_to_doc(prot)"), 'foreign-condition'),
    Mutant('subcodes-from-remainder', 'R12', 'fire',
           'spyne/protocol/soap/soap12.py',
           in_func('Soap12.gen_fault_codes',
                   "        return value, faultstrings",
                   "        return value, faultstring.partition('.')[2]"
                   ".split('.')"), 'remainder-split'),
    Mutant('list-items-tested-on-container', 'R12', 'fire',
           'spyne/util/etreeconv.py',
           in_func('dict_to_etree',
                   "if isinstance(e, dict) or isinstance(e, odict):",
                   "if isinstance(v, dict):"), 'container-tested-in-loop'),
    Mutant('detail-odict-test-dropped', 'R12', 'silent',
           'spyne/util/etreeconv.py',
           in_func('dict_to_etree',
                   "if isinstance(e, dict) or isinstance(e, odict):",
                   "if isinstance(e, dict):"), None),
    Mutant('blank-message-replaced', 'R11', 'fire', 'spyne/model/fault.py',
           in_func('Fault.__init__',
                   "self.faultstring = faultstring or self.get_type_name()",
                   "self.faultstring = (faultstring if faultstring and not "
                   "faultstring.isspace() else self.get_type_name())"),
           'message-rewritten'),
    Mutant('soap-405-for-not-allowed', 'R11', 'fire',
           'spyne/protocol/soap/soap11.py',
           in_func('Soap11.fault_to_http_response_code',
                   "        return HTTP_500",
                   "        if isinstance(fault, RequestNotAllowed):\n"
                   "            return HTTP_405\n        return HTTP_500"),
           'not-constant'),
    Mutant('to-list-skips-empty-actor', 'R10', 'fire', 'spyne/model/fault.py',
           in_func('Fault.to_list',
                   "        else:\n            retval.append(\"\")\n\n"
                   "        if value.detail is not None:",
                   "\n        if value.detail is not None:"), 'arity'),
    Mutant('subcodes-attached-to-fixed-anchor', 'R10', 'fire',
           'spyne/protocol/soap/soap12.py',
           in_func('Soap12._fault_to_parent_impl',
                   "child_subcode = self.generate_subcode(value, "
                   "child_subcode)",
                   "child_subcode = self.generate_subcode(value)"),
           'subcode-chain'),
    Mutant('status-from-app-protocol', 'R5', 'fire', _W,
           in_func('WsgiApplication.handle_error',
                   "p_ctx.out_protocol.fault_to_http_response_code(error)",
                   "self.app.out_protocol.fault_to_http_response_code(error)"),
           'status-protocol'),
    Mutant('not-found-bare-format', 'R9', 'fire', 'spyne/error.py',
           in_func('ResourceNotFoundError.__init__',
                   "fault_string % (fault_object,)",
                   "fault_string % fault_object"), 'bare-format-operand'),
    Mutant('not-found-format-local', 'R9', 'benign', 'spyne/error.py',
           in_func('ResourceNotFoundError.__init__',
                   "fault_string % (fault_object,)",
                   "fault_string % ((fault_object,))"), None),
    Mutant('detail-falsy-dropped', 'R9', 'fire', 'spyne/util/etreeconv.py',
           in_func('dict_to_etree', "        if v is None:",
                   "        if not v:"), 'truthiness'),
    Mutant('leak-str-e', 'R1', 'fire', _A,
           in_func('Application.process_request',
                   r"(logger_server\.critical\(e, \*\*\{'exc_info': 1\}\)\n\n"
                   r"            ctx\.out_error = Fault\('Server', )"
                   r"get_fault_string_from_exception\(e\)\)",
                   r"\1str(e))", regex=True), 'leak'),
    Mutant('leak-detail-repr', 'R1', 'fire', _A,
           in_func('Application.process_request',
                   r"(logger_server\.critical\(e, \*\*\{'exc_info': 1\}\)\n\n"
                   r"            ctx\.out_error = Fault\('Server', )"
                   r"get_fault_string_from_exception\(e\)\)",
                   r"\1get_fault_string_from_exception(e), "
                   r"detail={'exc': repr(e)})", regex=True), 'leak'),
    Mutant('leak-traceback', 'R1', 'fire', _W,
           in_func('WsgiApplication.handle_rpc',
                   r"(        except Exception as e:\n            logger\."
                   r"exception\(e\)\n            if isinstance\(e, Fault\):"
                   r"\n                p_ctx\.out_error = e\n            "
                   r"else:\n)                p_ctx\.out_error = Fault\('Server'"
                   r",\n\s+get_fault_string_from_exception\(e\)\)",
                   lambda m_: m_.group(1) + "                import traceback"
                   "\n                p_ctx.out_error = Fault('Server', "
                   "traceback.format_exc())", regex=True), ''),
    Mutant('lazy-serialization-error-stored-raw', 'R7', 'fire', _W,
           in_func('WsgiApplication.handle_rpc',
                   r"(        except Exception as e:\n            logger\."
                   r"exception\(e\)\n)            if isinstance\(e, Fault\):"
                   r"\n                p_ctx\.out_error = e\n            "
                   r"else:\n                p_ctx\.out_error = Fault\('Server'"
                   r",\n\s+get_fault_string_from_exception\(e\)\)",
                   lambda m_: m_.group(1) + "            p_ctx.out_error = e",
                   regex=True), 'non-fault'),
    Mutant('default-string-formats-exception', 'R1', 'fire', _A,
           in_func('get_fault_string_from_exception',
                   'return "Internal Error"',
                   'return "Internal Error: %s" % (e,)'), 'not-literal'),
    Mutant('class-name-leak', 'R1', 'fire', _A,
           in_func('Application.process_request',
                   r"(logger_server\.critical\(e, \*\*\{'exc_info': 1\}\)\n\n"
                   r"            ctx\.out_error = Fault\()'Server', ",
                   r"\1'Server.%s' % type(e).__name__, ", regex=True), ''),
    Mutant('twin-log-more', 'R1', 'benign', _A,
           in_func('Application.process_request',
                   "logger_server.critical(e, **{'exc_info': 1})",
                   "logger_server.critical(e, **{'exc_info': 1})\n"
                   "            logger_server.debug('failed: %r', e)"), ''),
    Mutant('status-404-as-400', 'R2', 'fire', _O,
           in_func('OutProtocolBase.fault_to_http_response_code',
                   "return HTTP_404", "return HTTP_400"), 'status'),
    Mutant('client-test-first', 'R2', 'fire', _O,
           in_func('OutProtocolBase.fault_to_http_response_code',
                   r"(        if isinstance\(fault, RequestTooLongError\):.*?)"
                   r"(        if isinstance\(fault, Fault\) and .*?"
                   r"return HTTP_400\n\n)", r"\2\1", regex=True), 'order'),
    Mutant('client-prefix-without-dot', 'R2', 'fire', _O,
           in_func('OutProtocolBase.fault_to_http_response_code',
                   "startswith('Client.')", "startswith('Client')"),
           'client-test'),
    Mutant('default-400', 'R2', 'fire', _O,
           in_func('OutProtocolBase.fault_to_http_response_code',
                   "        return HTTP_500", "        return HTTP_400"),
           'default'),
    Mutant('exact-type-dispatch', 'R2', 'fire', _O,
           in_func('OutProtocolBase.fault_to_http_response_code',
                   r"        if isinstance\(fault, RequestTooLongError\):.*?"
                   r"return HTTP_401\n",
                   "        code = {RequestTooLongError: HTTP_413, "
                   "ResourceNotFoundError: HTTP_404, RequestNotAllowed: "
                   "HTTP_405, InvalidCredentialsError: HTTP_401}.get("
                   "type(fault))\n        if code is not None:\n"
                   "            return code\n", regex=True), 'exact-type'),
    Mutant('soap-not-500', 'R2', 'fire', 'spyne/protocol/soap/soap11.py',
           in_func('Soap11.fault_to_http_response_code', "return HTTP_500",
                   "return XmlDocument.fault_to_http_response_code(self, "
                   "fault)"), 'soap-500'),
    Mutant('result-sent-with-fault', 'R3', 'fire', _H,
           in_func('HierDictDocument.serialize',
                   r"        if ctx\.out_error is not None:\n"
                   r"            ctx\.out_document = self\._fault_to_doc\("
                   r"ctx\.out_error\)\n            return\n",
                   "        if ctx.out_error is not None:\n"
                   "            ctx.out_document = self._fault_to_doc("
                   "ctx.out_error)\n", regex=True), 'result-on-fault-path'),
    Mutant('fault-replaced', 'R4', 'fire', _A,
           in_func('Application.process_request',
                   "            ctx.out_error = e\n",
                   "            ctx.out_error = Fault(e.faultcode, "
                   "e.faultstring)\n"), 'replaced'),
    Mutant('raw-exception-as-error', 'R7', 'fire', _A,
           in_func('Application.process_request',
                   r"(logger_server\.critical\(e, \*\*\{'exc_info': 1\}\)\n\n"
                   r"            ctx\.out_error = )Fault\('Server', "
                   r"get_fault_string_from_exception\(e\)\)", r"\1e",
                   regex=True), 'non-fault'),
    Mutant('status-not-reset', 'R5', 'fire', _W,
           in_func('WsgiApplication.handle_rpc',
                   "            p_ctx.transport.resp_code = None\n", ""),
           'stale-status'),
    Mutant('handle-error-keeps-200', 'R5', 'fire', _W,
           in_func('WsgiApplication.handle_error',
                   r"        if p_ctx\.transport\.resp_code is None:\n"
                   r"            p_ctx\.transport\.resp_code = \\\n"
                   r"                p_ctx\.out_protocol\.fault_to_http_"
                   r"response_code\(error\)\n",
                   "        if p_ctx.transport.resp_code is None:\n"
                   "            p_ctx.transport.resp_code = HTTP_200\n",
                   regex=True), 'status-from-fault'),
    Mutant('detail-dict-unwrapped', 'R8', 'fire', _X,
           in_func('XmlDocument._fault_to_parent_impl',
                   "root_dict_to_etree({'detail':inst.detail})",
                   "E('detail', root_dict_to_etree(inst.detail))"),
           'root_dict_to_etree'),
    Mutant('fault-writer-wrong-tag', 'R6', 'fire', _X,
           in_func('XmlDocument.fault_to_parent',
                   'E("faultstring", inst.faultstring)',
                   'E("faultString", inst.faultstring)'), 'faultstring'),
    Mutant('fault-reader-wrong-tag', 'R6', 'fire', _X,
           in_func('XmlDocument.fault_from_element',
                   "find('faultstring')", "find('faultString')"),
           'faultstring'),
    Mutant('to-dict-swapped', 'R6', 'fire', _F,
           in_func('Fault.to_dict', '"faultstring": value.faultstring',
                   '"faultstring": value.faultcode'), 'swapped'),
]
